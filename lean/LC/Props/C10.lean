/-
C10 — Classic-notation Display is unambiguous: parsing it back yields the same term

"For every term without UD, parsing the Display output in Classic notation yields the same term
when it is closed, and in general the same term with its free variables renumbered in order of
first appearance (which is all a named notation can express). The output follows the documented
format: binders named a, b, ..., z, aa, ... by nesting depth, free variables named after all
binder names, minimal parentheses, and the lambda glyph selected by the backslash_lambda
feature."
-/
import LC.Model.Parser
import LC.Model.Display
import LC.Spec.ClassicSpec
import LC.Proofs.Syntax.Classic
import LC.Spec.FreeVars

namespace LC
open Term Parser Display

/-- no `var 0` -/
def noUD : Term → Bool
  | var i => decide (i ≠ 0)
  | abs b => noUD b
  | app l r => noUD l && noUD r

namespace C10

/-! ## 1. `base26` is the bijective base-26 numeral of `n + 1` -/

/-- value of a bijective base-26 numeral over `'a'..'z'` (a = 1, …, z = 26), most significant
digit first -/
def value26 (ds : List Nat) : Nat := ds.foldl (fun acc d => 26 * acc + (d - 96)) 0

theorem value26_snoc (ds : List Nat) (c : Nat) :
    value26 (ds ++ [c]) = 26 * value26 ds + (c - 96) := by
  simp [value26, List.foldl_append]

theorem base26Loop_zero (acc : List Nat) : base26Loop 0 acc = acc := by
  rw [base26Loop]; simp

/-- the digit produced by one round of the loop -/
def digit (n : Nat) : Nat := if n % 26 = 0 then 26 else n % 26

theorem base26Loop_pos (n : Nat) (h : n ≠ 0) (acc : List Nat) :
    base26Loop n acc = base26Loop ((n - 1) / 26) ((digit n + 96) :: acc) := by
  rw [base26Loop, dif_neg h]
  simp [digit]

theorem base26Loop_acc (n : Nat) : ∀ acc, base26Loop n acc = base26Loop n [] ++ acc := by
  induction n using Nat.strongRecOn with
  | _ n ih =>
    intro acc
    by_cases h : n = 0
    · subst h; simp [base26Loop_zero]
    · have hlt : (n - 1) / 26 < n := by omega
      rw [base26Loop_pos n h, base26Loop_pos n h, ih _ hlt, ih _ hlt [digit n + 96]]
      simp

theorem base26Loop_snoc (n : Nat) (h : n ≠ 0) :
    base26Loop n [] = base26Loop ((n - 1) / 26) [] ++ [digit n + 96] := by
  rw [base26Loop_pos n h, base26Loop_acc]

theorem digit_range (n : Nat) : 1 ≤ digit n ∧ digit n ≤ 26 := by
  unfold digit; split <;> omega

theorem digit_eq (n : Nat) (h : n ≠ 0) : 26 * ((n - 1) / 26) + digit n = n := by
  unfold digit; split <;> omega

theorem value26_loop (n : Nat) : value26 (base26Loop n []) = n := by
  induction n using Nat.strongRecOn with
  | _ n ih =>
    by_cases h : n = 0
    · subst h; simp [base26Loop_zero, value26]
    · have hlt : (n - 1) / 26 < n := by omega
      rw [base26Loop_snoc n h, value26_snoc, ih _ hlt]
      have := digit_eq n h
      omega

theorem range_loop (n : Nat) : ∀ c ∈ base26Loop n [], 97 ≤ c ∧ c ≤ 122 := by
  induction n using Nat.strongRecOn with
  | _ n ih =>
    by_cases h : n = 0
    · subst h; simp [base26Loop_zero]
    · have hlt : (n - 1) / 26 < n := by omega
      rw [base26Loop_snoc n h]
      intro c hc
      rcases List.mem_append.1 hc with hc | hc
      · exact ih _ hlt c hc
      · have := digit_range n
        simp at hc; omega

end C10

/-- `base26 n` is the bijective base-26 numeral of `n + 1` over `'a'..'z'`: it is non-empty, all
its code points are lower-case ASCII letters, and its value (a = 1, …, z = 26) is `n + 1` -/
theorem base26_spec (n : Nat) :
    base26 n ≠ [] ∧ (∀ c ∈ base26 n, 97 ≤ c ∧ c ≤ 122) ∧ C10.value26 (base26 n) = n + 1 := by
  refine ⟨?_, C10.range_loop (n + 1), C10.value26_loop (n + 1)⟩
  unfold base26
  rw [C10.base26Loop_snoc (n + 1) (by omega)]
  simp

/-- hence distinct numbers get distinct names -/
theorem base26_injective (a b : Nat) (h : base26 a = base26 b) : a = b := by
  have ha := (base26_spec a).2.2
  have hb := (base26_spec b).2.2
  rw [h] at ha
  omega

/-- C10, binder and free-variable names: `base26_spec` under the name the audit pins -/
theorem C10_base26_spec (n : Nat) :
    base26 n ≠ [] ∧ (∀ c ∈ base26 n, 97 ≤ c ∧ c ≤ 122) ∧ C10.value26 (base26 n) = n + 1 :=
  base26_spec n

/-- C10: distinct ordinals get distinct names (`base26_injective` under the name the audit pins) -/
theorem C10_base26_injective (a b : Nat) (h : base26 a = base26 b) : a = b :=
  base26_injective a b h

example : base26 0 = [97] := by decide +kernel
example : base26 25 = [122] := by decide +kernel
example : base26 26 = [97, 97] := by decide +kernel
example : base26 701 = [122, 122] := by decide +kernel
example : base26 702 = [97, 97, 97] := by decide +kernel

/-! ## 2. the canonical renumbering of free variables -/

/-- the traversal behind `canon`: `d` = number of binders crossed, `seen` = the free-variable
numbers met so far, in order of first appearance.  An occurrence `var i` with `i > d` is the free
variable number `j = i - d`; it becomes the free variable number `(rank of j in seen) + 1`. -/
def canonAux (d : Nat) (seen : List Nat) : Term → Term × List Nat
  | var i =>
    if i ≤ d then (var i, seen)
    else
      match seen.idxOf? (i - d) with
      | some r => (var (d + r + 1), seen)
      | none => (var (d + seen.length + 1), seen ++ [i - d])
  | abs b =>
    let (b', s') := canonAux (d + 1) seen b
    (abs b', s')
  | app l r =>
    let (l', s₁) := canonAux d seen l
    let (r', s₂) := canonAux d s₁ r
    (app l' r', s₂)

/-- free variable `j` (an occurrence `var (j + d)` under `d` binders) renumbered by the rank of
its first occurrence in left-to-right (pre-order) reading -/
def canon (t : Term) : Term := (canonAux 0 [] t).1

namespace C10

/-- the obvious renaming of free variables: the free variable number `j` becomes `ρ j` -/
def renameAux (ρ : Nat → Nat) (d : Nat) : Term → Term
  | var i => if i ≤ d then var i else var (d + ρ (i - d))
  | abs b => abs (renameAux ρ (d + 1) b)
  | app l r => app (renameAux ρ d l) (renameAux ρ d r)

def rename (ρ : Nat → Nat) (t : Term) : Term := renameAux ρ 0 t

/-- the free-variable numbers of all free occurrences, in left-to-right order -/
def fvs (d : Nat) : Term → List Nat
  | var i => if i ≤ d then [] else [i - d]
  | abs b => fvs (d + 1) b
  | app l r => fvs d l ++ fvs d r

def freeVars (t : Term) : List Nat := fvs 0 t

/-! ### lists: `idxOf?`, first-appearance lists -/

theorem idxOf?_eq {α : Type} [BEq α] [LawfulBEq α] (l : List α) (a : α) :
    l.idxOf? a = if a ∈ l then some (l.idxOf a) else none := by
  induction l with
  | nil => simp
  | cons x xs ih =>
    rw [List.idxOf?_cons, List.idxOf_cons, ih]
    by_cases h : x = a
    · subst h; simp
    · have h' : ¬ a = x := fun e => h e.symm
      have hb : (x == a) = false := by simp [h]
      by_cases hm : a ∈ xs <;> simp [h', hb, hm]

/-- record a value at the end of the list unless it is there already -/
def addNew {α : Type} [BEq α] [LawfulBEq α] (l : List α) (a : α) : List α :=
  if a ∈ l then l else l ++ [a]

/-- the distinct values of `js` in order of first appearance, after those of `l` -/
def addAll {α : Type} [BEq α] [LawfulBEq α] (l : List α) (js : List α) : List α := js.foldl addNew l

section
variable {α : Type} [BEq α] [LawfulBEq α]

theorem addAll_nil (l : List α) : addAll l [] = l := rfl

theorem addAll_cons (l : List α) (j : α) (js : List α) :
    addAll l (j :: js) = addAll (addNew l j) js := rfl

theorem addAll_append (l js ks : List α) : addAll l (js ++ ks) = addAll (addAll l js) ks := by
  simp [addAll, List.foldl_append]

theorem addNew_prefix (l : List α) (a : α) : ∃ ext, addNew l a = l ++ ext := by
  unfold addNew; split
  · exact ⟨[], by simp⟩
  · exact ⟨[a], rfl⟩

theorem addAll_prefix (js : List α) : ∀ l : List α, ∃ ext, addAll l js = l ++ ext := by
  induction js with
  | nil => intro l; exact ⟨[], by simp [addAll_nil]⟩
  | cons j js ih =>
    intro l
    obtain ⟨e₁, h₁⟩ := addNew_prefix l j
    obtain ⟨e₂, h₂⟩ := ih (addNew l j)
    exact ⟨e₁ ++ e₂, by rw [addAll_cons, h₂, h₁, List.append_assoc]⟩

theorem mem_addNew (l : List α) (a x : α) : x ∈ addNew l a ↔ x ∈ l ∨ x = a := by
  unfold addNew; split
  · constructor
    · exact Or.inl
    · rintro (h | rfl) <;> assumption
  · simp

theorem mem_addAll (js : List α) : ∀ (l : List α) (x : α), x ∈ addAll l js ↔ x ∈ l ∨ x ∈ js := by
  induction js with
  | nil => intro l x; simp [addAll_nil]
  | cons j js ih =>
    intro l x
    rw [addAll_cons, ih, mem_addNew, List.mem_cons, or_assoc]

theorem nodup_addNew (l : List α) (a : α) (h : l.Nodup) : (addNew l a).Nodup := by
  unfold addNew; split
  · exact h
  · rename_i hm
    rw [List.nodup_append]
    refine ⟨h, by simp, ?_⟩
    intro x hx b hb
    simp at hb; subst hb
    intro e; subst e; exact hm hx

theorem nodup_addAll (js : List α) : ∀ l : List α, l.Nodup → (addAll l js).Nodup := by
  induction js with
  | nil => intro l h; exact h
  | cons j js ih => intro l h; exact ih _ (nodup_addNew l j h)

/-- looking up a recorded value: its rank does not depend on what is recorded later -/
theorem idxOf_addNew_append (l : List α) (a : α) (more : List α) :
    (addNew l a ++ more).idxOf a = l.idxOf a := by
  unfold addNew; split
  · rename_i h; rw [List.idxOf_append, if_pos h]
  · rename_i h
    rw [List.append_assoc, List.idxOf_append, if_neg h, List.idxOf_eq_length h]
    simp

theorem map_addNew {β : Type} [BEq β] [LawfulBEq β] (f : α → β) (l : List α) (a : α)
    (hinj : ∀ x ∈ l, f x = f a → x = a) : addNew (l.map f) (f a) = (addNew l a).map f := by
  have hm : f a ∈ l.map f ↔ a ∈ l := by
    rw [List.mem_map]
    constructor
    · rintro ⟨x, hx, he⟩; rw [← hinj x hx he]; exact hx
    · intro h; exact ⟨a, h, rfl⟩
  unfold addNew
  by_cases h : a ∈ l
  · rw [if_pos h, if_pos (hm.2 h)]
  · rw [if_neg h, if_neg (fun h' => h (hm.1 h'))]; simp

theorem idxOf_map {β : Type} [BEq β] [LawfulBEq β] (f : α → β) (l : List α) (a : α)
    (hinj : ∀ x ∈ l, f x = f a → x = a) : (l.map f).idxOf (f a) = l.idxOf a := by
  induction l with
  | nil => rfl
  | cons x xs ih =>
    rw [List.map_cons, List.idxOf_cons, List.idxOf_cons,
      ih (fun y hy => hinj y (List.mem_cons_of_mem _ hy))]
    by_cases h : x = a
    · subst h; simp
    · have h' : ¬ f x = f a := fun e => h (hinj x (List.mem_cons_self) e)
      have hb1 : (x == a) = false := by simp [h]
      have hb2 : (f x == f a) = false := by simp [h']
      rw [hb1, hb2]

end

/-! ### `canonAux` in closed form -/

theorem canonAux_var (d : Nat) (seen : List Nat) (i : Nat) :
    canonAux d seen (var i) =
      if i ≤ d then (var i, seen) else (var (d + seen.idxOf (i - d) + 1), addNew seen (i - d)) := by
  unfold canonAux
  by_cases h : i ≤ d
  · simp [h]
  · rw [if_neg h, if_neg h, idxOf?_eq]
    unfold addNew
    by_cases hm : (i - d) ∈ seen
    · simp [hm]
    · simp [hm, List.idxOf_eq_length hm]

theorem canonAux_abs (d : Nat) (seen : List Nat) (b : Term) :
    canonAux d seen (abs b) = (abs (canonAux (d + 1) seen b).1, (canonAux (d + 1) seen b).2) := rfl

theorem canonAux_app (d : Nat) (seen : List Nat) (l r : Term) :
    canonAux d seen (app l r) =
      (app (canonAux d seen l).1 (canonAux d (canonAux d seen l).2 r).1,
        (canonAux d (canonAux d seen l).2 r).2) := rfl

/-- the list threaded by the traversal: the distinct free variables in order of first appearance -/
theorem canonAux_snd (t : Term) :
    ∀ d seen, (canonAux d seen t).2 = addAll seen (fvs d t) := by
  induction t with
  | var i =>
    intro d seen
    rw [canonAux_var, fvs]
    by_cases h : i ≤ d <;> simp [h, addAll_nil, addAll_cons]
  | abs b ih => intro d seen; rw [canonAux_abs, fvs]; exact ih _ _
  | app l r ihl ihr =>
    intro d seen
    rw [canonAux_app, fvs, addAll_append, ← ihl, ← ihr]

/-- the rank renaming determined by a list of free-variable numbers -/
def rho (l : List Nat) (j : Nat) : Nat := l.idxOf j + 1

/-- the term computed by the traversal is the input renamed by the ranks in the final list (or
any extension of it) -/
theorem canonAux_fst (t : Term) :
    ∀ d seen more,
      (canonAux d seen t).1 = renameAux (rho (addAll seen (fvs d t) ++ more)) d t := by
  induction t with
  | var i =>
    intro d seen more
    rw [canonAux_var, fvs, renameAux]
    by_cases h : i ≤ d
    · simp [h]
    · simp only [h, if_false, addAll_cons, addAll_nil, rho, idxOf_addNew_append]
      rfl
  | abs b ih =>
    intro d seen more
    rw [canonAux_abs, fvs, renameAux, ← ih]
  | app l r ihl ihr =>
    intro d seen more
    rw [canonAux_app, fvs, renameAux, addAll_append, canonAux_snd l]
    obtain ⟨ext, he⟩ := addAll_prefix (fvs d r) (addAll seen (fvs d l))
    rw [← ihr, he, List.append_assoc, ← ihl]

theorem canon_eq_rename (t : Term) : canon t = rename (rho (addAll [] (freeVars t))) t := by
  have := canonAux_fst t 0 [] []
  simpa [canon, rename, freeVars] using this

/-- the free variables of a renamed term -/
theorem fvs_rename (ρ : Nat → Nat) (hρ : ∀ j, 1 ≤ ρ j) (t : Term) :
    ∀ d, fvs d (renameAux ρ d t) = (fvs d t).map ρ := by
  induction t with
  | var i =>
    intro d
    rw [renameAux]
    by_cases h : i ≤ d
    · simp [h, fvs]
    · have := hρ (i - d)
      have h2 : ¬ d + ρ (i - d) ≤ d := by omega
      simp only [h, if_false, fvs, h2, List.map_cons, List.map_nil]
      congr 1; omega
  | abs b ih => intro d; rw [renameAux, fvs, fvs, ih]
  | app l r ihl ihr => intro d; rw [renameAux, fvs, fvs, ihl, ihr, List.map_append]

theorem fvs_pos (t : Term) : ∀ d, ∀ j ∈ fvs d t, 1 ≤ j := by
  induction t with
  | var i =>
    intro d j hj
    rw [fvs] at hj
    by_cases h : i ≤ d
    · simp [h] at hj
    · simp [h] at hj; omega
  | abs b ih => intro d; exact ih _
  | app l r ihl ihr =>
    intro d j hj
    rw [fvs] at hj
    rcases List.mem_append.1 hj with h | h
    · exact ihl d j h
    · exact ihr d j h

/-! ### closed terms -/

theorem canonAux_closed (t : Term) :
    ∀ d seen, hasFreeVariablesHelper d t = false → canonAux d seen t = (t, seen) := by
  induction t with
  | var i =>
    intro d seen h
    simp only [hasFreeVariablesHelper, Bool.or_eq_false_iff, decide_eq_false_iff_not] at h
    rw [canonAux_var, if_pos (by omega)]
  | abs b ih =>
    intro d seen h
    rw [canonAux_abs, ih _ _ h]
  | app l r ihl ihr =>
    intro d seen h
    simp only [hasFreeVariablesHelper, Bool.or_eq_false_iff] at h
    rw [canonAux_app, ihl _ _ h.1, ihr _ _ h.2]

/-! ### idempotence -/

/-- `[1, 2, …, n]` -/
def upto : Nat → List Nat
  | 0 => []
  | n + 1 => upto n ++ [n + 1]

theorem length_upto (n : Nat) : (upto n).length = n := by
  induction n with
  | zero => rfl
  | succ n ih => simp [upto, ih]

theorem mem_upto (n j : Nat) : j ∈ upto n ↔ 1 ≤ j ∧ j ≤ n := by
  induction n with
  | zero => simp [upto]; omega
  | succ n ih => simp [upto, ih]; omega

theorem idxOf_upto (n r : Nat) (h : r ≤ n) : (upto n).idxOf (r + 1) = r := by
  induction n with
  | zero => have : r = 0 := by omega
            subst this; rfl
  | succ n ih =>
    rw [upto, List.idxOf_append]
    by_cases hr : r < n
    · have hm : r + 1 ∈ upto n := (mem_upto n (r + 1)).2 (by omega)
      rw [if_pos hm, ih (by omega)]
    · have hm : ¬ r + 1 ∈ upto n := by rw [mem_upto]; omega
      rw [if_neg hm, length_upto, List.idxOf_cons]
      by_cases e : r = n
      · subst e; simp
      · have hb : (n + 1 == r + 1) = false := by simp; omega
        rw [hb]; simp; omega

theorem addNew_upto (seen : List Nat) (j : Nat) :
    addNew (upto seen.length) (seen.idxOf j + 1) = upto (addNew seen j).length := by
  unfold addNew
  by_cases h : j ∈ seen
  · have := List.idxOf_lt_length_of_mem h
    rw [if_pos h, if_pos ((mem_upto _ _).2 (by omega))]
  · rw [if_neg h, List.idxOf_eq_length h, if_neg (by rw [mem_upto]; omega)]
    simp [upto]

/-- on the output of the traversal, the traversal started with `[1, …, |seen|]` is the identity -/
theorem canonAux_canonAux (t : Term) :
    ∀ d seen,
      canonAux d (upto seen.length) (canonAux d seen t).1 =
        ((canonAux d seen t).1, upto (canonAux d seen t).2.length) := by
  induction t with
  | var i =>
    intro d seen
    rw [canonAux_var]
    by_cases h : i ≤ d
    · simp only [h, if_true]
      rw [canonAux_var, if_pos h]
    · simp only [h, if_false]
      have hle : seen.idxOf (i - d) ≤ seen.length := List.idxOf_le_length
      rw [canonAux_var, if_neg (by omega)]
      have e : d + seen.idxOf (i - d) + 1 - d = seen.idxOf (i - d) + 1 := by omega
      rw [e, idxOf_upto _ _ hle, addNew_upto]
  | abs b ih =>
    intro d seen
    rw [canonAux_abs]
    simp only []
    rw [canonAux_abs, ih]
  | app l r ihl ihr =>
    intro d seen
    rw [canonAux_app]
    simp only []
    rw [canonAux_app, ihl]
    simp only []
    rw [ihr]

/-! ### two duplicate-free enumerations of the same set have the same length -/

theorem length_le_of_nodup_subset :
    ∀ (l₁ l₂ : List Nat), l₁.Nodup → (∀ x ∈ l₁, x ∈ l₂) → l₁.length ≤ l₂.length := by
  intro l₁
  induction l₁ with
  | nil => intro l₂ _ _; simp
  | cons a l ih =>
    intro l₂ hn hs
    rw [List.nodup_cons] at hn
    have ha : a ∈ l₂ := hs a List.mem_cons_self
    have := ih (l₂.erase a) hn.2 (fun x hx => by
      have hx2 : x ∈ l₂ := hs x (List.mem_cons_of_mem _ hx)
      have hne : x ≠ a := fun e => hn.1 (e ▸ hx)
      exact (List.mem_erase_of_ne hne).2 hx2)
    rw [List.length_erase_of_mem ha] at this
    have hpos : 0 < l₂.length := List.length_pos_of_mem ha
    simp only [List.length_cons]
    omega

theorem length_eq_of_nodup_same (l₁ l₂ : List Nat) (h₁ : l₁.Nodup) (h₂ : l₂.Nodup)
    (h : ∀ x, x ∈ l₁ ↔ x ∈ l₂) : l₁.length = l₂.length :=
  Nat.le_antisymm (length_le_of_nodup_subset l₁ l₂ h₁ (fun x hx => (h x).1 hx))
    (length_le_of_nodup_subset l₂ l₁ h₂ (fun x hx => (h x).2 hx))

/-- the distinct free variables of `t` in order of first appearance -/
def distinctFV (t : Term) : List Nat := addAll [] (freeVars t)

theorem distinctFV_nodup (t : Term) : (distinctFV t).Nodup := nodup_addAll _ _ List.nodup_nil

theorem mem_distinctFV (t : Term) (j : Nat) : j ∈ distinctFV t ↔ j ∈ freeVars t := by
  simp [distinctFV, mem_addAll]

/-- the number of distinct free variables of `t`: the length of ANY duplicate-free enumeration of
its free variables -/
theorem length_distinctFV (t : Term) (l : List Nat) (hn : l.Nodup)
    (hm : ∀ j, j ∈ l ↔ j ∈ freeVars t) : l.length = (distinctFV t).length :=
  length_eq_of_nodup_same l _ hn (distinctFV_nodup t) (fun x => by rw [hm, mem_distinctFV])

theorem rho_inj (l : List Nat) (a b : Nat) (ha : a ∈ l) (hb : b ∈ l) (h : rho l a = rho l b) :
    a = b := by
  have h1 := List.idxOf_lt_length_of_mem ha
  have h2 := List.idxOf_lt_length_of_mem hb
  have e : l.idxOf a = l.idxOf b := by unfold rho at h; omega
  have := List.getElem_idxOf h1
  rw [← this, ← List.getElem_idxOf h2]
  simp [e]

theorem mem_map_rho (l : List Nat) (hn : l.Nodup) (j : Nat) :
    j ∈ l.map (rho l) ↔ 1 ≤ j ∧ j ≤ l.length := by
  rw [List.mem_map]
  constructor
  · rintro ⟨a, ha, rfl⟩
    have := List.idxOf_lt_length_of_mem ha
    unfold rho; omega
  · rintro ⟨h1, h2⟩
    have hlt : j - 1 < l.length := by omega
    refine ⟨l[j - 1], List.getElem_mem hlt, ?_⟩
    unfold rho
    rw [hn.idxOf_getElem _ hlt]; omega

end C10

open C10

/-- closed terms (no free variable, no `UD`) round-trip exactly -/
theorem C10_closed (t : Term) (h : hasFreeVariables t = false) : canon t = t := by
  unfold canon
  rw [canonAux_closed t 0 [] h]

theorem C10_canon_idempotent (t : Term) : canon (canon t) = canon t := by
  have := canonAux_canonAux t 0 []
  unfold canon
  simp only [List.length_nil, upto] at this
  rw [this]

/-- `canon t` is `t` with its free variables renamed by a map that is injective on the free
variables of `t`, and the free variables of `canon t` are exactly `1, …, k` where `k` is the
number of distinct free variables of `t` (the length of a — equivalently, by
`C10.length_distinctFV`, of any — duplicate-free enumeration `l` of them) -/
theorem C10_canon_bijective_renaming (t : Term) :
    ∃ ρ : Nat → Nat,
      (∀ a ∈ freeVars t, ∀ b ∈ freeVars t, ρ a = ρ b → a = b) ∧
      canon t = rename ρ t ∧
      ∃ l : List Nat, l.Nodup ∧ (∀ j, j ∈ l ↔ j ∈ freeVars t) ∧
        ∀ j, j ∈ freeVars (canon t) ↔ 1 ≤ j ∧ j ≤ l.length := by
  refine ⟨rho (distinctFV t), ?_, canon_eq_rename t, distinctFV t, distinctFV_nodup t,
    mem_distinctFV t, ?_⟩
  · intro a ha b hb h
    exact rho_inj _ a b ((mem_distinctFV t a).2 ha) ((mem_distinctFV t b).2 hb) h
  · intro j
    rw [canon_eq_rename, freeVars, rename,
      fvs_rename _ (fun j => by unfold rho; omega) t 0]
    show j ∈ List.map (rho (distinctFV t)) (freeVars t) ↔ _
    rw [← mem_map_rho (distinctFV t) (distinctFV_nodup t) j]
    simp only [List.mem_map]
    constructor
    · rintro ⟨a, ha, e⟩; exact ⟨a, (mem_distinctFV t a).2 ha, e⟩
    · rintro ⟨a, ha, e⟩; exact ⟨a, (mem_distinctFV t a).1 ha, e⟩

/-! ## 3. the documented format -/

namespace C10

/-- the name of the free variable number `j ≥ 1`: free variables are named after all binder
names (`maxDepth` of them are reserved) -/
def fname (maxDepth : Nat) (j : Nat) : List Nat := base26 (maxDepth + j - 1)

/-- the name printed for the occurrence `var i` under `depth` binders: the name of its binder
(binders are named by nesting depth, the outermost is `a`) when it is bound, the name of the free
variable number `i - depth` otherwise -/
def varName (maxDepth depth i : Nat) : List Nat :=
  if i ≤ depth then base26 (depth - i) else fname maxDepth (i - depth)

end C10

/-- the documented format, as an independently written grammar-directed printer.
`pos` is the syntactic position: 0 = whole term / body of an abstraction, 1 = operator,
2 = operand.  A variable is its name; an abstraction is `λname.body`, parenthesised unless it is
the whole term or a body; an application is `operator operand` with exactly one space,
parenthesised only as an operand. -/
def printCla (lam : Nat) (maxDepth : Nat) : (pos : Nat) → (depth : Nat) → Term → List Nat
  | _, d, var i => C10.varName maxDepth d i
  | pos, d, abs b =>
    let s := [lam] ++ base26 d ++ [46] ++ printCla lam maxDepth 0 (d + 1) b
    if pos = 0 then s else [40] ++ s ++ [41]
  | pos, d, app l r =>
    let s := printCla lam maxDepth 1 d l ++ [32] ++ printCla lam maxDepth 2 d r
    if pos = 2 then [40] ++ s ++ [41] else s

namespace C10

/-- the context precedence used by the code for a syntactic position -/
def ctxOf : Nat → Nat
  | 0 => 0
  | 1 => 2
  | _ => 3

theorem showCla_var (lam M i ctx d : Nat) (h : i ≠ 0) :
    showCla lam M (var i) ctx d = varName M d i := by
  cases i with
  | zero => exact absurd rfl h
  | succ i =>
    simp only [showCla, varName, fname]
    by_cases h' : i + 1 ≤ d
    · simp [h']
    · simp only [h', if_false]; congr 1; omega

theorem showCla_eq_printCla (lam M : Nat) (t : Term) (h : noUD t = true) :
    ∀ pos d, pos ≤ 2 → showCla lam M t (ctxOf pos) d = printCla lam M pos d t := by
  induction t with
  | var i =>
    intro pos d _
    have hi : i ≠ 0 := by simpa [noUD] using h
    rw [showCla_var _ _ _ _ _ hi, printCla]
  | abs b ih =>
    intro pos d hpos
    have hb : noUD b = true := by simpa [noUD] using h
    have := ih hb 0 (d + 1) (by omega)
    simp only [ctxOf] at this
    have hp : pos = 0 ∨ pos = 1 ∨ pos = 2 := by omega
    rcases hp with rfl | rfl | rfl <;> simp [showCla, printCla, parenIf, ctxOf, this]
  | app l r ihl ihr =>
    intro pos d hpos
    simp only [noUD, Bool.and_eq_true] at h
    have h1 := ihl h.1 1 d (by omega)
    have h2 := ihr h.2 2 d (by omega)
    simp only [ctxOf] at h1 h2
    have hp : pos = 0 ∨ pos = 1 ∨ pos = 2 := by omega
    rcases hp with rfl | rfl | rfl <;> simp [showCla, printCla, parenIf, ctxOf, h1, h2]

end C10

/-- the Display output follows the documented format -/
theorem C10_format (lam : Nat) (t : Term) (h : noUD t = true) :
    display lam t = printCla lam t.maxDepth 0 0 t :=
  C10.showCla_eq_printCla lam t.maxDepth t h 0 0 (by omega)

/-! ## 4. the round trip -/

namespace C10
open Spec Spec.Cl Spec.Cl.NTerm Parser.CToken

/-- what the round trip needs from the character classification (facts about Rust's `char`
methods, checked against Rust for all code points by the harness): the lower-case ASCII letters
are alphabetic, alphanumeric and not whitespace; the space is whitespace; whitespace is never a
lambda glyph or a parenthesis, letters are alphanumeric, and whitespace, the parentheses and the
backslash are not alphanumeric (`Cl.ClsOk`: a name ends at the first non-alphanumeric character —
or at the glyph `λ`, which the printed names, made of the letters `a`–`z`, never contain) -/
structure ClsOk10 (cls : CharCls) : Prop where
  lower_alpha : ∀ c, 97 ≤ c → c ≤ 122 → cls.isAlpha c = true
  lower_alnum : ∀ c, 97 ≤ c → c ≤ 122 → cls.isAlnum c = true
  lower_not_ws : ∀ c, 97 ≤ c → c ≤ 122 → cls.isWs c = false
  space_ws : cls.isWs 32 = true
  ok : Cl.ClsOk cls

/-- the named term that `Display` prints -/
def nameOf (M : Nat) : Nat → Term → NTerm
  | d, var i => nvar (varName M d i)
  | d, abs b => nlam (base26 d) (nameOf M (d + 1) b)
  | d, app l r => napp (nameOf M d l) (nameOf M d r)

variable {cls : CharCls}

theorem wfName_base26 (hc : ClsOk10 cls) (n : Nat) : WfName cls (base26 n) := by
  obtain ⟨hne, hr, _⟩ := base26_spec n
  cases hb : base26 n with
  | nil => exact absurd hb hne
  | cons c cs =>
    rw [hb] at hr
    refine ⟨⟨c, cs, rfl, ?_, ?_, ?_⟩, ?_, ?_⟩
    · have := hr c List.mem_cons_self
      exact hc.lower_alpha c this.1 this.2
    · have := hr c List.mem_cons_self
      simp [isLam, cBackslash, cLambda]; omega
    · intro d hd
      have := hr d (List.mem_cons_of_mem _ hd)
      exact hc.lower_alnum d this.1 this.2
    · intro d hd
      have := hr d hd
      simp [cDot]; omega
    · intro d hd
      have := hr d hd
      simp [cLambda]; omega

theorem wfName_varName (hc : ClsOk10 cls) (M d i : Nat) : WfName cls (varName M d i) := by
  unfold varName fname; split <;> exact wfName_base26 hc _

/-- the space and the closing parenthesis are not alphanumeric (`Cl.ClsOk`): they end a name -/
theorem nameEnd_space (hc : ClsOk10 cls) (s : List Nat) : NameEnd cls (32 :: s) :=
  .inl (C09C.ws_not_alnum hc.ok hc.space_ws)

theorem nameEnd_rparen (hc : ClsOk10 cls) (s : List Nat) : NameEnd cls (cRparen :: s) :=
  .inl (C09C.rparen_not_alnum hc.ok)

/-- LEXICAL LAYER: the printed string is a rendering of the token printing of the named term; a
name is always followed by the single space of an application, a closing parenthesis or the end -/
theorem renders_show (hc : ClsOk10 cls) (lam : Nat) (hl : isLam lam = true) (M : Nat) (t : Term)
    (h : noUD t = true) :
    ∀ (ctx d : Nat) (rest : List CToken) (s : List Nat), Renders cls rest s → NameEnd cls s →
      Renders cls (printN (nameOf M d t) ctx ++ rest) (showCla lam M t ctx d ++ s) := by
  induction t with
  | var i =>
    intro ctx d rest s hr hs
    have hi : i ≠ 0 := by simpa [noUD] using h
    rw [showCla_var _ _ _ _ _ hi]
    exact Renders.name (wfName_varName hc M d i) hs hr
  | abs b ih =>
    intro ctx d rest s hr hs
    have hb : noUD b = true := by simpa [noUD] using h
    by_cases hctx : ctx > 1
    · have := ih hb 0 (d + 1) (CRparen :: rest) (cRparen :: s) (.rparen hr)
        (nameEnd_rparen hc s)
      have := Renders.lparen (Renders.lam hl (wfName_base26 hc d) this)
      simpa [showCla, nameOf, printN, parenIf, parenC, hctx, cLparen, cRparen, cDot] using this
    · have := Renders.lam hl (wfName_base26 hc d) (ih hb 0 (d + 1) rest s hr hs)
      simpa [showCla, nameOf, printN, parenIf, parenC, hctx, cDot] using this
  | app l r ihl ihr =>
    intro ctx d rest s hr hs
    simp only [noUD, Bool.and_eq_true] at h
    have hsp : NameEnd cls (32 :: (showCla lam M r 3 d ++ s)) := nameEnd_space hc _
    by_cases hctx : ctx = 3
    · subst hctx
      have h2 := ihr h.2 3 d (CRparen :: rest) (cRparen :: s) (.rparen hr)
        (nameEnd_rparen hc s)
      have h1 := ihl h.1 2 d _ _ (Renders.ws hc.space_ws h2) (nameEnd_space hc _)
      have := Renders.lparen h1
      simpa [showCla, nameOf, printN, parenIf, parenC, cLparen, cRparen] using this
    · have h2 := ihr h.2 3 d rest s hr hs
      have h1 := ihl h.1 2 d _ _ (Renders.ws hc.space_ws h2) hsp
      have hb : (ctx == 3) = false := by simp [hctx]
      simpa [showCla, nameOf, printN, parenIf, parenC, hb] using h1

/-! ### name resolution of the printed names -/

theorem toDB_nvar (B F : List Name) (n : Name) :
    toDB B F (nvar n) =
      if n ∈ B then (var (B.idxOf n + 1), F)
      else (var (B.length + F.idxOf n + 1), addNew F n) := by
  unfold toDB
  rw [idxOf?_eq, idxOf?_eq]
  by_cases hB : n ∈ B
  · simp [hB]
  · by_cases hF : n ∈ F
    · simp [hB, hF, addNew]
    · simp [hB, hF, addNew, List.idxOf_eq_length hF]

/-- the binder names in scope under `d` binders, innermost first -/
def binders : Nat → List Name
  | 0 => []
  | d + 1 => base26 d :: binders d

theorem length_binders (d : Nat) : (binders d).length = d := by
  induction d with
  | zero => rfl
  | succ d ih => simp [binders, ih]

theorem mem_binders (d : Nat) (n : Name) : n ∈ binders d ↔ ∃ k, k < d ∧ n = base26 k := by
  induction d with
  | zero => simp [binders]
  | succ d ih =>
    rw [binders, List.mem_cons, ih]
    constructor
    · rintro (rfl | ⟨k, hk, rfl⟩)
      · exact ⟨d, by omega, rfl⟩
      · exact ⟨k, by omega, rfl⟩
    · rintro ⟨k, hk, rfl⟩
      by_cases e : k = d
      · subst e; exact Or.inl rfl
      · exact Or.inr ⟨k, by omega, rfl⟩

/-- binder names are distinct, so a bound name resolves to its own binder -/
theorem idxOf_binders (d k : Nat) (h : k < d) : (binders d).idxOf (base26 k) = d - 1 - k := by
  induction d with
  | zero => omega
  | succ d ih =>
    rw [binders, List.idxOf_cons]
    by_cases e : k = d
    · subst e; simp
    · have hne : (base26 d == base26 k) = false := by
        simp only [beq_eq_false_iff_ne, ne_eq]
        intro h'; exact e (base26_injective _ _ h').symm
      rw [hne, cond_false, ih (by omega)]; omega

theorem canonAux_pos (t : Term) (d : Nat) (seen : List Nat) (hs : ∀ j ∈ seen, 1 ≤ j) :
    ∀ j ∈ (canonAux d seen t).2, 1 ≤ j := by
  intro j hj
  rw [canonAux_snd, mem_addAll] at hj
  rcases hj with hj | hj
  · exact hs j hj
  · exact fvs_pos t d j hj

/-- NAME RESOLUTION LAYER: the standard translation of the printed named term is the canonical
renumbering.  `M` is the number of names reserved for binders: every binder of `t` is introduced
at a depth `< M`, so the free names (`base26 (M + j - 1)`, `j ≥ 1`) never collide with a binder
name. -/
theorem toDB_nameOf (M : Nat) (t : Term) (h : noUD t = true) :
    ∀ d seen, d + t.maxDepth ≤ M → (∀ j ∈ seen, 1 ≤ j) →
      toDB (binders d) (seen.map (fname M)) (nameOf M d t) =
        ((canonAux d seen t).1, (canonAux d seen t).2.map (fname M)) := by
  induction t with
  | var i =>
    intro d seen hM hs
    have hi : i ≠ 0 := by simpa [noUD] using h
    simp only [maxDepth, Nat.add_zero] at hM
    rw [nameOf, toDB_nvar, canonAux_var, varName]
    by_cases hid : i ≤ d
    · have hm : base26 (d - i) ∈ binders d := (mem_binders d _).2 ⟨d - i, by omega, rfl⟩
      rw [if_pos hid, if_pos hid, if_pos hm, idxOf_binders d (d - i) (by omega)]
      congr 2; omega
    · have hm : ¬ fname M (i - d) ∈ binders d := by
        rw [mem_binders]
        rintro ⟨k, hk, e⟩
        have := base26_injective _ _ e
        omega
      have hinj : ∀ x ∈ seen, fname M x = fname M (i - d) → x = i - d := by
        intro x hx e
        have := base26_injective _ _ e
        have := hs x hx
        omega
      rw [if_neg hid, if_neg hid, if_neg hm, length_binders, idxOf_map _ _ _ hinj,
        map_addNew _ _ _ hinj]
  | abs b ih =>
    intro d seen hM hs
    have hb : noUD b = true := by simpa [noUD] using h
    simp only [maxDepth] at hM
    have := ih hb (d + 1) seen (by omega) hs
    rw [binders] at this
    simp only [nameOf, toDB, this, canonAux_abs]
  | app l r ihl ihr =>
    intro d seen hM hs
    simp only [noUD, Bool.and_eq_true] at h
    simp only [maxDepth] at hM
    have h1 := ihl h.1 d seen (by omega) hs
    have h2 := ihr h.2 d (canonAux d seen l).2 (by omega) (canonAux_pos l d seen hs)
    simp only [nameOf, toDB, h1, h2, canonAux_app]

theorem toDeBruijn_nameOf (t : Term) (h : noUD t = true) :
    toDeBruijn (nameOf t.maxDepth 0 t) = canon t := by
  have := toDB_nameOf t.maxDepth t h 0 [] (by omega) (by simp)
  simp only [binders, List.map_nil] at this
  rw [toDeBruijn, this, canon]

theorem noUD_of_closed (t : Term) : ∀ d, hasFreeVariablesHelper d t = false → noUD t = true := by
  induction t with
  | var i =>
    intro d h
    simp only [hasFreeVariablesHelper, Bool.or_eq_false_iff, beq_eq_false_iff_ne] at h
    simp [noUD, h.2]
  | abs b ih => intro d h; exact ih _ h
  | app l r ihl ihr =>
    intro d h
    simp only [hasFreeVariablesHelper, Bool.or_eq_false_iff] at h
    simp [noUD, ihl _ h.1, ihr _ h.2]

end C10

open C10

/-- THE ROUND TRIP: parsing the Display output of a `UD`-free term in Classic notation yields the
term with its free variables renumbered in order of first appearance -/
theorem C10_roundtrip (cls : CharCls) (hc : C10.ClsOk10 cls) (lam : Nat)
    (hl : lam = 955 ∨ lam = 92) (t : Term) (h : noUD t = true) :
    parse cls (display lam t) .Classic = .ok (canon t) := by
  have hlam : isLam lam = true := by rcases hl with rfl | rfl <;> decide
  have hr := renders_show hc lam hlam t.maxDepth t h 0 0 [] [] .nil trivial
  simp only [List.append_nil] at hr
  rw [display, parse_cla_print cls hc.ok (nameOf t.maxDepth 0 t) 0 _ hr, toDeBruijn_nameOf t h]

/-- closed terms: parsing the Display output yields exactly the term -/
theorem C10_roundtrip_closed (cls : CharCls) (hc : C10.ClsOk10 cls) (lam : Nat)
    (hl : lam = 955 ∨ lam = 92) (t : Term) (h : hasFreeVariables t = false) :
    parse cls (display lam t) .Classic = .ok t := by
  rw [C10_roundtrip cls hc lam hl t (noUD_of_closed t 0 h), C10_closed t h]

/-! ## 5. consequences: the notation is unambiguous -/

namespace C10

/-- `freeVars` lists exactly the free variables in the sense of `Spec.FreeIn` -/
theorem mem_fvs_iff (t : Term) : ∀ d j, j ∈ fvs d t ↔ 1 ≤ j ∧ Spec.freeInAux d j t = true := by
  induction t with
  | var i =>
    intro d j
    by_cases h : i ≤ d <;> simp [fvs, Spec.freeInAux, h] <;> omega
  | abs b ih => intro d j; rw [fvs, Spec.freeInAux, ih]
  | app l r ihl ihr =>
    intro d j
    rw [fvs, Spec.freeInAux, List.mem_append, ihl, ihr, Bool.or_eq_true]
    constructor
    · rintro (⟨h1, h2⟩ | ⟨h1, h2⟩)
      · exact ⟨h1, Or.inl h2⟩
      · exact ⟨h1, Or.inr h2⟩
    · rintro ⟨h1, h2 | h2⟩
      · exact Or.inl ⟨h1, h2⟩
      · exact Or.inr ⟨h1, h2⟩

theorem mem_freeVars_iff (t : Term) (j : Nat) : j ∈ freeVars t ↔ Spec.FreeIn j t :=
  mem_fvs_iff t 0 j

end C10

/-! ### non-vacuity: a concrete classification, concrete terms -/

namespace C10.Examples
open C09C.Examples

theorem asciiCls_ok10 : ClsOk10 asciiCls where
  lower_alpha := by intro c h1 h2; simp [asciiCls, h1, h2]
  lower_alnum := by intro c h1 h2; simp [asciiCls, h1, h2]
  lower_not_ws := by intro c h1 h2; simp [asciiCls]; omega
  space_ws := by decide
  ok := asciiCls_ok

end C10.Examples

open C10.Examples C09C.Examples in
/-- UNAMBIGUOUS: two `UD`-free terms with the same Display output are equal up to the numbering of
their free variables … -/
theorem C10_display_injective (lam : Nat) (hl : lam = 955 ∨ lam = 92) (t u : Term)
    (ht : noUD t = true) (hu : noUD u = true) (h : display lam t = display lam u) :
    canon t = canon u := by
  have h1 := C10_roundtrip asciiCls asciiCls_ok10 lam hl t ht
  have h2 := C10_roundtrip asciiCls asciiCls_ok10 lam hl u hu
  rw [h, h2] at h1
  exact (Outcome.ok.inj h1).symm

/-- … and two closed terms with the same Display output are equal -/
theorem C10_display_injective_closed (lam : Nat) (hl : lam = 955 ∨ lam = 92) (t u : Term)
    (ht : hasFreeVariables t = false) (hu : hasFreeVariables u = false)
    (h : display lam t = display lam u) : t = u := by
  have := C10_display_injective lam hl t u (noUD_of_closed t 0 ht) (noUD_of_closed u 0 hu) h
  rwa [C10_closed t ht, C10_closed u hu] at this

namespace C10.Examples
open C09C.Examples

-- code points: `λ` 955, `\` 92, `(` 40, `)` 41, `.` 46, space 32, `a` 97, `b` 98, `c` 99, `e` 101

/-- a closed term, `λa.λb.a (λc.c b) a`, both glyphs -/
example : display 955 (abs (abs (app (app (var 2) (abs (app (var 1) (var 2)))) (var 2))))
    = [955, 97, 46, 955, 98, 46, 97, 32, 40, 955, 99, 46, 99, 32, 98, 41, 32, 97] := by
  decide +kernel

example : display 92 (abs (abs (app (app (var 2) (abs (app (var 1) (var 2)))) (var 2))))
    = [92, 97, 46, 92, 98, 46, 97, 32, 40, 92, 99, 46, 99, 32, 98, 41, 32, 97] := by
  decide +kernel

example : parse asciiCls
      (display 955 (abs (abs (app (app (var 2) (abs (app (var 1) (var 2)))) (var 2))))) .Classic
    = .ok (abs (abs (app (app (var 2) (abs (app (var 1) (var 2)))) (var 2)))) :=
  C10_roundtrip_closed asciiCls asciiCls_ok10 955 (Or.inl rfl) _ (by decide)

example : parse asciiCls
      (display 92 (abs (abs (app (app (var 2) (abs (app (var 1) (var 2)))) (var 2))))) .Classic
    = .ok (abs (abs (app (app (var 2) (abs (app (var 1) (var 2)))) (var 2)))) :=
  C10_roundtrip_closed asciiCls asciiCls_ok10 92 (Or.inr rfl) _ (by decide)

/-- an open term whose free variables get renumbered: `λ 5 3` is printed `λa.e c` (one binder
name reserved, the free variables number 4 and 2 are named `e` and `c`) and parsed back as
`λ 2 3` -/
example : display 955 (abs (app (var 5) (var 3))) = [955, 97, 46, 101, 32, 99] := by
  decide +kernel

example : canon (abs (app (var 5) (var 3))) = abs (app (var 2) (var 3)) := by decide +kernel

example : parse asciiCls (display 955 (abs (app (var 5) (var 3)))) .Classic
    = .ok (abs (app (var 2) (var 3))) :=
  (C10_roundtrip asciiCls asciiCls_ok10 955 (Or.inl rfl) _ (by decide)).trans
    (congrArg Outcome.ok (by decide +kernel))

/-- the same free variable met twice, at different depths, gets one number: `3 (λ 4 1 2)` ↦
`1 (λ 2 1 3)` -/
example : canon (app (var 3) (abs (app (app (var 4) (var 1)) (var 2))))
    = app (var 1) (abs (app (app (var 2) (var 1)) (var 3))) := by decide +kernel

/-- already canonical open terms are fixed points -/
example : canon (app (var 1) (abs (app (var 2) (var 3)))) = app (var 1) (abs (app (var 2) (var 3))) := by
  decide +kernel

/-- `UD` is excluded for a reason: it is printed as the NAME `undefined`, which parses back as a
free variable -/
example : parse asciiCls (display 955 (var 0)) .Classic = .ok (var 1) := by
  have wf : Spec.Cl.WfName asciiCls [117, 110, 100, 101, 102, 105, 110, 101, 100] :=
    ⟨⟨117, [110, 100, 101, 102, 105, 110, 101, 100], rfl, by decide, by decide, by decide⟩,
      by decide, by decide⟩
  have hd : display 955 (var 0) = [117, 110, 100, 101, 102, 105, 110, 101, 100] := by
    decide +kernel
  rw [hd]
  exact parse_cla_print asciiCls asciiCls_ok
    (.nvar [117, 110, 100, 101, 102, 105, 110, 101, 100]) 0 _
    (.name (n := [117, 110, 100, 101, 102, 105, 110, 101, 100]) wf trivial .nil)

end C10.Examples

end LC
