/-
C16 — List operations agree with sequence semantics in all four list encodings

"List operations agree with sequence semantics in all four list encodings: For all short lists of
numerals, nil/cons/head/tail/is_nil of the pair, Church, Scott and Parigot list modules behave as
constructors and observers of sequences (is_nil is TRUE exactly on the empty list, head and tail of
a cons return its parts - also for arbitrary, non-numeral element and tail terms), and the list
conversions produce exactly what repeated cons produces. Every pair-list library function (length,
index, reverse, list, append, map, foldl, foldr, filter, last, init, zip, zip_with, take,
take_while, drop, drop_while, replicate) normalises to the encoding of the result of the
corresponding operation on native vectors, under NOR, HNO and HAP."

Three layers, as in C13/C14 (see LC/Props/C13.lean).  `Computes t n` (Proofs/Layer2.lean) packages,
for ALL arguments (lists of ANY length — the property's "short" is only needed for layer 3):
  conv   : t ↠ n                      (layer 1: by induction, Proofs/List/{Basic,PairLibA,PairLibB}.lean)
  normal : n is a β-normal form
  nor/hno: reduce NOR / HNO with limit 0 return exactly n for some fuel, i.e. they TERMINATE (C07)
  any    : whenever reduce under NOR, HNO, APP or HAP with limit 0 returns at all, it returns n (C06)
Layer 3 — HAP terminates with the right result — is proved UNBOUNDED (lists of any length) in LC/Props/C16.lean, which
imports this file (the eager proofs use the helper lemmas below).  The finite grids of §C here (kernel evaluation of the
verified model reducer on short lists) are kept only as an independent cross-check of those theorems.

§A  constructors/observers of the four encodings: laws for ARBITRARY (open, non-numeral) payload
    terms, observers on the `Vec` conversions, conversions = repeated cons.
§B  the pair-list library on lists of Church numerals `cl ns = pairList (ns.map intoChurch)` (what
    the Rust `vec![..].into_pair_list()` of numerals builds), the higher-order functions for ANY
    closed function term whose action on numerals is known (+ the concrete instances), and the
    general layer-1 forms for arbitrary closed element terms (`C16_*_terms`).
§C  HAP cross-check grids (the unbounded HAP theorems are in C16.lean).
§D  non-vacuity examples.
The operations are the GENERATED constants `Gen.PList/CList/SList/GList.*`, re-extracted from the
Rust source on every run, mentioned by name only.
-/
import LC.Proofs.Layer2
import LC.Proofs.Grid
import LC.Proofs.List.Basic
import LC.Proofs.List.PairLibA
import LC.Proofs.List.PairLibB
import LC.Proofs.Num.ChurchA
import LC.Props.C12
import LC.Props.C13

namespace LC
open Term Spec Enc

/-! ## A. constructors and observers, four encodings -/

/-! ### A.1 laws for ARBITRARY payload terms `a x` (open or closed, numeral or not) -/

theorem C16_head_cons_pair (a x : Term) : app Gen.PList.head (app2 Gen.PList.cons a x) ↠ a :=
  head_cons_pair a x
theorem C16_head_cons_scott (a x : Term) : app Gen.SList.head (app2 Gen.SList.cons a x) ↠ a :=
  head_cons_scott a x
theorem C16_head_cons_parigot (a x : Term) : app Gen.GList.head (app2 Gen.GList.cons a x) ↠ a :=
  head_cons_parigot a x
/-- also for the fold-encoded list the head law holds for an ARBITRARY tail term -/
theorem C16_head_cons_church (a x : Term) : app Gen.CList.head (app2 Gen.CList.cons a x) ↠ a :=
  head_cons_church_any a x

theorem C16_tail_cons_pair (a x : Term) : app Gen.PList.tail (app2 Gen.PList.cons a x) ↠ x :=
  tail_cons_pair a x
theorem C16_tail_cons_scott (a x : Term) : app Gen.SList.tail (app2 Gen.SList.cons a x) ↠ x :=
  tail_cons_scott a x
theorem C16_tail_cons_parigot (a x : Term) : app Gen.GList.tail (app2 Gen.GList.cons a x) ↠ x :=
  tail_cons_parigot a x

/-- Church (fold) list: `TAIL` rebuilds the tail by FOLDING the list, so `tail (cons a x) ↠ x` can only
hold when `x` is itself a list; here: the conversion of any `Vec` of closed terms.  For a non-list `x` the
law is refuted below (`C16_tail_cons_church_needs_list`). -/
theorem C16_tail_cons_church (a : Term) (ts : List Term) (ha : Closed a) (h : ∀ t ∈ ts, Closed t) :
    app Gen.CList.tail (app2 Gen.CList.cons a (churchList ts)) ↠ churchList ts :=
  tail_cons_church a ts ha h

/-- for a FOLD-encoded list `tail (cons a x) ↠ x` cannot hold for a non-list `x`: it fails for the open
term `x := var 7` and for the closed normal term `x := I` -/
theorem C16_tail_cons_church_needs_list :
    (¬ app Gen.CList.tail (app2 Gen.CList.cons (var 1) (var 7)) ↠ var 7) ∧
    (¬ app Gen.CList.tail (app2 Gen.CList.cons (var 1) Gen.Comb.I) ↠ Gen.Comb.I) :=
  ⟨tail_cons_church_fails_open, tail_cons_church_fails_closed⟩

theorem C16_is_nil_nil_pair : app Gen.PList.is_nil Gen.PList.nil ↠ fromBool true := is_nil_nil_pair
theorem C16_is_nil_nil_church : app Gen.CList.is_nil Gen.CList.nil ↠ fromBool true := is_nil_nil_church
theorem C16_is_nil_nil_scott : app Gen.SList.is_nil Gen.SList.nil ↠ fromBool true := is_nil_nil_scott
theorem C16_is_nil_nil_parigot : app Gen.GList.is_nil Gen.GList.nil ↠ fromBool true := is_nil_nil_parigot

theorem C16_is_nil_cons_pair (a x : Term) :
    app Gen.PList.is_nil (app2 Gen.PList.cons a x) ↠ fromBool false := is_nil_cons_pair a x
theorem C16_is_nil_cons_church (a x : Term) :
    app Gen.CList.is_nil (app2 Gen.CList.cons a x) ↠ fromBool false := is_nil_cons_church a x
theorem C16_is_nil_cons_scott (a x : Term) :
    app Gen.SList.is_nil (app2 Gen.SList.cons a x) ↠ fromBool false := is_nil_cons_scott a x
theorem C16_is_nil_cons_parigot (a x : Term) :
    app Gen.GList.is_nil (app2 Gen.GList.cons a x) ↠ fromBool false := is_nil_cons_parigot a x

/-! ### A.2 observers on the `Vec` conversions (lists of closed terms, any length) -/

theorem C16_head_pairList (t : Term) (ts : List Term) (ht : Closed t) (hts : ∀ u ∈ ts, Closed u) :
    app Gen.PList.head (pairList (t :: ts)) ↠ t := head_pairList t ts ht hts
theorem C16_tail_pairList (t : Term) (ts : List Term) (ht : Closed t) (hts : ∀ u ∈ ts, Closed u) :
    app Gen.PList.tail (pairList (t :: ts)) ↠ pairList ts := tail_pairList t ts ht hts
theorem C16_is_nil_pairList (ts : List Term) (h : ∀ t ∈ ts, Closed t) :
    app Gen.PList.is_nil (pairList ts) ↠ fromBool ts.isEmpty := is_nil_pairList ts h

theorem C16_head_churchList (t : Term) (ts : List Term) (ht : Closed t) (hts : ∀ u ∈ ts, Closed u) :
    app Gen.CList.head (churchList (t :: ts)) ↠ t := head_churchList t ts ht hts
theorem C16_tail_churchList (t : Term) (ts : List Term) (ht : Closed t) (hts : ∀ u ∈ ts, Closed u) :
    app Gen.CList.tail (churchList (t :: ts)) ↠ churchList ts := tail_churchList t ts ht hts
theorem C16_is_nil_churchList (ts : List Term) (h : ∀ t ∈ ts, Closed t) :
    app Gen.CList.is_nil (churchList ts) ↠ fromBool ts.isEmpty := is_nil_churchList ts h

theorem C16_head_scottList (t : Term) (ts : List Term) (ht : Closed t) (hts : ∀ u ∈ ts, Closed u) :
    app Gen.SList.head (scottList (t :: ts)) ↠ t := head_scottList t ts ht hts
theorem C16_tail_scottList (t : Term) (ts : List Term) (ht : Closed t) (hts : ∀ u ∈ ts, Closed u) :
    app Gen.SList.tail (scottList (t :: ts)) ↠ scottList ts := tail_scottList t ts ht hts
theorem C16_is_nil_scottList (ts : List Term) (h : ∀ t ∈ ts, Closed t) :
    app Gen.SList.is_nil (scottList ts) ↠ fromBool ts.isEmpty := is_nil_scottList ts h

theorem C16_head_parigotList (t : Term) (ts : List Term) (ht : Closed t) (hts : ∀ u ∈ ts, Closed u) :
    app Gen.GList.head (parigotList (t :: ts)) ↠ t := head_parigotList t ts ht hts
theorem C16_tail_parigotList (t : Term) (ts : List Term) (ht : Closed t) (hts : ∀ u ∈ ts, Closed u) :
    app Gen.GList.tail (parigotList (t :: ts)) ↠ parigotList ts := tail_parigotList t ts ht hts
theorem C16_is_nil_parigotList (ts : List Term) (h : ∀ t ∈ ts, Closed t) :
    app Gen.GList.is_nil (parigotList ts) ↠ fromBool ts.isEmpty := is_nil_parigotList ts h

namespace C16

theorem normal_fromBool (b : Bool) : isNormal (fromBool b) = true := C13.normal_fromBool b

theorem closed_tail {t : Term} {ts : List Term} (h : ∀ u ∈ t :: ts, Closed u) : ∀ u ∈ ts, Closed u :=
  fun u hu => h u (List.mem_cons_of_mem _ hu)
theorem normal_tail {t : Term} {ts : List Term} (h : ∀ u ∈ t :: ts, isNormal u = true) :
    ∀ u ∈ ts, isNormal u = true :=
  fun u hu => h u (List.mem_cons_of_mem _ hu)

/-- the three observers of one list encoding, lifted to the reducer, on the conversion `conv` of ANY list of closed
normal terms (in particular: numerals of any encoding) -/
structure ObserversCompute (head tail isNil : Term) (conv : List Term → Term) : Prop where
  head : ∀ (t : Term) (ts : List Term), (∀ u ∈ t :: ts, Closed u) → (∀ u ∈ t :: ts, isNormal u = true) →
    Computes (app head (conv (t :: ts))) t
  tail : ∀ (t : Term) (ts : List Term), (∀ u ∈ t :: ts, Closed u) → (∀ u ∈ t :: ts, isNormal u = true) →
    Computes (app tail (conv (t :: ts))) (conv ts)
  is_nil : ∀ ts : List Term, (∀ u ∈ ts, Closed u) → Computes (app isNil (conv ts)) (fromBool ts.isEmpty)

end C16
open C16

/-- layers 1+2 for the observers, pair list -/
theorem C16_observers_pair : ObserversCompute Gen.PList.head Gen.PList.tail Gen.PList.is_nil pairList where
  head t ts hc hn := computes_of_star (head_pairList t ts (hc t (by simp)) (closed_tail hc)) (hn t (by simp))
  tail t ts hc hn := computes_of_star (tail_pairList t ts (hc t (by simp)) (closed_tail hc))
    (normal_pairList ts (normal_tail hn))
  is_nil ts hc := computes_of_star (is_nil_pairList ts hc) (normal_fromBool _)

/-- layers 1+2 for the observers, Church (fold) list -/
theorem C16_observers_church : ObserversCompute Gen.CList.head Gen.CList.tail Gen.CList.is_nil churchList where
  head t ts hc hn := computes_of_star (head_churchList t ts (hc t (by simp)) (closed_tail hc)) (hn t (by simp))
  tail t ts hc hn := computes_of_star (tail_churchList t ts (hc t (by simp)) (closed_tail hc))
    (normal_churchList ts (normal_tail hn))
  is_nil ts hc := computes_of_star (is_nil_churchList ts hc) (normal_fromBool _)

/-- layers 1+2 for the observers, Scott list -/
theorem C16_observers_scott : ObserversCompute Gen.SList.head Gen.SList.tail Gen.SList.is_nil scottList where
  head t ts hc hn := computes_of_star (head_scottList t ts (hc t (by simp)) (closed_tail hc)) (hn t (by simp))
  tail t ts hc hn := computes_of_star (tail_scottList t ts (hc t (by simp)) (closed_tail hc))
    (normal_scottList ts (normal_tail hn))
  is_nil ts hc := computes_of_star (is_nil_scottList ts hc) (normal_fromBool _)

/-- layers 1+2 for the observers, Parigot list -/
theorem C16_observers_parigot :
    ObserversCompute Gen.GList.head Gen.GList.tail Gen.GList.is_nil parigotList where
  head t ts hc hn := computes_of_star (head_parigotList t ts (hc t (by simp)) (closed_tail hc)) (hn t (by simp))
  tail t ts hc hn := computes_of_star (tail_parigotList t ts (hc t (by simp)) (closed_tail hc))
    (normal_parigotList ts (normal_tail hn))
  is_nil ts hc := computes_of_star (is_nil_parigotList ts hc) (normal_fromBool _)

/-! ### A.3 the conversions produce exactly what repeated `cons` produces -/

theorem C16_conv_is_cons_pair (ts : List Term) (h : ∀ t ∈ ts, Closed t) :
    ts.foldr (fun t acc => app2 Gen.PList.cons t acc) Gen.PList.nil ↠ pairList ts := conv_is_cons_pair ts h
theorem C16_conv_is_cons_church (ts : List Term) (h : ∀ t ∈ ts, Closed t) :
    ts.foldr (fun t acc => app2 Gen.CList.cons t acc) Gen.CList.nil ↠ churchList ts := conv_is_cons_church ts h
theorem C16_conv_is_cons_scott (ts : List Term) (h : ∀ t ∈ ts, Closed t) :
    ts.foldr (fun t acc => app2 Gen.SList.cons t acc) Gen.SList.nil ↠ scottList ts := conv_is_cons_scott ts h
theorem C16_conv_is_cons_parigot (ts : List Term) (h : ∀ t ∈ ts, Closed t) :
    ts.foldr (fun t acc => app2 Gen.GList.cons t acc) Gen.GList.nil ↠ parigotList ts :=
  conv_is_cons_parigot ts h

/-- with closed NORMAL elements (e.g. numerals) the conversion's result is THE normal form of the repeated cons, and
NOR/HNO return it -/
theorem C16_conv_computes_pair (ts : List Term) (h : ∀ t ∈ ts, Closed t) (hn : ∀ t ∈ ts, isNormal t = true) :
    Computes (ts.foldr (fun t acc => app2 Gen.PList.cons t acc) Gen.PList.nil) (pairList ts) :=
  computes_of_star (conv_is_cons_pair ts h) (normal_pairList ts hn)
theorem C16_conv_computes_church (ts : List Term) (h : ∀ t ∈ ts, Closed t) (hn : ∀ t ∈ ts, isNormal t = true) :
    Computes (ts.foldr (fun t acc => app2 Gen.CList.cons t acc) Gen.CList.nil) (churchList ts) :=
  computes_of_star (conv_is_cons_church ts h) (normal_churchList ts hn)
theorem C16_conv_computes_scott (ts : List Term) (h : ∀ t ∈ ts, Closed t) (hn : ∀ t ∈ ts, isNormal t = true) :
    Computes (ts.foldr (fun t acc => app2 Gen.SList.cons t acc) Gen.SList.nil) (scottList ts) :=
  computes_of_star (conv_is_cons_scott ts h) (normal_scottList ts hn)
theorem C16_conv_computes_parigot (ts : List Term) (h : ∀ t ∈ ts, Closed t) (hn : ∀ t ∈ ts, isNormal t = true) :
    Computes (ts.foldr (fun t acc => app2 Gen.GList.cons t acc) Gen.GList.nil) (parigotList ts) :=
  computes_of_star (conv_is_cons_parigot ts h) (normal_parigotList ts hn)

/-! ## B. the pair-list library: layers 1 and 2, for ALL lists -/

namespace C16

/-- the pair list of the Church numerals of `ns` — the Rust `vec![n₁.into_church(), …].into_pair_list()` -/
abbrev cl (ns : List Nat) : Term := pairList (ns.map intoChurch)

theorem closed_map {α : Type} {f : α → Term} (hf : ∀ a, Closed (f a)) (l : List α) : ∀ t ∈ l.map f, Closed t := by
  intro t ht
  obtain ⟨a, _, rfl⟩ := List.mem_map.1 ht
  exact hf a
theorem normal_map {α : Type} {f : α → Term} (hf : ∀ a, isNormal (f a) = true) (l : List α) :
    ∀ t ∈ l.map f, isNormal t = true := by
  intro t ht
  obtain ⟨a, _, rfl⟩ := List.mem_map.1 ht
  exact hf a

theorem closed_nums (ns : List Nat) : ∀ t ∈ ns.map intoChurch, Closed t := closed_map closed_intoChurch ns
theorem normal_nums (ns : List Nat) : ∀ t ∈ ns.map intoChurch, isNormal t = true :=
  normal_map normal_intoChurch ns
theorem normal_cl (ns : List Nat) : isNormal (cl ns) = true := normal_pairList _ (normal_nums ns)
theorem closed_cl (ns : List Nat) : Closed (cl ns) := closed_pairList (closed_nums ns)

/-- congruence: pointwise reduction of the elements lifts to the pair list -/
theorem pairList_congr {α : Type} (f g : α → Term) (l : List α) (h : ∀ a ∈ l, f a ↠ g a) :
    pairList (l.map f) ↠ pairList (l.map g) := by
  induction l with
  | nil => exact Star.refl _
  | cons a l ih =>
    show tuple2 (f a) (pairList (l.map f)) ↠ tuple2 (g a) (pairList (l.map g))
    exact PairLibA.tuple_cong (h a (by simp)) (ih (fun b hb => h b (List.mem_cons_of_mem _ hb)))

/-- the index form of the congruence -/
theorem pairList_congr_idx (xs ys : List Term) (hl : xs.length = ys.length)
    (hi : ∀ i (h1 : i < xs.length) (h2 : i < ys.length), xs[i] ↠ ys[i]) : pairList xs ↠ pairList ys := by
  induction xs generalizing ys with
  | nil =>
    cases ys with
    | nil => exact Star.refl _
    | cons y ys => cases hl
  | cons x xs ih =>
    cases ys with
    | nil => cases hl
    | cons y ys =>
      show tuple2 x (pairList xs) ↠ tuple2 y (pairList ys)
      refine PairLibA.tuple_cong (hi 0 (by simp) (by simp)) (ih ys (by simpa using hl) ?_)
      intro i h1 h2
      have := hi (i + 1) (by simp; omega) (by simp; omega)
      simpa using this

theorem foldl_start_star (f : Term) {s s' : Term} (h : s ↠ s') (xs : List Term) :
    xs.foldl (fun acc x => app2 f acc x) s ↠ xs.foldl (fun acc x => app2 f acc x) s' := by
  induction xs generalizing s s' with
  | nil => exact h
  | cons x xs ih => exact ih (Star.congAppL _ (Star.congAppR _ h))

/-- a left fold of numerals with a term `f` acting as `op` -/
theorem foldl_nums (f : Term) (op : Nat → Nat → Nat)
    (hop : ∀ a b, app2 f (intoChurch a) (intoChurch b) ↠ intoChurch (op a b)) (s : Nat) (ns : List Nat) :
    (ns.map intoChurch).foldl (fun acc x => app2 f acc x) (intoChurch s) ↠ intoChurch (ns.foldl op s) := by
  induction ns generalizing s with
  | nil => exact Star.refl _
  | cons n ns ih =>
    simp only [List.map_cons, List.foldl_cons]
    exact (foldl_start_star f (hop s n) _).trans (ih (op s n))

/-- a right fold of numerals with a term `f` acting as `op` -/
theorem foldr_nums (f : Term) (op : Nat → Nat → Nat)
    (hop : ∀ a b, app2 f (intoChurch a) (intoChurch b) ↠ intoChurch (op a b)) (a : Nat) (ns : List Nat) :
    (ns.map intoChurch).foldr (fun x acc => app2 f x acc) (intoChurch a) ↠ intoChurch (ns.foldr op a) := by
  induction ns with
  | nil => exact Star.refl _
  | cons n ns ih =>
    simp only [List.map_cons, List.foldr_cons]
    exact (Star.congAppR _ ih).trans (hop n _)

/-- a predicate on numbers, transported to terms through the Church decoder (junk value on non-numerals) -/
def keepT (keep : Nat → Bool) (t : Term) : Bool :=
  match Dec.decodeChurch t with
  | some n => keep n
  | none => false

theorem keepT_num (keep : Nat → Bool) : keepT keep ∘ intoChurch = keep := by
  funext n; simp [keepT, C12.church_decode]

theorem keepT_spec (p : Term) (keep : Nat → Bool) (hk : ∀ n, app p (intoChurch n) ↠ fromBool (keep n))
    (ns : List Nat) : ∀ x ∈ ns.map intoChurch, app p x ↠ fromBool (keepT keep x) := by
  intro x hx
  obtain ⟨n, _, rfl⟩ := List.mem_map.1 hx
  have : keepT keep (intoChurch n) = keep n := congrFun (keepT_num keep) n
  rw [this]; exact hk n

theorem normal_tuple2_nums (l : List (Nat × Nat)) :
    isNormal (pairList (l.map (fun p => tuple2 (intoChurch p.1) (intoChurch p.2)))) = true :=
  normal_pairList _ (normal_map (fun _ => C13.normal_tuple2 (normal_intoChurch _) (normal_intoChurch _)) l)

end C16
open C16

/-! ### B.1 first-order functions on lists of Church numerals -/

theorem C16_length (ns : List Nat) : Computes (app Gen.PList.length (cl ns)) (intoChurch ns.length) := by
  have h := plist_length_correct _ (closed_nums ns)
  rw [List.length_map] at h
  exact computes_of_star h (normal_intoChurch _)

theorem C16_index (ns : List Nat) (i : Nat) (h : i < ns.length) :
    Computes (app2 Gen.PList.index (intoChurch i) (cl ns)) (intoChurch ns[i]) := by
  have h' := plist_index_correct _ (closed_nums ns) i (by simpa using h)
  rw [List.getElem_map] at h'
  exact computes_of_star h' (normal_intoChurch _)

theorem C16_reverse (ns : List Nat) : Computes (app Gen.PList.reverse (cl ns)) (cl ns.reverse) := by
  have h := plist_reverse_correct _ (closed_nums ns)
  rw [← List.map_reverse] at h
  exact computes_of_star h (normal_cl _)

/-- `LIST n x₁ … xₙ` (the count `n` first, then the `n` elements as further arguments) builds the list -/
theorem C16_list (ns : List Nat) :
    Computes ((ns.map intoChurch).foldl (fun acc x => app acc x) (app Gen.PList.list (intoChurch ns.length)))
      (cl ns) := by
  have h := plist_list_correct plist_reverse_correct _ (closed_nums ns)
  rw [List.length_map] at h
  exact computes_of_star h (normal_cl _)

theorem C16_append (ms ns : List Nat) :
    Computes (app2 Gen.PList.append (cl ms) (cl ns)) (cl (ms ++ ns)) := by
  have h := plist_append_correct _ _ (closed_nums ms) (closed_nums ns)
  rw [← List.map_append] at h
  exact computes_of_star h (normal_cl _)

theorem C16_last (ns : List Nat) (h : ns ≠ []) :
    Computes (app Gen.PList.last (cl ns)) (intoChurch (ns.getLast h)) := by
  have h' := plist_last_correct _ (closed_nums ns) (by simpa using h)
  rw [List.getLast_map] at h'
  exact computes_of_star h' (normal_intoChurch _)

theorem C16_init (ns : List Nat) (h : ns ≠ []) : Computes (app Gen.PList.init (cl ns)) (cl ns.dropLast) := by
  have h' := plist_init_correct _ (closed_nums ns) (by simpa using h)
  rw [← List.map_dropLast] at h'
  exact computes_of_star h' (normal_cl _)

/-- `init` is also defined on the empty list (and gives the empty list, like `Vec`-`dropLast`); `last` of the empty
list gives `NIL`, which is not a numeral — hence the premise of `C16_last` -/
theorem C16_init_nil : Computes (app Gen.PList.init (cl [])) (cl []) :=
  computes_of_star plist_init_nil (normal_cl _)
theorem C16_last_nil : Computes (app Gen.PList.last (cl [])) (cl []) :=
  computes_of_star plist_last_nil (normal_cl _)

theorem C16_zip (ms ns : List Nat) :
    Computes (app2 Gen.PList.zip (cl ms) (cl ns))
      (pairList ((ms.zip ns).map (fun p => tuple2 (intoChurch p.1) (intoChurch p.2)))) := by
  have h := plist_zip_correct _ _ (closed_nums ms) (closed_nums ns)
  rw [List.zip_map, List.map_map] at h
  exact computes_of_star h (normal_tuple2_nums _)

theorem C16_take (k : Nat) (ns : List Nat) :
    Computes (app2 Gen.PList.take (intoChurch k) (cl ns)) (cl (ns.take k)) := by
  have h := plist_take_correct k _ (closed_nums ns)
  rw [← List.map_take] at h
  exact computes_of_star h (normal_cl _)

theorem C16_drop (k : Nat) (ns : List Nat) :
    Computes (app2 Gen.PList.drop (intoChurch k) (cl ns)) (cl (ns.drop k)) := by
  have h := plist_drop_correct k _ (closed_nums ns)
  rw [← List.map_drop] at h
  exact computes_of_star h (normal_cl _)

theorem C16_replicate (k y : Nat) :
    Computes (app2 Gen.PList.replicate (intoChurch k) (intoChurch y)) (cl (List.replicate k y)) := by
  have h := plist_replicate_correct k _ (closed_intoChurch y)
  rw [← List.map_replicate] at h
  exact computes_of_star h (normal_cl _)

/-! ### B.2 higher-order functions, for ANY closed function term whose action on numerals is known -/

theorem C16_map (f : Term) (hf : Closed f) (g : Nat → Nat) (hg : ∀ n, app f (intoChurch n) ↠ intoChurch (g n))
    (ns : List Nat) : Computes (app2 Gen.PList.map f (cl ns)) (cl (ns.map g)) := by
  have h := plist_map_correct f hf _ (closed_nums ns)
  rw [List.map_map] at h
  have h2 := pairList_congr (app f ∘ intoChurch) (intoChurch ∘ g) ns (fun n _ => hg n)
  rw [← List.map_map (g := intoChurch) (f := g)] at h2
  exact computes_of_star (h.trans h2) (normal_cl _)

theorem C16_foldl (f : Term) (hf : Closed f) (op : Nat → Nat → Nat)
    (hop : ∀ a b, app2 f (intoChurch a) (intoChurch b) ↠ intoChurch (op a b)) (s : Nat) (ns : List Nat) :
    Computes (app3 Gen.PList.foldl f (intoChurch s) (cl ns)) (intoChurch (ns.foldl op s)) :=
  computes_of_star
    ((plist_foldl_correct f _ hf (closed_intoChurch s) _ (closed_nums ns)).trans (foldl_nums f op hop s ns))
    (normal_intoChurch _)

theorem C16_foldr (f : Term) (hf : Closed f) (op : Nat → Nat → Nat)
    (hop : ∀ a b, app2 f (intoChurch a) (intoChurch b) ↠ intoChurch (op a b)) (a : Nat) (ns : List Nat) :
    Computes (app3 Gen.PList.foldr f (intoChurch a) (cl ns)) (intoChurch (ns.foldr op a)) :=
  computes_of_star
    ((plist_foldr_correct f _ hf (closed_intoChurch a) _ (closed_nums ns)).trans (foldr_nums f op hop a ns))
    (normal_intoChurch _)

theorem C16_filter (p : Term) (hp : Closed p) (keep : Nat → Bool)
    (hk : ∀ n, app p (intoChurch n) ↠ fromBool (keep n)) (ns : List Nat) :
    Computes (app2 Gen.PList.filter p (cl ns)) (cl (ns.filter keep)) := by
  have h := plist_filter_correct p hp _ (closed_nums ns) (keepT keep) (keepT_spec p keep hk ns)
  rw [List.filter_map, keepT_num] at h
  exact computes_of_star h (normal_cl _)

theorem C16_take_while (p : Term) (hp : Closed p) (keep : Nat → Bool)
    (hk : ∀ n, app p (intoChurch n) ↠ fromBool (keep n)) (ns : List Nat) :
    Computes (app2 Gen.PList.take_while p (cl ns)) (cl (ns.takeWhile keep)) := by
  have h := plist_take_while_correct p hp _ (closed_nums ns) (keepT keep) (keepT_spec p keep hk ns)
  rw [List.takeWhile_map, keepT_num] at h
  exact computes_of_star h (normal_cl _)

theorem C16_drop_while (p : Term) (hp : Closed p) (keep : Nat → Bool)
    (hk : ∀ n, app p (intoChurch n) ↠ fromBool (keep n)) (ns : List Nat) :
    Computes (app2 Gen.PList.drop_while p (cl ns)) (cl (ns.dropWhile keep)) := by
  have h := plist_drop_while_correct p hp _ (closed_nums ns) (keepT keep) (keepT_spec p keep hk ns)
  rw [List.dropWhile_map, keepT_num] at h
  exact computes_of_star h (normal_cl _)

theorem C16_zip_with (f : Term) (hf : Closed f) (op : Nat → Nat → Nat)
    (hop : ∀ a b, app2 f (intoChurch a) (intoChurch b) ↠ intoChurch (op a b)) (ms ns : List Nat) :
    Computes (app3 Gen.PList.zip_with f (cl ms) (cl ns)) (cl ((ms.zip ns).map (fun p => op p.1 p.2))) := by
  have h := plist_zip_with_correct f hf _ _ (closed_nums ms) (closed_nums ns)
  rw [List.zip_map, List.map_map] at h
  have h2 := pairList_congr ((fun p : Term × Term => app2 f p.1 p.2) ∘ Prod.map intoChurch intoChurch)
    (intoChurch ∘ (fun p : Nat × Nat => op p.1 p.2)) (ms.zip ns) (fun p _ => hop p.1 p.2)
  rw [← List.map_map (g := intoChurch)] at h2
  exact computes_of_star (h.trans h2) (normal_cl _)

/-! ### B.3 the premises are satisfiable: concrete instances with the Church operations of C13 -/

theorem C16_map_succ (ns : List Nat) :
    Computes (app2 Gen.PList.map Gen.Church.succ (cl ns)) (cl (ns.map (· + 1))) :=
  C16_map Gen.Church.succ (by decide) (· + 1) church_succ_correct ns

theorem C16_foldl_add (s : Nat) (ns : List Nat) :
    Computes (app3 Gen.PList.foldl Gen.Church.add (intoChurch s) (cl ns)) (intoChurch (ns.foldl (· + ·) s)) :=
  C16_foldl Gen.Church.add (by decide) (· + ·) church_add_correct s ns

theorem C16_foldr_add (a : Nat) (ns : List Nat) :
    Computes (app3 Gen.PList.foldr Gen.Church.add (intoChurch a) (cl ns)) (intoChurch (ns.foldr (· + ·) a)) :=
  C16_foldr Gen.Church.add (by decide) (· + ·) church_add_correct a ns

/-- a non-commutative, non-associative operation distinguishes the two folds: `((s - n₁) - n₂) - …` -/
theorem C16_foldl_sub (s : Nat) (ns : List Nat) :
    Computes (app3 Gen.PList.foldl Gen.Church.sub (intoChurch s) (cl ns)) (intoChurch (ns.foldl (· - ·) s)) :=
  C16_foldl Gen.Church.sub (by decide) (· - ·) church_sub_correct s ns

/-- … versus `n₁ - (n₂ - (… - a))` -/
theorem C16_foldr_sub (a : Nat) (ns : List Nat) :
    Computes (app3 Gen.PList.foldr Gen.Church.sub (intoChurch a) (cl ns)) (intoChurch (ns.foldr (· - ·) a)) :=
  C16_foldr Gen.Church.sub (by decide) (· - ·) church_sub_correct a ns

theorem C16_filter_is_zero (ns : List Nat) :
    Computes (app2 Gen.PList.filter Gen.Church.is_zero (cl ns)) (cl (ns.filter (· == 0))) :=
  C16_filter Gen.Church.is_zero (by decide) (· == 0) church_is_zero_correct ns

theorem C16_take_while_is_zero (ns : List Nat) :
    Computes (app2 Gen.PList.take_while Gen.Church.is_zero (cl ns)) (cl (ns.takeWhile (· == 0))) :=
  C16_take_while Gen.Church.is_zero (by decide) (· == 0) church_is_zero_correct ns

theorem C16_drop_while_is_zero (ns : List Nat) :
    Computes (app2 Gen.PList.drop_while Gen.Church.is_zero (cl ns)) (cl (ns.dropWhile (· == 0))) :=
  C16_drop_while Gen.Church.is_zero (by decide) (· == 0) church_is_zero_correct ns

theorem C16_zip_with_sub (ms ns : List Nat) :
    Computes (app3 Gen.PList.zip_with Gen.Church.sub (cl ms) (cl ns))
      (cl ((ms.zip ns).map (fun p => p.1 - p.2))) :=
  C16_zip_with Gen.Church.sub (by decide) (· - ·) church_sub_correct ms ns

/-! ### B.4 the general layer-1 forms: lists of ARBITRARY closed terms (not only numerals) -/

theorem C16_length_terms (xs : List Term) (hxs : ∀ t ∈ xs, Closed t) :
    app Gen.PList.length (pairList xs) ↠ intoChurch xs.length := plist_length_correct xs hxs

theorem C16_index_terms (xs : List Term) (hxs : ∀ t ∈ xs, Closed t) (i : Nat) (h : i < xs.length) :
    app2 Gen.PList.index (intoChurch i) (pairList xs) ↠ xs[i] := plist_index_correct xs hxs i h

theorem C16_reverse_terms (xs : List Term) (hxs : ∀ t ∈ xs, Closed t) :
    app Gen.PList.reverse (pairList xs) ↠ pairList xs.reverse := plist_reverse_correct xs hxs

theorem C16_append_terms (xs ys : List Term) (hxs : ∀ t ∈ xs, Closed t) (hys : ∀ t ∈ ys, Closed t) :
    app2 Gen.PList.append (pairList xs) (pairList ys) ↠ pairList (xs ++ ys) :=
  plist_append_correct xs ys hxs hys

theorem C16_map_terms (f : Term) (hf : Closed f) (xs : List Term) (hxs : ∀ t ∈ xs, Closed t) :
    app2 Gen.PList.map f (pairList xs) ↠ pairList (xs.map (app f)) := plist_map_correct f hf xs hxs

theorem C16_foldl_terms (f s : Term) (hf : Closed f) (hs : Closed s) (xs : List Term) (hxs : ∀ t ∈ xs, Closed t) :
    app3 Gen.PList.foldl f s (pairList xs) ↠ xs.foldl (fun acc x => app2 f acc x) s :=
  plist_foldl_correct f s hf hs xs hxs

theorem C16_foldr_terms (f a : Term) (hf : Closed f) (ha : Closed a) (xs : List Term) (hxs : ∀ t ∈ xs, Closed t) :
    app3 Gen.PList.foldr f a (pairList xs) ↠ xs.foldr (fun x acc => app2 f x acc) a :=
  plist_foldr_correct f a hf ha xs hxs

theorem C16_filter_terms (p : Term) (hp : Closed p) (xs : List Term) (hxs : ∀ t ∈ xs, Closed t)
    (keep : Term → Bool) (hkeep : ∀ x ∈ xs, app p x ↠ fromBool (keep x)) :
    app2 Gen.PList.filter p (pairList xs) ↠ pairList (xs.filter keep) :=
  plist_filter_correct p hp xs hxs keep hkeep

theorem C16_take_terms (k : Nat) (xs : List Term) (hxs : ∀ t ∈ xs, Closed t) :
    app2 Gen.PList.take (intoChurch k) (pairList xs) ↠ pairList (xs.take k) := plist_take_correct k xs hxs

theorem C16_drop_terms (k : Nat) (xs : List Term) (hxs : ∀ t ∈ xs, Closed t) :
    app2 Gen.PList.drop (intoChurch k) (pairList xs) ↠ pairList (xs.drop k) := plist_drop_correct k xs hxs

theorem C16_replicate_terms (k : Nat) (y : Term) (hy : Closed y) :
    app2 Gen.PList.replicate (intoChurch k) y ↠ pairList (List.replicate k y) := plist_replicate_correct k y hy

theorem C16_last_terms (xs : List Term) (hxs : ∀ t ∈ xs, Closed t) (hne : xs ≠ []) :
    app Gen.PList.last (pairList xs) ↠ xs.getLast hne := plist_last_correct xs hxs hne

theorem C16_init_terms (xs : List Term) (hxs : ∀ t ∈ xs, Closed t) (hne : xs ≠ []) :
    app Gen.PList.init (pairList xs) ↠ pairList xs.dropLast := plist_init_correct xs hxs hne

theorem C16_zip_terms (xs ys : List Term) (hxs : ∀ t ∈ xs, Closed t) (hys : ∀ t ∈ ys, Closed t) :
    app2 Gen.PList.zip (pairList xs) (pairList ys) ↠ pairList ((xs.zip ys).map (fun p => tuple2 p.1 p.2)) :=
  plist_zip_correct xs ys hxs hys

theorem C16_zip_with_terms (f : Term) (hf : Closed f) (xs ys : List Term) (hxs : ∀ t ∈ xs, Closed t)
    (hys : ∀ t ∈ ys, Closed t) :
    app3 Gen.PList.zip_with f (pairList xs) (pairList ys) ↠ pairList ((xs.zip ys).map (fun p => app2 f p.1 p.2)) :=
  plist_zip_with_correct f hf xs ys hxs hys

/-! ## C. cross-check grids (BOUNDED; the unbounded HAP statements are in C16.lean): HAP on short lists.
`Grid.runsTo .HAP fuel t n = true` implies `∃ c, reduce .HAP 0 fuel t = some (n, c)` (`Grid.runsTo_spec`); `FUEL` is the
constant of C13 (100000).  The grids: all lists of length ≤ 3 over {0, 1} (`lists3`), pairs of lists of length ≤ 2
(`lists2`) for the binary functions, counts 0..3 for take/drop/replicate, start values 0..2 for the folds.  The lists of
the Church/Scott/Parigot list modules hold numerals of the SAME encoding (what the Rust `vec![1, 2].into_scott()`
builds); pair lists hold Church numerals. -/

namespace C16
def lists2 : List (List Nat) := [[], [0], [1], [0,0], [0,1], [1,0], [1,1]]
def lists3 : List (List Nat) :=
  [[], [0], [1], [0,0], [0,1], [1,0], [1,1], [0,0,0], [0,0,1], [0,1,0], [0,1,1], [1,0,0], [1,0,1], [1,1,0], [1,1,1]]
end C16

/-! ### C.1 constructors and observers of the four encodings -/

set_option maxRecDepth 100000 in
theorem C16_grid_is_nil_pair : lists3.all (fun ns =>
    Grid.runsTo .HAP FUEL (app Gen.PList.is_nil (pairList (ns.map intoChurch))) (fromBool ns.isEmpty)) = true := by decide +kernel

set_option maxRecDepth 100000 in
theorem C16_grid_head_pair : lists3.all (fun ns => match ns with
    | [] => true
    | n :: _ => Grid.runsTo .HAP FUEL (app Gen.PList.head (pairList (ns.map intoChurch))) (intoChurch n)) = true := by decide +kernel

set_option maxRecDepth 100000 in
theorem C16_grid_tail_pair : lists3.all (fun ns => match ns with
    | [] => true
    | _ :: r => Grid.runsTo .HAP FUEL (app Gen.PList.tail (pairList (ns.map intoChurch))) (pairList (r.map intoChurch))) = true := by
  decide +kernel

set_option maxRecDepth 100000 in
theorem C16_grid_conv_pair : lists3.all (fun ns =>
    Grid.runsTo .HAP FUEL ((ns.map intoChurch).foldr (fun t acc => app2 Gen.PList.cons t acc) Gen.PList.nil)
      (pairList (ns.map intoChurch))) = true := by decide +kernel

set_option maxRecDepth 100000 in
theorem C16_grid_is_nil_church : lists3.all (fun ns =>
    Grid.runsTo .HAP FUEL (app Gen.CList.is_nil (churchList (ns.map intoChurch))) (fromBool ns.isEmpty)) = true := by decide +kernel

set_option maxRecDepth 100000 in
theorem C16_grid_head_church : lists3.all (fun ns => match ns with
    | [] => true
    | n :: _ => Grid.runsTo .HAP FUEL (app Gen.CList.head (churchList (ns.map intoChurch))) (intoChurch n)) = true := by decide +kernel

set_option maxRecDepth 100000 in
theorem C16_grid_tail_church : lists3.all (fun ns => match ns with
    | [] => true
    | _ :: r => Grid.runsTo .HAP FUEL (app Gen.CList.tail (churchList (ns.map intoChurch))) (churchList (r.map intoChurch))) = true := by
  decide +kernel

set_option maxRecDepth 100000 in
theorem C16_grid_conv_church : lists3.all (fun ns =>
    Grid.runsTo .HAP FUEL ((ns.map intoChurch).foldr (fun t acc => app2 Gen.CList.cons t acc) Gen.CList.nil)
      (churchList (ns.map intoChurch))) = true := by decide +kernel

set_option maxRecDepth 100000 in
theorem C16_grid_is_nil_scott : lists3.all (fun ns =>
    Grid.runsTo .HAP FUEL (app Gen.SList.is_nil (scottList (ns.map intoScott))) (fromBool ns.isEmpty)) = true := by decide +kernel

set_option maxRecDepth 100000 in
theorem C16_grid_head_scott : lists3.all (fun ns => match ns with
    | [] => true
    | n :: _ => Grid.runsTo .HAP FUEL (app Gen.SList.head (scottList (ns.map intoScott))) (intoScott n)) = true := by decide +kernel

set_option maxRecDepth 100000 in
theorem C16_grid_tail_scott : lists3.all (fun ns => match ns with
    | [] => true
    | _ :: r => Grid.runsTo .HAP FUEL (app Gen.SList.tail (scottList (ns.map intoScott))) (scottList (r.map intoScott))) = true := by
  decide +kernel

set_option maxRecDepth 100000 in
theorem C16_grid_conv_scott : lists3.all (fun ns =>
    Grid.runsTo .HAP FUEL ((ns.map intoScott).foldr (fun t acc => app2 Gen.SList.cons t acc) Gen.SList.nil)
      (scottList (ns.map intoScott))) = true := by decide +kernel

set_option maxRecDepth 100000 in
theorem C16_grid_is_nil_parigot : lists3.all (fun ns =>
    Grid.runsTo .HAP FUEL (app Gen.GList.is_nil (parigotList (ns.map intoParigot))) (fromBool ns.isEmpty)) = true := by decide +kernel

set_option maxRecDepth 100000 in
theorem C16_grid_head_parigot : lists3.all (fun ns => match ns with
    | [] => true
    | n :: _ => Grid.runsTo .HAP FUEL (app Gen.GList.head (parigotList (ns.map intoParigot))) (intoParigot n)) = true := by decide +kernel

set_option maxRecDepth 100000 in
theorem C16_grid_tail_parigot : lists3.all (fun ns => match ns with
    | [] => true
    | _ :: r => Grid.runsTo .HAP FUEL (app Gen.GList.tail (parigotList (ns.map intoParigot))) (parigotList (r.map intoParigot))) = true := by
  decide +kernel

set_option maxRecDepth 100000 in
theorem C16_grid_conv_parigot : lists3.all (fun ns =>
    Grid.runsTo .HAP FUEL ((ns.map intoParigot).foldr (fun t acc => app2 Gen.GList.cons t acc) Gen.GList.nil)
      (parigotList (ns.map intoParigot))) = true := by decide +kernel

/-! ### C.2 the pair-list library -/

set_option maxRecDepth 100000 in
theorem C16_grid_length : lists3.all (fun ns =>
    Grid.runsTo .HAP FUEL (app Gen.PList.length (cl ns)) (intoChurch ns.length)) = true := by decide +kernel

set_option maxRecDepth 100000 in
theorem C16_grid_index : lists3.all (fun ns => (List.range ns.length).all fun i =>
    Grid.runsTo .HAP FUEL (app2 Gen.PList.index (intoChurch i) (cl ns)) (intoChurch (ns.getD i 0))) = true := by decide +kernel

set_option maxRecDepth 100000 in
theorem C16_grid_reverse : lists3.all (fun ns =>
    Grid.runsTo .HAP FUEL (app Gen.PList.reverse (cl ns)) (cl ns.reverse)) = true := by decide +kernel

set_option maxRecDepth 100000 in
theorem C16_grid_list : lists3.all (fun ns =>
    Grid.runsTo .HAP FUEL
      ((ns.map intoChurch).foldl (fun acc x => app acc x) (app Gen.PList.list (intoChurch ns.length))) (cl ns)) = true := by decide +kernel

set_option maxRecDepth 100000 in
theorem C16_grid_append : lists2.all (fun ms => lists2.all fun ns =>
    Grid.runsTo .HAP FUEL (app2 Gen.PList.append (cl ms) (cl ns)) (cl (ms ++ ns))) = true := by decide +kernel

set_option maxRecDepth 100000 in
theorem C16_grid_last : lists3.all (fun ns => ns.isEmpty ||
    Grid.runsTo .HAP FUEL (app Gen.PList.last (cl ns)) (intoChurch (ns.getLastD 0))) = true := by decide +kernel

set_option maxRecDepth 100000 in
theorem C16_grid_init : lists3.all (fun ns =>
    Grid.runsTo .HAP FUEL (app Gen.PList.init (cl ns)) (cl ns.dropLast)) = true := by decide +kernel

set_option maxRecDepth 100000 in
theorem C16_grid_zip : lists2.all (fun ms => lists2.all fun ns =>
    Grid.runsTo .HAP FUEL (app2 Gen.PList.zip (cl ms) (cl ns))
      (pairList ((ms.zip ns).map (fun p => tuple2 (intoChurch p.1) (intoChurch p.2))))) = true := by decide +kernel

set_option maxRecDepth 100000 in
theorem C16_grid_take : lists3.all (fun ns => (List.range 4).all fun k =>
    Grid.runsTo .HAP FUEL (app2 Gen.PList.take (intoChurch k) (cl ns)) (cl (ns.take k))) = true := by decide +kernel

set_option maxRecDepth 100000 in
theorem C16_grid_drop : lists3.all (fun ns => (List.range 4).all fun k =>
    Grid.runsTo .HAP FUEL (app2 Gen.PList.drop (intoChurch k) (cl ns)) (cl (ns.drop k))) = true := by decide +kernel

set_option maxRecDepth 100000 in
theorem C16_grid_replicate : (Grid.range2 3 2).all (fun (k, y) =>
    Grid.runsTo .HAP FUEL (app2 Gen.PList.replicate (intoChurch k) (intoChurch y)) (cl (List.replicate k y))) = true := by decide +kernel

set_option maxRecDepth 100000 in
theorem C16_grid_map_succ : lists3.all (fun ns =>
    Grid.runsTo .HAP FUEL (app2 Gen.PList.map Gen.Church.succ (cl ns)) (cl (ns.map (· + 1)))) = true := by decide +kernel

set_option maxRecDepth 100000 in
theorem C16_grid_foldl_add : lists3.all (fun ns => (List.range 3).all fun s =>
    Grid.runsTo .HAP FUEL (app3 Gen.PList.foldl Gen.Church.add (intoChurch s) (cl ns)) (intoChurch (ns.foldl (· + ·) s))) = true := by decide +kernel

set_option maxRecDepth 100000 in
theorem C16_grid_foldr_add : lists3.all (fun ns => (List.range 3).all fun a =>
    Grid.runsTo .HAP FUEL (app3 Gen.PList.foldr Gen.Church.add (intoChurch a) (cl ns)) (intoChurch (ns.foldr (· + ·) a))) = true := by decide +kernel

set_option maxRecDepth 100000 in
theorem C16_grid_foldl_sub : lists3.all (fun ns => (List.range 3).all fun s =>
    Grid.runsTo .HAP FUEL (app3 Gen.PList.foldl Gen.Church.sub (intoChurch s) (cl ns)) (intoChurch (ns.foldl (· - ·) s))) = true := by decide +kernel

set_option maxRecDepth 100000 in
theorem C16_grid_foldr_sub : lists3.all (fun ns => (List.range 3).all fun a =>
    Grid.runsTo .HAP FUEL (app3 Gen.PList.foldr Gen.Church.sub (intoChurch a) (cl ns)) (intoChurch (ns.foldr (· - ·) a))) = true := by decide +kernel

set_option maxRecDepth 100000 in
theorem C16_grid_filter_is_zero : lists3.all (fun ns =>
    Grid.runsTo .HAP FUEL (app2 Gen.PList.filter Gen.Church.is_zero (cl ns)) (cl (ns.filter (· == 0)))) = true := by decide +kernel

set_option maxRecDepth 100000 in
theorem C16_grid_take_while_is_zero : lists3.all (fun ns =>
    Grid.runsTo .HAP FUEL (app2 Gen.PList.take_while Gen.Church.is_zero (cl ns)) (cl (ns.takeWhile (· == 0)))) = true := by decide +kernel

set_option maxRecDepth 100000 in
theorem C16_grid_drop_while_is_zero : lists3.all (fun ns =>
    Grid.runsTo .HAP FUEL (app2 Gen.PList.drop_while Gen.Church.is_zero (cl ns)) (cl (ns.dropWhile (· == 0)))) = true := by decide +kernel

set_option maxRecDepth 100000 in
theorem C16_grid_zip_with_sub : lists2.all (fun ms => lists2.all fun ns =>
    Grid.runsTo .HAP FUEL (app3 Gen.PList.zip_with Gen.Church.sub (cl ms) (cl ns))
      (cl ((ms.zip ns).map (fun p => p.1 - p.2)))) = true := by decide +kernel

/-! ## D. non-vacuity: the premises are met by concrete lists -/

/-- NOR returns `[3, 2, 1]` for `reverse [1, 2, 3]` -/
example : ∃ fuel c, reduce .NOR 0 fuel (app Gen.PList.reverse (cl [1, 2, 3])) = some (cl [3, 2, 1], c) :=
  (C16_reverse [1, 2, 3]).nor

/-- HNO returns `[2 - 1, 5 - 7, 3 - 0] = [1, 0, 3]` for `zip_with sub [2, 5, 3, 9] [1, 7, 0]` -/
example : ∃ fuel c, reduce .HNO 0 fuel (app3 Gen.PList.zip_with Gen.Church.sub (cl [2, 5, 3, 9]) (cl [1, 7, 0]))
    = some (cl [1, 0, 3], c) := (C16_zip_with_sub [2, 5, 3, 9] [1, 7, 0]).hno

/-- the two folds differ on a non-associative operation: `(10 - 3) - 2 = 5`, `3 - (2 - 10) = 3` -/
example : (∃ fuel c, reduce .NOR 0 fuel (app3 Gen.PList.foldl Gen.Church.sub (intoChurch 10) (cl [3, 2]))
      = some (intoChurch 5, c)) ∧
    (∃ fuel c, reduce .HNO 0 fuel (app3 Gen.PList.foldr Gen.Church.sub (intoChurch 10) (cl [3, 2]))
      = some (intoChurch 3, c)) :=
  ⟨(C16_foldl_sub 10 [3, 2]).nor, (C16_foldr_sub 10 [3, 2]).hno⟩

/-- the observers of the Scott and Parigot lists on lists of numerals of the same encoding (`vec![4, 0].into_scott()`) -/
example : ∃ fuel c, reduce .HNO 0 fuel (app Gen.SList.tail (scottList [intoScott 4, intoScott 0]))
    = some (scottList [intoScott 0], c) :=
  (C16_observers_scott.tail (intoScott 4) [intoScott 0] (by decide) (by decide)).hno

example : ∃ fuel c, reduce .NOR 0 fuel (app Gen.GList.head (parigotList [intoParigot 2, intoParigot 1]))
    = some (intoParigot 2, c) :=
  (C16_observers_parigot.head (intoParigot 2) [intoParigot 1] (by decide) (by decide)).nor

/-- the conversion is the normal form of repeated cons, Church list of Church numerals -/
example : ∃ fuel c, reduce .NOR 0 fuel
    (app2 Gen.CList.cons (intoChurch 1) (app2 Gen.CList.cons (intoChurch 2) Gen.CList.nil))
    = some (churchList [intoChurch 1, intoChurch 2], c) :=
  (C16_conv_computes_church [intoChurch 1, intoChurch 2] (by decide) (by decide)).nor

/-- a layer-3 fact read back as a statement about the reducer: HAP returns `[0, 1]` for `append [0] [1]` -/
example : ∃ c, reduce .HAP 0 FUEL (app2 Gen.PList.append (cl [0]) (cl [1])) = some (cl [0, 1], c) :=
  Grid.runsTo_spec (by decide +kernel)

end LC
