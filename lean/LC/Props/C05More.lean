/-
C05 (continued) — positional characterisation of ALL seven orders

`Props/C05.lean` pins NOR, CBN, APP and CBV to independent positional definitions and says of HSP
only that it stays on the head spine.  Here: *which* redex HSP, HNO and HAP contract
(`isHSP`, `isHNO`, `isHAP`: specification section of `Proofs/PositionsMore.lean`, relations that
quantify over positions and mention no step function), one uniform statement for all seven orders
(`Sel o`), uniqueness, "nothing selected ⇔ documented normal form", the executable selectors
`sel o : Term → Option Pos` (proved equivalent to `Sel o`; they make the examples `decide`-able),
and the relations between the orders that the crate's documentation of `Order` alludes to.

In words (crate documentation of `enum Order` in quotes):
* HSP "head spine - leftmost outermost, abstractions reduced only in head position": only redexes on
  the head spine (through abstraction bodies and operator sides, never into an argument), and of
  those the INNERMOST one.  NB: on `(λ.(λ.1) 2) 3` that is the inner redex, not the leftmost-outermost
  one (`C05_hsp_not_leftmost_outermost`); HSP's redex is NOR's exactly when the head spine carries a
  single redex (`C05_hsp_is_nor_iff`).
* HNO "hybrid normal - a mix between HSP (head spine) and NOR (normal)": the innermost redex on the
  head spine of the leftmost-outermost redex.
* HAP "hybrid applicative - a mix between CBV (call-by-value) and APP (applicative)": the first redex
  in the order `hapBefore` — in an application: the operator's redexes outside its abstractions (CBV
  order), then the operand (same rules), then the application itself, then the rest of the operator.
-/
import LC.Props.C05
import LC.Proofs.PositionsRel

namespace LC
open Term Spec

/-! ### one step of `reduce` contracts exactly the selected redex -/

/-- all orders, executable form: `reduce o 1` contracts the redex at `sel o t`, or does nothing when
`sel o t = none` -/
theorem C05_reduce_one_sel (o : Order) (fuel : Nat) (t t' : Term) (c : Nat)
    (h : reduce o 1 fuel t = some (t', c)) :
    (c = 1 ∧ ∃ p, sel o t = some p ∧ t' = contractAt t p) ∨ (c = 0 ∧ t' = t ∧ sel o t = none) := by
  rcases C04_single_step o fuel t t' c h with ⟨hs, hc⟩ | ⟨hs, ht, hc⟩
  · rw [stepOrd_eq_sel] at hs
    cases hsel : sel o t with
    | none => simp [hsel] at hs
    | some p =>
      simp only [hsel, Option.map_some, Option.some.injEq] at hs
      exact Or.inl ⟨hc, p, rfl, hs.symm⟩
  · rw [stepOrd_eq_sel] at hs
    cases hsel : sel o t with
    | none => exact Or.inr ⟨hc, ht, rfl⟩
    | some p => simp [hsel] at hs

example : sel .HSP (app (abs (app (abs (var 1)) (var 2))) (var 3)) = some [Dir.L, Dir.B]
    ∧ reduce .HSP 1 9 (app (abs (app (abs (var 1)) (var 2))) (var 3))
      = some (app (abs (var 2)) (var 3), 1)
    ∧ contractAt (app (abs (app (abs (var 1)) (var 2))) (var 3)) [Dir.L, Dir.B]
      = app (abs (var 2)) (var 3) := by decide

/-- all orders, specification form: `reduce o 1` contracts exactly the redex at the position the
positional definition `Sel o` of the order selects; no step iff it selects nothing -/
theorem C05_all_orders (o : Order) (fuel : Nat) (t t' : Term) (c : Nat)
    (h : reduce o 1 fuel t = some (t', c)) :
    (c = 1 ∧ ∃ p, Sel o t p ∧ t' = contractAt t p) ∨ (c = 0 ∧ t' = t ∧ ∀ p, ¬ Sel o t p) := by
  rcases C05_reduce_one_sel o fuel t t' c h with ⟨hc, p, hp, ht⟩ | ⟨hc, ht, hn⟩
  · exact Or.inl ⟨hc, p, sel_sound o t p hp, ht⟩
  · exact Or.inr ⟨hc, ht, sel_none o t hn⟩

/-- conversely, the selected redex IS contracted: with enough fuel `reduce o 1` returns `t` with the
redex at the selected position contracted -/
theorem C05_selected_is_contracted (o : Order) (t : Term) (p : Pos) (h : Sel o t p) :
    ∃ fuel, reduce o 1 fuel t = some (contractAt t p, 1) := by
  obtain ⟨fuel, ⟨t', c⟩, hr⟩ := C04_total o 1 (by decide) t
  refine ⟨fuel, ?_⟩
  rcases C05_all_orders o fuel t t' c hr with ⟨hc, q, hq, ht⟩ | ⟨_, _, hn⟩
  · rw [hr, hc, ht, Sel_unique o hq h]
  · exact absurd h (hn p)

/-- HSP: one step contracts the innermost redex of the head spine; no step iff the head spine
carries no redex -/
theorem C05_hsp_exact (fuel : Nat) (t t' : Term) (c : Nat) (h : reduce .HSP 1 fuel t = some (t', c)) :
    (c = 1 ∧ ∃ p, isHSP t p ∧ t' = contractAt t p) ∨
    (c = 0 ∧ t' = t ∧ ∀ p, redexAt t p → ¬ noArg p) := by
  rcases C05_reduce_one_sel .HSP fuel t t' c h with ⟨hc, p, hp, ht⟩ | ⟨hc, ht, hn⟩
  · exact Or.inl ⟨hc, p, (selHsp_sound t).1 p hp, ht⟩
  · exact Or.inr ⟨hc, ht, fun p hp np => (selHsp_sound t).2 hn p np hp⟩

/-- the redex HSP selects is a redex on the head spine (link to `C05_hsp`) … -/
theorem C05_hsp_on_spine (t : Term) (p : Pos) (h : isHSP t p) : redexAt t p ∧ noArg p :=
  ⟨h.2.1, h.1⟩

/-- … namely the one below every other redex of the head spine -/
theorem C05_hsp_innermost_on_spine (t : Term) (p : Pos) :
    isHSP t p ↔ redexAt t p ∧ noArg p ∧ ∀ q, redexAt t q → noArg q → ∃ s, p = q ++ s :=
  isHSP_iff

example : isHSP (app (abs (app (abs (var 1)) (var 2))) (var 3)) [Dir.L, Dir.B] :=
  (sel_iff .HSP _ _).1 (by decide)
/-- the root of that term is a head-spine redex too, but not the selected one -/
example : redexAt (app (abs (app (abs (var 1)) (var 2))) (var 3)) [] ∧ noArg [] ∧
    ¬ isHSP (app (abs (app (abs (var 1)) (var 2))) (var 3)) [] :=
  ⟨⟨_, _, 0, rfl⟩, by simp [noArg], fun h => by
    have := isHSP_unique h ((sel_iff .HSP _ [Dir.L, Dir.B]).1 (by decide)); simp at this⟩

/-- HNO: one step contracts the innermost redex on the head spine of the leftmost-outermost redex;
no step iff there is no redex -/
theorem C05_hno_exact (fuel : Nat) (t t' : Term) (c : Nat) (h : reduce .HNO 1 fuel t = some (t', c)) :
    (c = 1 ∧ ∃ p, isHNO t p ∧ t' = contractAt t p) ∨ (c = 0 ∧ t' = t ∧ ∀ p, ¬ redexAt t p) := by
  rcases C05_reduce_one_sel .HNO fuel t t' c h with ⟨hc, p, hp, ht⟩ | ⟨hc, ht, hn⟩
  · exact Or.inl ⟨hc, p, (selHno_sound t).1 p hp, ht⟩
  · exact Or.inr ⟨hc, ht, (selHno_sound t).2 hn⟩

/-- `x ((λ.(λ.1) 2) 3)`: NOR contracts the argument's outer redex `[R]`, HNO the inner one on its
head spine `[R,L,B]` -/
example : isHNO (app (var 1) (app (abs (app (abs (var 1)) (var 2))) (var 3))) [Dir.R, Dir.L, Dir.B]
    ∧ isLMO (app (var 1) (app (abs (app (abs (var 1)) (var 2))) (var 3))) [Dir.R] :=
  ⟨(sel_iff .HNO _ _).1 (by decide), (sel_iff .NOR _ _).1 (by decide)⟩
example : reduce .HNO 1 9 (app (var 1) (app (abs (app (abs (var 1)) (var 2))) (var 3)))
      = some (app (var 1) (app (abs (var 2)) (var 3)), 1)
    ∧ reduce .NOR 1 9 (app (var 1) (app (abs (app (abs (var 1)) (var 2))) (var 3)))
      = some (app (var 1) (app (abs (var 1)) (var 1)), 1) := by decide

/-- HAP: one step contracts the first redex in the order `hapBefore`; no step iff there is no redex -/
theorem C05_hap_exact (fuel : Nat) (t t' : Term) (c : Nat) (h : reduce .HAP 1 fuel t = some (t', c)) :
    (c = 1 ∧ ∃ p, isHAP t p ∧ t' = contractAt t p) ∨ (c = 0 ∧ t' = t ∧ ∀ p, ¬ redexAt t p) := by
  rcases C05_reduce_one_sel .HAP fuel t t' c h with ⟨hc, p, hp, ht⟩ | ⟨hc, ht, hn⟩
  · exact Or.inl ⟨hc, p, (selHap_sound t).1 p hp, ht⟩
  · exact Or.inr ⟨hc, ht, (selHap_sound t).2 hn⟩

/-- `(λ.(λ.1) 1) (λ.(λ.1) 1)`: CBV (and NOR) contract the root, APP the redex in the operator's body,
HAP the redex in the operand's body — three different redexes -/
example : isHAP (app (abs (app (abs (var 1)) (var 1))) (abs (app (abs (var 1)) (var 1)))) [Dir.R, Dir.B]
    ∧ isLMIW (app (abs (app (abs (var 1)) (var 1))) (abs (app (abs (var 1)) (var 1)))) []
    ∧ isLMI (app (abs (app (abs (var 1)) (var 1))) (abs (app (abs (var 1)) (var 1)))) [Dir.L, Dir.B] :=
  ⟨(sel_iff .HAP _ _).1 (by decide), (sel_iff .CBV _ _).1 (by decide), (sel_iff .APP _ _).1 (by decide)⟩
example : reduce .HAP 1 9 (app (abs (app (abs (var 1)) (var 1))) (abs (app (abs (var 1)) (var 1))))
    = some (app (abs (app (abs (var 1)) (var 1))) (abs (var 1)), 1) := by decide
/-- the order itself: the operand's redex before the root, the root before the operator's body -/
example : hapBefore [Dir.R, Dir.B] [] ∧ hapBefore [] [Dir.L, Dir.B] ∧ ¬ hapBefore [] [Dir.R, Dir.B] :=
  ⟨hapBefore.R_root, hapBefore.root_lateL (by simp [weak]), hapBefore_asymm hapBefore.R_root⟩

/-! ### the selections are well defined, computable, and empty exactly on the normal forms -/

/-- every order selects at most one redex, so "the" selected redex is well defined -/
theorem C05_sel_unique (o : Order) (t : Term) (p q : Pos) (hp : Sel o t p) (hq : Sel o t q) : p = q :=
  Sel_unique o hp hq

/-- the three new selections spelled out, as in `C05_selection_unique` -/
theorem C05_selection_unique_more (t : Term) (p q : Pos) :
    (isHSP t p → isHSP t q → p = q) ∧ (isHNO t p → isHNO t q → p = q) ∧
    (isHAP t p → isHAP t q → p = q) :=
  ⟨isHSP_unique, isHNO_unique, isHAP_unique⟩

/-- the executable selector computes exactly the positional selection -/
theorem C05_sel_computable (o : Order) (t : Term) (p : Pos) : sel o t = some p ↔ Sel o t p :=
  sel_iff o t p

/-- one strategy step is the contraction at the selected position -/
theorem C05_step_is_selected (o : Order) (t : Term) : stepOrd o t = (sel o t).map (contractAt t) :=
  stepOrd_eq_sel o t

/-- every order selects nothing exactly on its documented normal form -/
theorem C05_sel_none_iff_nf (o : Order) (t : Term) : (∀ p, ¬ Sel o t p) ↔ NF o t = true := by
  rw [← sel_none_iff, ← RL.stepOrd_none_iff, stepOrd_eq_sel]
  cases sel o t <;> simp

/-- the same for the executable selector -/
theorem C05_sel_fn_none_iff_nf (o : Order) (t : Term) : sel o t = none ↔ NF o t = true := by
  rw [sel_none_iff]; exact C05_sel_none_iff_nf o t

example : Sel .HSP (app (abs (var 1)) (var 2)) [] ∧ NF .HSP (app (abs (var 1)) (var 2)) = false :=
  ⟨(sel_iff .HSP _ _).1 (by decide), by decide⟩
/-- `λ. 1 ((λ.1) 2)` is a head normal form (HSP selects nothing) but not a normal form (HNO does) -/
example : (∀ p, ¬ Sel .HSP (abs (app (var 1) (app (abs (var 1)) (var 2)))) p)
    ∧ Sel .HNO (abs (app (var 1) (app (abs (var 1)) (var 2)))) [Dir.B, Dir.R] :=
  ⟨(C05_sel_none_iff_nf .HSP _).2 (by decide), (sel_iff .HNO _ _).1 (by decide)⟩

/-- every step of a longer run contracts the redex selected in the term reached so far -/
theorem C05_every_step_selected (o : Order) (L fuel : Nat) (t t' : Term) (c : Nat)
    (h : reduce o L fuel t = some (t', c)) :
    Iter (fun u => (sel o u).map (contractAt u)) c t t' := by
  have e : stepOrd o = fun u => (sel o u).map (contractAt u) := funext (stepOrd_eq_sel o)
  rw [← e]; exact C04_is_iter o L fuel t t' c h

example : reduce .HNO 0 9 (app (var 1) (app (abs (app (abs (var 1)) (var 2))) (var 3)))
    = some (app (var 1) (var 1), 2) := by decide

/-- CBV: the selected redex is also the first of the redexes outside abstractions in the order
"inner before outer, left before right" -/
theorem C05_cbv_first_in_order (t : Term) (p : Pos) (h : isLMIW t p) :
    weak p ∧ ∀ q, redexAt t q → weak q → q = p ∨ cbvBefore p q :=
  ((selCbv_sound t).1 p ((sel_iff .CBV t p).2 h)).2

/-! ### relations between the orders -/

/-- if an order's selection is always also another order's selection on `t`, a step of the first
is a step of the second on `t` -/
theorem C05_step_transfer (o₁ o₂ : Order) (t : Term) (hsub : ∀ p, Sel o₁ t p → Sel o₂ t p)
    (f₁ f₂ : Nat) (t₁ t₂ : Term) (c₂ : Nat) (h₁ : reduce o₁ 1 f₁ t = some (t₁, 1))
    (h₂ : reduce o₂ 1 f₂ t = some (t₂, c₂)) : t₂ = t₁ ∧ c₂ = 1 := by
  rcases C05_all_orders o₁ f₁ t t₁ 1 h₁ with ⟨_, p, hp, ht⟩ | ⟨hc, _, _⟩
  · rcases C05_all_orders o₂ f₂ t t₂ c₂ h₂ with ⟨hc, q, hq, ht'⟩ | ⟨_, _, hn⟩
    · rw [ht, ht', Sel_unique o₂ hq (hsub p hp)]; exact ⟨rfl, hc⟩
    · exact absurd (hsub p hp) (hn p)
  · cases hc

/-- the redex CBN selects is the one NOR selects, whenever CBN selects one … -/
theorem C05_cbn_is_nor (t : Term) (p : Pos) (h : Sel .CBN t p) : Sel .NOR t p := h.1

/-- … so whenever CBN performs a step, NOR performs the same step -/
theorem C05_cbn_step_is_nor_step (f₁ f₂ : Nat) (t t₁ t₂ : Term) (c₂ : Nat)
    (h₁ : reduce .CBN 1 f₁ t = some (t₁, 1)) (h₂ : reduce .NOR 1 f₂ t = some (t₂, c₂)) :
    t₂ = t₁ ∧ c₂ = 1 :=
  C05_step_transfer .CBN .NOR t (C05_cbn_is_nor t) f₁ f₂ t₁ t₂ c₂ h₁ h₂

example : reduce .CBN 1 9 (app (abs (app (abs (var 1)) (var 2))) (var 3))
      = some (app (abs (var 1)) (var 1), 1)
    ∧ reduce .NOR 1 9 (app (abs (app (abs (var 1)) (var 2))) (var 3))
      = some (app (abs (var 1)) (var 1), 1) := by decide

/-- HSP's redex lies on the head spine of NOR's redex, which is then on the head spine itself -/
theorem C05_hsp_below_nor (t : Term) (p : Pos) (h : isHSP t p) :
    ∃ q s, isLMO t q ∧ noArg q ∧ p = q ++ s ∧ noArg s := isHSP_below_lmo h

/-- HSP's redex is NOR's exactly when it is the only redex on the head spine -/
theorem C05_hsp_is_nor_iff (t : Term) (p : Pos) (h : isHSP t p) :
    isLMO t p ↔ ∀ q, redexAt t q → noArg q → q = p := isHSP_isLMO_iff h

/-- in general it is not: HSP is NOT leftmost-outermost; on `(λ.(λ.1) 2) 3` HSP contracts the inner
redex `(λ.1) 2` (position `[L,B]`) while NOR and CBN contract the whole term -/
theorem C05_hsp_not_leftmost_outermost :
    ∃ t p q, isHSP t p ∧ isLMO t q ∧ spineL q ∧ p ≠ q :=
  ⟨app (abs (app (abs (var 1)) (var 2))) (var 3), [Dir.L, Dir.B], [],
    (sel_iff .HSP _ _).1 (by decide), ((sel_iff .CBN _ _).1 (by decide)).1, by simp [spineL], by simp⟩

/-- whenever CBN selects a redex, HSP selects one at or below it on its head spine -/
theorem C05_cbn_above_hsp (t : Term) (p : Pos) (h : Sel .CBN t p) :
    ∃ q s, isHSP t q ∧ q = p ++ s ∧ noArg s := cbn_above_hsp h.1 h.2

/-- the redex HSP selects is the one HNO selects, whenever HSP selects one … -/
theorem C05_hsp_is_hno (t : Term) (p : Pos) (h : Sel .HSP t p) : Sel .HNO t p := isHSP_isHNO h

/-- … so whenever HSP performs a step, HNO performs the same step ("head-spine first") … -/
theorem C05_hsp_step_is_hno_step (f₁ f₂ : Nat) (t t₁ t₂ : Term) (c₂ : Nat)
    (h₁ : reduce .HSP 1 f₁ t = some (t₁, 1)) (h₂ : reduce .HNO 1 f₂ t = some (t₂, c₂)) :
    t₂ = t₁ ∧ c₂ = 1 :=
  C05_step_transfer .HSP .HNO t (C05_hsp_is_hno t) f₁ f₂ t₁ t₂ c₂ h₁ h₂

example : reduce .HSP 1 9 (app (abs (app (abs (var 1)) (var 2))) (var 3))
      = some (app (abs (var 2)) (var 3), 1)
    ∧ reduce .HNO 1 9 (app (abs (app (abs (var 1)) (var 2))) (var 3))
      = some (app (abs (var 2)) (var 3), 1) := by decide

/-- … and as long as the head spine carries a redex, HNO's redex is HSP's -/
theorem C05_hno_is_hsp_on_spine (t : Term) (p q : Pos) (h : isHNO t p) (hq : redexAt t q)
    (nq : noArg q) : isHSP t p := isHNO_isHSP h hq nq

/-- HNO's redex lies on the head spine of NOR's redex and is the innermost redex there -/
theorem C05_hno_on_nor_spine (t : Term) (p : Pos) (h : isHNO t p) :
    ∃ q s, isLMO t q ∧ p = q ++ s ∧ noArg s ∧ ∀ s', s' ≠ [] → noArg s' → ¬ redexAt t (p ++ s') := by
  obtain ⟨hs, q, s, hq, e, ns⟩ := h
  exact ⟨q, s, hq, e, ns, hs.2⟩

/-- HNO's redex is NOR's exactly when NOR's redex has no further redex on its own head spine -/
theorem C05_hno_is_nor_iff (t : Term) (p q : Pos) (hp : isHNO t p) (hq : isLMO t q) :
    p = q ↔ spineInnermost t q := isHNO_eq_isLMO_iff hp hq

/-- `x ((λ.1) 2)`: NOR's redex `[R]` has nothing on its head spine, HNO contracts it too -/
example : sel .HNO (app (var 1) (app (abs (var 1)) (var 2))) = some [Dir.R]
    ∧ sel .NOR (app (var 1) (app (abs (var 1)) (var 2))) = some [Dir.R]
    ∧ sel .HSP (app (var 1) (app (abs (var 1)) (var 2))) = none := by decide

/-- APP's redex is CBV's whenever it lies outside every abstraction -/
theorem C05_app_weak_is_cbv (t : Term) (p : Pos) (h : isLMI t p) (hw : weak p) : isLMIW t p :=
  isLMI_weak_isLMIW h hw

/-- HAP's redex is CBV's whenever it lies outside every abstraction -/
theorem C05_hap_weak_is_cbv (t : Term) (p : Pos) (h : isHAP t p) (hw : weak p) : isLMIW t p :=
  isHAP_weak_isLMIW h hw

/-- APP's redex is HAP's whenever it lies outside every abstraction -/
theorem C05_app_weak_is_hap (t : Term) (p : Pos) (h : isLMI t p) (hw : weak p) : isHAP t p :=
  isLMI_weak_isHAP h hw

/-- on a term without redexes inside abstractions APP, CBV and HAP select the same redex -/
theorem C05_eager_agree_all_weak (t : Term) (hall : ∀ q, redexAt t q → weak q) (p : Pos) :
    (isLMI t p ↔ isLMIW t p) ∧ (isHAP t p ↔ isLMIW t p) := eager_agree_of_all_weak hall p

/-- `(λ.1) ((λ.1) 2)` has no redex inside an abstraction: APP, CBV and HAP all select `[R]` -/
example : sel .APP (app (abs (var 1)) (app (abs (var 1)) (var 2))) = some [Dir.R]
    ∧ sel .CBV (app (abs (var 1)) (app (abs (var 1)) (var 2))) = some [Dir.R]
    ∧ sel .HAP (app (abs (var 1)) (app (abs (var 1)) (var 2))) = some [Dir.R] := by decide

/-- `x (λ.(λ.1) 1) ((λ.1) 2)`: APP's redex `[L,R,B]` is inside an abstraction, CBV and HAP agree on
`[R]`; the converse of `C05_app_weak_is_cbv` fails (CBV's redex is not APP's) -/
example : isLMI (app (app (var 1) (abs (app (abs (var 1)) (var 1)))) (app (abs (var 1)) (var 2)))
      [Dir.L, Dir.R, Dir.B]
    ∧ isLMIW (app (app (var 1) (abs (app (abs (var 1)) (var 1)))) (app (abs (var 1)) (var 2))) [Dir.R]
    ∧ isHAP (app (app (var 1) (abs (app (abs (var 1)) (var 1)))) (app (abs (var 1)) (var 2))) [Dir.R] :=
  ⟨(sel_iff .APP _ _).1 (by decide), (sel_iff .CBV _ _).1 (by decide), (sel_iff .HAP _ _).1 (by decide)⟩
/-- `x (λ.(λ.1) 1) (λ.(λ.1) 1)`: once no redex is left outside the abstractions, HAP works on the
LAST argument of a head variable first (`[R,B]`), APP and NOR on the first one (`[L,R,B]`) -/
example : sel .HAP (app (app (var 1) (abs (app (abs (var 1)) (var 1)))) (abs (app (abs (var 1)) (var 1))))
      = some [Dir.R, Dir.B]
    ∧ sel .APP (app (app (var 1) (abs (app (abs (var 1)) (var 1)))) (abs (app (abs (var 1)) (var 1))))
      = some [Dir.L, Dir.R, Dir.B]
    ∧ reduce .HAP 1 9 (app (app (var 1) (abs (app (abs (var 1)) (var 1)))) (abs (app (abs (var 1)) (var 1))))
      = some (app (app (var 1) (abs (app (abs (var 1)) (var 1)))) (abs (var 1)), 1) := by decide
example : isLMI (app (abs (var 1)) (app (abs (var 1)) (var 2))) [Dir.R] ∧ weak [Dir.R] :=
  ⟨(sel_iff .APP _ _).1 (by decide), by simp [weak]⟩

end LC
