/-
C05 — NOR, CBN, APP and CBV contract the redex their documentation names

"Every single step of NOR contracts the leftmost-outermost redex; CBN contracts that same redex
only while it is in head position outside any abstraction; APP contracts the leftmost of the
innermost redexes; CBV contracts the leftmost innermost redex among those not inside an
abstraction. HSP only ever contracts redexes on the head spine (never inside an argument)."

`Spec/Selection.lean` defines the selections purely positionally (quantifying over positions:
`isLMO`, `isLMI`, `isLMIW`, `spineL`, `noArg`), `contractAt` contracts with the independent
textbook substitution `substTop`.  `Proofs/Positions.lean` shows the strategy functions select
exactly those positions; `C04_single_step` (from the refinement theorem) says `reduce o 1`
performs exactly one strategy step (or none).  Together: what the *code* does in one step.
Every further step of a longer run is again such a step (`C04_is_iter`).
-/
import LC.Props.C04
import LC.Proofs.Positions

namespace LC
open Term Spec

/-- NOR: one step contracts the leftmost-outermost redex; no step iff there is no redex -/
theorem C05_nor (fuel : Nat) (t t' : Term) (c : Nat) (h : reduce .NOR 1 fuel t = some (t', c)) :
    (c = 1 ∧ ∃ p, isLMO t p ∧ t' = contractAt t p) ∨ (c = 0 ∧ t' = t ∧ ∀ p, ¬ redexAt t p) := by
  rcases C04_single_step .NOR fuel t t' c h with ⟨hs, hc⟩ | ⟨hs, ht, hc⟩
  · exact Or.inl ⟨hc, (stepNor_positional t).1 t' hs⟩
  · exact Or.inr ⟨hc, ht, (stepNor_positional t).2 hs⟩

/-- CBN: one step contracts the leftmost-outermost redex provided it lies on the operator spine
outside any abstraction; otherwise nothing is contracted -/
theorem C05_cbn (fuel : Nat) (t t' : Term) (c : Nat) (h : reduce .CBN 1 fuel t = some (t', c)) :
    (c = 1 ∧ ∃ p, isLMO t p ∧ spineL p ∧ t' = contractAt t p) ∨
    (c = 0 ∧ t' = t ∧ ∀ p, isLMO t p → ¬ spineL p) := by
  rcases C04_single_step .CBN fuel t t' c h with ⟨hs, hc⟩ | ⟨hs, ht, hc⟩
  · exact Or.inl ⟨hc, (stepCbn_positional t).1 t' hs⟩
  · exact Or.inr ⟨hc, ht, (stepCbn_positional t).2 hs⟩

/-- APP: one step contracts the leftmost of the innermost redexes -/
theorem C05_app (fuel : Nat) (t t' : Term) (c : Nat) (h : reduce .APP 1 fuel t = some (t', c)) :
    (c = 1 ∧ ∃ p, isLMI t p ∧ t' = contractAt t p) ∨ (c = 0 ∧ t' = t ∧ ∀ p, ¬ redexAt t p) := by
  rcases C04_single_step .APP fuel t t' c h with ⟨hs, hc⟩ | ⟨hs, ht, hc⟩
  · exact Or.inl ⟨hc, (stepApp_positional t).1 t' hs⟩
  · exact Or.inr ⟨hc, ht, (stepApp_positional t).2 hs⟩

/-- CBV: one step contracts the leftmost innermost redex among those not inside an abstraction -/
theorem C05_cbv (fuel : Nat) (t t' : Term) (c : Nat) (h : reduce .CBV 1 fuel t = some (t', c)) :
    (c = 1 ∧ ∃ p, isLMIW t p ∧ t' = contractAt t p) ∨
    (c = 0 ∧ t' = t ∧ ∀ p, redexAt t p → ¬ weak p) := by
  rcases C04_single_step .CBV fuel t t' c h with ⟨hs, hc⟩ | ⟨hs, ht, hc⟩
  · exact Or.inl ⟨hc, (stepCbv_positional t).1 t' hs⟩
  · exact Or.inr ⟨hc, ht, (stepCbv_positional t).2 hs⟩

/-- HSP: whatever is contracted lies on the head spine (the position never enters an argument) -/
theorem C05_hsp (fuel : Nat) (t t' : Term) (c : Nat) (h : reduce .HSP 1 fuel t = some (t', c)) :
    (c = 1 ∧ ∃ p, redexAt t p ∧ noArg p ∧ t' = contractAt t p) ∨ (c = 0 ∧ t' = t) := by
  rcases C04_single_step .HSP fuel t t' c h with ⟨hs, hc⟩ | ⟨_, ht, hc⟩
  · exact Or.inl ⟨hc, stepHsp_positional t t' hs⟩
  · exact Or.inr ⟨hc, ht⟩

/-- the selected redex is unique, so "the" leftmost-outermost / leftmost-innermost redex is
well defined -/
theorem C05_selection_unique (t : Term) (p q : Pos) :
    (isLMO t p → isLMO t q → p = q) ∧ (isLMI t p → isLMI t q → p = q) ∧
    (isLMIW t p → isLMIW t q → p = q) :=
  ⟨isLMO_unique, isLMI_unique, isLMIW_unique⟩

/-- every step of a longer run is again such a step: the run is an iteration of the strategy -/
theorem C05_every_step (o : Order) (L fuel : Nat) (t t' : Term) (c : Nat)
    (h : reduce o L fuel t = some (t', c)) : Iter (stepOrd o) c t t' := C04_is_iter o L fuel t t' c h

/-! non-vacuity: on `(λ.1) ((λ.1) 7)` NOR contracts the outer redex, APP the inner one -/
example : reduce .NOR 1 5 (app (abs (var 1)) (app (abs (var 1)) (var 7)))
    = some (app (abs (var 1)) (var 7), 1) := by decide
example : reduce .APP 1 5 (app (abs (var 2)) (app (abs (var 1)) (var 7)))
    = some (app (abs (var 2)) (var 7), 1) := by decide
example : reduce .NOR 1 5 (app (abs (var 2)) (app (abs (var 1)) (var 7))) = some (var 1, 1) := by decide

end LC
