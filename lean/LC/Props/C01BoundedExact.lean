/-
C01 at the representation boundary of indices: the checked traversals are EXACTLY the checked small-step runs, for
every limit (DESIGN §9, repair F7; closes the "not yet proved" block of `Props/C01BoundedTraversal.lean`)

`reduceChk M o limit fuel t` is `Term.reduce o limit fuel t` with `eval` contracting by the checked substitution (a panic
unwinds the whole call); its answers are `ret t' c` (returned), `panic` ("De Bruijn index overflow") and `fuel` (the
MODEL's fuel is exhausted: never an answer of the crate; it is a third constructor of `ChkRes`, so it cannot be confused
with the panic).  With `ht : maxIndex t ≤ M` (the input is representable):

* `C01_checked_reduce_exact`: the checked call returns `(t', c)` IFF the unbounded call returns `(t', c)` and every
  iterate `0 … c` of the strategy from `t` is representable;
* `C01_checked_reduce_exact_panic`: a panic — for ANY fuel, also when the unbounded call would run out of fuel —
  exhibits an iterate within the limit that is not representable;
* `C01_checked_reduce_exact_panic_iff`: when the unbounded call returns `(t', c)`, the checked call panics IFF some iterate
  `j ≤ c` is not representable IFF some iterate within the limit is not representable;
* `C01_checked_reduce_exact_cases`: when the unbounded call returns, the checked answer is never `fuel`: it is the
  unbounded answer or the panic;
* `C01_checked_reduce_exact_never_returns`: with a non-representable iterate within the limit, no fuel makes the checked
  call return;
* `C01_checked_reduce_exact_run`, `…_run_unlimited`: the checked traversal IS the checked run of strategy steps `runChk`
  (`Proofs/BoundedRun.lean`), for limits `≠ 0` and for the unlimited call;
* `C01_checked_reduce_exact_total`: for every positive limit all sufficiently large fuels give the answer of `runChk`;
* `C01_checked_reduce_exact_panics`: every limit: with a non-representable iterate within the limit ALL sufficiently
  large fuels give the panic (also when the strategy's run does not end);
* `C01_checked_reduce_exact_refuses_iff`, `…_returns_iff`, `…_returns_iff_unlimited`: the same without any mention of
  the model's fuel (∃ fuel): the crate's call panics iff some iterate within the limit is not representable; it returns
  iff all of them are (and, for the unlimited call, the run ends);
* `C01_checked_reduce_exact_beta`, `…_beta_panic`: the same for the seven `beta_*` started at any count.
-/
import LC.Proofs.BoundedTraversalRaiseApp
import LC.Props.C01BoundedTraversal

namespace LC
open Term Spec

/-- C01: the checked `reduce` returns `(t', c)` exactly when the unbounded model returns `(t', c)` and all the `c + 1`
terms of the strategy's run are representable -/
theorem C01_checked_reduce_exact (M : Nat) (o : Order) (L fuel : Nat) (t t' : Term) (c : Nat)
    (ht : maxIndex t ≤ M) :
    reduceChk M o L fuel t = .ret t' c ↔
      (reduce o L fuel t = some (t', c) ∧ ∀ j u, j ≤ c → Iter (stepOrd o) j t u → maxIndex u ≤ M) := by
  have := betaOrdChk_ret_iff M o L fuel t 0 t' c ht (by omega)
  simp only [Nat.zero_add] at this
  exact this

-- non-vacuity: `M = 6`, an unlimited NOR call of two contractions through `(λ6) 1`
example : reduceChk 6 .NOR 0 10 (app (app (abs (abs (var 2))) (var 5)) (var 1)) = .ret (var 5) 2 ∧
    reduce .NOR 0 10 (app (app (abs (abs (var 2))) (var 5)) (var 1)) = some (var 5, 2) := by decide

/-- C01: a panic of the checked `reduce`, with any fuel, exhibits a term of the strategy's run within the limit that is
not representable -/
theorem C01_checked_reduce_exact_panic (M : Nat) (o : Order) (L fuel : Nat) (t : Term)
    (ht : maxIndex t ≤ M) (h : reduceChk M o L fuel t = .panic) :
    ∃ j u, (L = 0 ∨ j ≤ L) ∧ Iter (stepOrd o) j t u ∧ M < maxIndex u := by
  have := betaOrdChk_panic M o L fuel t 0 ht (by omega) h
  simp only [Nat.zero_add] at this
  exact this

-- non-vacuity: `M = 5`, the same call is refused; the offending iterate is the first one, `(λ6) 1`
example : reduceChk 5 .NOR 0 10 (app (app (abs (abs (var 2))) (var 5)) (var 1)) = .panic ∧
    Iter (stepOrd .NOR) 1 (app (app (abs (abs (var 2))) (var 5)) (var 1)) (app (abs (var 6)) (var 1)) ∧
    5 < maxIndex (app (abs (var 6)) (var 1)) :=
  ⟨by decide, Iter.one (by decide), by decide⟩

/-- C01: when the unbounded call returns `(t', c)`, the checked call panics exactly when one of the `c + 1` terms of
the run is not representable, equivalently when some iterate within the limit is not representable -/
theorem C01_checked_reduce_exact_panic_iff (M : Nat) (o : Order) (L fuel : Nat) (t t' : Term) (c : Nat)
    (ht : maxIndex t ≤ M) (hr : reduce o L fuel t = some (t', c)) :
    (reduceChk M o L fuel t = .panic ↔ ∃ j u, j ≤ c ∧ Iter (stepOrd o) j t u ∧ M < maxIndex u) ∧
    (reduceChk M o L fuel t = .panic ↔
      ∃ j u, (L = 0 ∨ j ≤ L) ∧ Iter (stepOrd o) j t u ∧ M < maxIndex u) := by
  have := betaOrdChk_panic_iff M o L fuel t 0 t' c ht (by omega) hr
  simp only [Nat.zero_add] at this
  exact this

/-- C01: when the unbounded call returns `(t', c)`, the checked call is decided by the representability of the run: it
returns `(t', c)` if all `c + 1` terms are representable and panics otherwise; it never answers `fuel` -/
theorem C01_checked_reduce_exact_cases (M : Nat) (o : Order) (L fuel : Nat) (t t' : Term) (c : Nat)
    (ht : maxIndex t ≤ M) (hr : reduce o L fuel t = some (t', c)) :
    ((∀ j u, j ≤ c → Iter (stepOrd o) j t u → maxIndex u ≤ M) → reduceChk M o L fuel t = .ret t' c) ∧
    (¬ (∀ j u, j ≤ c → Iter (stepOrd o) j t u → maxIndex u ≤ M) → reduceChk M o L fuel t = .panic) ∧
    reduceChk M o L fuel t ≠ .fuel := by
  refine ⟨fun hall => (C01_checked_reduce_exact M o L fuel t t' c ht).2 ⟨hr, hall⟩, fun hn => ?_, fun hx => ?_⟩
  · cases hx : reduceChk M o L fuel t with
    | panic => rfl
    | fuel =>
      have := (C01_checked_reduce_fuel M o L fuel t ht).1 hx
      rw [hr] at this; cases this
    | ret t2 c2 =>
      obtain ⟨h1, h2⟩ := (C01_checked_reduce_exact M o L fuel t t2 c2 ht).1 hx
      rw [hr] at h1; cases h1
      exact absurd h2 hn
  · have := (C01_checked_reduce_fuel M o L fuel t ht).1 hx
    rw [hr] at this; cases this

/-- C01: if some term of the strategy's run within the limit is not representable, the checked call returns for no
fuel (it panics, or the model's fuel is too small to reach the panic) -/
theorem C01_checked_reduce_exact_never_returns (M : Nat) (o : Order) (L : Nat) (t : Term) (ht : maxIndex t ≤ M)
    (h : ∃ j u, (L = 0 ∨ j ≤ L) ∧ Iter (stepOrd o) j t u ∧ M < maxIndex u) (fuel : Nat) (t' : Term) (c : Nat) :
    reduceChk M o L fuel t ≠ .ret t' c := by
  apply betaOrdChk_not_ret_of_bad M o L fuel t 0 ht (by omega)
  simpa only [Nat.zero_add] using h

/-- C01: for every limit `≠ 0` the checked traversal is the checked run of strategy steps (this is the statement left
open in `Props/C01BoundedTraversal.lean`) -/
theorem C01_checked_reduce_exact_run (M : Nat) (o : Order) (L fuel : Nat) (t : Term) (ht : maxIndex t ≤ M)
    (hL : L ≠ 0) (hf : reduce o L fuel t ≠ none) :
    reduceChk M o L fuel t =
      match runChk M o L t 0 with
      | none => .panic
      | some (t', c) => .ret t' c := by
  cases hr : reduce o L fuel t with
  | none => exact absurd hr hf
  | some p =>
    obtain ⟨t', c⟩ := p
    have B := RL.reduce_brun hL hr
    cases hrun : runChk M o L t 0 with
    | none =>
      simp only []
      obtain ⟨j, u, hj, it, hu⟩ := (runChk_eq_none_iff M o L t 0 ht).1 hrun
      exact (C01_checked_reduce_exact_panic_iff M o L fuel t t' c ht hr).2.2 ⟨j, u, Or.inr hj, it, hu⟩
    | some q =>
      obtain ⟨t2, c2⟩ := q
      simp only []
      obtain ⟨k, e, B2, r⟩ := (runChk_eq_some_iff M o L t 0 ht t2 c2).1 hrun
      obtain ⟨rfl, rfl⟩ := B.unique B2
      have : c2 = k := by omega
      subst this
      exact (C01_checked_reduce_exact M o L fuel t t2 c2 ht).2 ⟨hr, r⟩

-- non-vacuity, `M = 5`, all seven orders, limits 1 … 3, on a term that NOR reduces to `1` and that the applicative
-- orders are refused on; the statement is an equation between two computations, both sides are evaluated
example : ∀ o : Order, ∀ L ∈ [1, 2, 3],
    reduceChk 5 o L 10 (app (abs (var 2)) (app (abs (abs (var 2))) (var 5))) =
      match runChk 5 o L (app (abs (var 2)) (app (abs (abs (var 2))) (var 5))) 0 with
      | none => .panic
      | some (t', c) => .ret t' c := by
  intro o; cases o <;> decide

example : runChk 5 .NOR 3 (app (abs (var 2)) (app (abs (abs (var 2))) (var 5))) 0 = some (var 1, 1) ∧
    runChk 5 .APP 3 (app (abs (var 2)) (app (abs (abs (var 2))) (var 5))) 0 = none ∧
    runChk 5 .NOR 2 (app (app (abs (abs (var 2))) (var 5)) (var 1)) 0 = none ∧
    reduceChk 5 .NOR 2 10 (app (app (abs (abs (var 2))) (var 5)) (var 1)) = .panic ∧
    reduce .NOR 2 10 (app (app (abs (abs (var 2))) (var 5)) (var 1)) = some (var 5, 2) := by decide

/-- C01: the unlimited checked traversal is the checked run of at least as many strategy steps as the unbounded call
performs -/
theorem C01_checked_reduce_exact_run_unlimited (M : Nat) (o : Order) (fuel : Nat) (t t' : Term) (c n : Nat)
    (ht : maxIndex t ≤ M) (hr : reduce o 0 fuel t = some (t', c)) (hn : c ≤ n) :
    reduceChk M o 0 fuel t =
      match runChk M o n t 0 with
      | none => .panic
      | some (t', c) => .ret t' c := by
  have B := (RL.reduce_urun hr).brun hn
  cases hrun : runChk M o n t 0 with
  | none =>
    simp only []
    obtain ⟨j, u, hj, it, hu⟩ := (runChk_eq_none_iff M o n t 0 ht).1 hrun
    exact (C01_checked_reduce_exact_panic_iff M o 0 fuel t t' c ht hr).2.2 ⟨j, u, Or.inl rfl, it, hu⟩
  | some q =>
    obtain ⟨t2, c2⟩ := q
    simp only []
    obtain ⟨k, e, B2, r⟩ := (runChk_eq_some_iff M o n t 0 ht t2 c2).1 hrun
    obtain ⟨rfl, rfl⟩ := B.unique B2
    have : c2 = k := by omega
    subst this
    exact (C01_checked_reduce_exact M o 0 fuel t t2 c2 ht).2 ⟨hr, r⟩

-- non-vacuity: the unlimited call of two contractions, refused for `M = 5`, returned for `M = 6`
example :
    reduce .NOR 0 10 (app (app (abs (abs (var 2))) (var 5)) (var 1)) = some (var 5, 2) ∧
    runChk 5 .NOR 7 (app (app (abs (abs (var 2))) (var 5)) (var 1)) 0 = none ∧
    reduceChk 5 .NOR 0 10 (app (app (abs (abs (var 2))) (var 5)) (var 1)) = .panic ∧
    runChk 6 .NOR 7 (app (app (abs (abs (var 2))) (var 5)) (var 1)) 0 = some (var 5, 2) ∧
    reduceChk 6 .NOR 0 10 (app (app (abs (abs (var 2))) (var 5)) (var 1)) = .ret (var 5) 2 := by decide

/-- C01: for every positive limit, every sufficiently large model fuel makes the checked traversal answer what the
checked run of strategy steps answers (in particular never `fuel`) -/
theorem C01_checked_reduce_exact_total (M : Nat) (o : Order) (L : Nat) (t : Term) (ht : maxIndex t ≤ M)
    (hL : L ≠ 0) :
    ∃ fuel0, ∀ fuel, fuel0 ≤ fuel →
      reduceChk M o L fuel t =
        match runChk M o L t 0 with
        | none => .panic
        | some (t', c) => .ret t' c := by
  obtain ⟨fuel0, r, h0⟩ := reduce_total o L hL t
  refine ⟨fuel0, fun fuel hle => ?_⟩
  have h1 : reduce o L fuel t = some r := betaOrd_mono o L h0 hle
  exact C01_checked_reduce_exact_run M o L fuel t ht hL (by rw [h1]; exact fun h => by cases h)

/-- C01, every limit (0 = unlimited included), completeness in the fuel of the panic: if some term of the strategy's
run within the limit is not representable, the checked call panics for every sufficiently large fuel, also when the
strategy's run from `t` does not end (then the unbounded model call returns for no fuel) -/
theorem C01_checked_reduce_exact_panics (M : Nat) (o : Order) (L : Nat) (t : Term) (ht : maxIndex t ≤ M)
    (h : ∃ j u, (L = 0 ∨ j ≤ L) ∧ Iter (stepOrd o) j t u ∧ M < maxIndex u) :
    ∃ fuel0, ∀ fuel, fuel0 ≤ fuel → reduceChk M o L fuel t = .panic := by
  obtain ⟨j, u, hb, it, hu⟩ := h
  by_cases hL : L = 0
  · subst hL
    have hj : j ≠ 0 := by
      rintro rfl
      cases it
      omega
    obtain ⟨fuel0, hf⟩ := C01_checked_reduce_exact_total M o j t ht hj
    refine ⟨fuel0, fun fuel hle => ?_⟩
    have h1 := hf fuel hle
    rw [(runChk_eq_none_iff M o j t 0 ht).2 ⟨j, u, Nat.le_refl _, it, hu⟩] at h1
    exact (betaOrdChk_raise M o j hj fuel t 0 ht (Nat.zero_le _)).1 h1
  · obtain ⟨fuel0, hf⟩ := C01_checked_reduce_exact_total M o L t ht hL
    refine ⟨fuel0, fun fuel hle => ?_⟩
    rw [hf fuel hle, (runChk_eq_none_iff M o L t 0 ht).2 ⟨j, u, by omega, it, hu⟩]

-- non-vacuity: a term whose NOR run does not end, `(λλ.2 1) 5 Ω → (λ.6 1) Ω → 5 Ω → 5 Ω → …`; with `M = 5` the
-- unlimited call is refused (the unbounded model call returns for no fuel)
example : reduceChk 5 .NOR 0 12
    (app (app (abs (abs (app (var 2) (var 1)))) (var 5))
      (app (abs (app (var 1) (var 1))) (abs (app (var 1) (var 1))))) = .panic ∧
    reduce .NOR 0 12
    (app (app (abs (abs (app (var 2) (var 1)))) (var 5))
      (app (abs (app (var 1) (var 1))) (abs (app (var 1) (var 1))))) = none := by decide

/-- C01, every limit, without any mention of the model's fuel: the crate's call panics (the checked traversal answers
`panic` for some fuel) exactly when some term of the strategy's run within the limit is not representable -/
theorem C01_checked_reduce_exact_refuses_iff (M : Nat) (o : Order) (L : Nat) (t : Term) (ht : maxIndex t ≤ M) :
    (∃ fuel, reduceChk M o L fuel t = .panic) ↔
      ∃ j u, (L = 0 ∨ j ≤ L) ∧ Iter (stepOrd o) j t u ∧ M < maxIndex u := by
  constructor
  · rintro ⟨fuel, h⟩
    exact C01_checked_reduce_exact_panic M o L fuel t ht h
  · intro h
    obtain ⟨fuel0, hf⟩ := C01_checked_reduce_exact_panics M o L t ht h
    exact ⟨fuel0, hf fuel0 (Nat.le_refl _)⟩

/-- C01, limited calls, without any mention of the model's fuel: the crate's call returns (the checked traversal
answers `ret` for some fuel) exactly when every term of the strategy's run within the limit is representable; and what
it returns is the answer of the checked run -/
theorem C01_checked_reduce_exact_returns_iff (M : Nat) (o : Order) (L : Nat) (t : Term) (ht : maxIndex t ≤ M)
    (hL : L ≠ 0) :
    ((∃ fuel t' c, reduceChk M o L fuel t = .ret t' c) ↔
      ∀ j u, j ≤ L → Iter (stepOrd o) j t u → maxIndex u ≤ M) ∧
    (∀ fuel t' c, reduceChk M o L fuel t = .ret t' c → runChk M o L t 0 = some (t', c)) := by
  refine ⟨⟨?_, ?_⟩, ?_⟩
  · rintro ⟨fuel, t', c, h⟩ j u hj it
    by_cases hm : maxIndex u ≤ M
    · exact hm
    · exact absurd h (C01_checked_reduce_exact_never_returns M o L t ht ⟨j, u, Or.inr hj, it, by omega⟩ fuel t' c)
  · intro hall
    obtain ⟨fuel0, hf⟩ := C01_checked_reduce_exact_total M o L t ht hL
    have h0 := hf fuel0 (Nat.le_refl _)
    cases hrun : runChk M o L t 0 with
    | none =>
      obtain ⟨j, u, hj, it, hu⟩ := (runChk_eq_none_iff M o L t 0 ht).1 hrun
      have := hall j u hj it
      omega
    | some q =>
      rw [hrun] at h0
      exact ⟨fuel0, q.1, q.2, h0⟩
  · intro fuel t' c h
    have hr := ((C01_checked_reduce_exact M o L fuel t t' c ht).1 h).1
    have := C01_checked_reduce_exact_run M o L fuel t ht hL (by rw [hr]; exact fun e => by cases e)
    rw [h] at this
    cases hrun : runChk M o L t 0 with
    | none => rw [hrun] at this; cases this
    | some q =>
      obtain ⟨t2, c2⟩ := q
      rw [hrun] at this
      cases this
      rfl

-- non-vacuity (`M = 5`, limit 2): a run within the limit that leaves the representable terms; one that stays inside
example : (∃ j u, j ≤ 2 ∧ Iter (stepOrd .NOR) j (app (app (abs (abs (var 2))) (var 5)) (var 1)) u ∧ 5 < maxIndex u) ∧
    reduceChk 5 .NOR 2 10 (app (app (abs (abs (var 2))) (var 5)) (var 1)) = .panic ∧
    reduceChk 5 .NOR 2 10 (app (app (abs (abs (var 2))) (var 4)) (var 1)) = .ret (var 4) 2 :=
  ⟨⟨1, app (abs (var 6)) (var 1), by omega, Iter.one (by decide), by decide⟩, by decide, by decide⟩

/-- C01, the unlimited call, without any mention of the model's fuel: the crate's call returns `(t', c)` exactly when
the strategy's run from `t` ends in `t'` after `c` steps and every term of the run is representable -/
theorem C01_checked_reduce_exact_returns_iff_unlimited (M : Nat) (o : Order) (t t' : Term) (c : Nat)
    (ht : maxIndex t ≤ M) :
    (∃ fuel, reduceChk M o 0 fuel t = .ret t' c) ↔
      (Iter (stepOrd o) c t t' ∧ stepOrd o t' = none ∧ ∀ j u, Iter (stepOrd o) j t u → maxIndex u ≤ M) := by
  constructor
  · rintro ⟨fuel, h⟩
    obtain ⟨hr, hall⟩ := (C01_checked_reduce_exact M o 0 fuel t t' c ht).1 h
    obtain ⟨it, hn⟩ := RL.reduce_urun hr
    exact ⟨it, hn, fun j u itu => hall j u (RL.iter_le_of_none it hn itu) itu⟩
  · rintro ⟨it, hn, hall⟩
    obtain ⟨fuel, hr⟩ := reduce_complete o 0 c t t' it (fun _ => hn) (fun h => absurd rfl h)
    exact ⟨fuel, (C01_checked_reduce_exact M o 0 fuel t t' c ht).2 ⟨hr, fun j u _ itu => hall j u itu⟩⟩

/-- C01, the seven `beta_*` with checked `eval`, started at any count `c` within the limit: the checked traversal
returns `(t', c')` exactly when the unbounded one does and the `c' - c + 1` terms of the run are representable -/
theorem C01_checked_reduce_exact_beta (M : Nat) (o : Order) (L fuel : Nat) (t : Term) (c : Nat) (t' : Term)
    (c' : Nat) (ht : maxIndex t ≤ M) (hc : L = 0 ∨ c ≤ L) :
    betaOrdChk M o L fuel t c = .ret t' c' ↔
      (betaOrd o L fuel t c = some (t', c') ∧
        ∀ j u, c + j ≤ c' → Iter (stepOrd o) j t u → maxIndex u ≤ M) :=
  betaOrdChk_ret_iff M o L fuel t c t' c' ht hc

/-- C01, the seven `beta_*` with checked `eval`, started at any count `c` within the limit: a panic exhibits a
non-representable iterate within what is left of the limit; and when the unbounded traversal returns `(t', c')` the
checked one panics exactly when one of the `c' - c + 1` terms of the run is not representable -/
theorem C01_checked_reduce_exact_beta_panic (M : Nat) (o : Order) (L fuel : Nat) (t : Term) (c : Nat)
    (ht : maxIndex t ≤ M) (hc : L = 0 ∨ c ≤ L) :
    (betaOrdChk M o L fuel t c = .panic →
      ∃ j u, (L = 0 ∨ c + j ≤ L) ∧ Iter (stepOrd o) j t u ∧ M < maxIndex u) ∧
    (∀ t' c', betaOrd o L fuel t c = some (t', c') →
      (betaOrdChk M o L fuel t c = .panic ↔
        ∃ j u, c + j ≤ c' ∧ Iter (stepOrd o) j t u ∧ M < maxIndex u)) :=
  ⟨betaOrdChk_panic M o L fuel t c ht hc,
   fun t' c' hy => (betaOrdChk_panic_iff M o L fuel t c t' c' ht hc hy).1⟩

-- non-vacuity: `beta_hap` entered at count 1 under limit 2 (`M = 5`): one contraction is left, it is refused
example : betaOrdChk 5 .HAP 2 10 (app (abs (abs (var 2))) (var 5)) 1 = .panic ∧
    betaOrd .HAP 2 10 (app (abs (abs (var 2))) (var 5)) 1 = some (abs (var 6), 2) ∧
    betaOrdChk 5 .HAP 2 10 (app (abs (abs (var 2))) (var 5)) 2 = .ret (app (abs (abs (var 2))) (var 5)) 2 := by
  decide

end LC
