/-
C09, cursor model — review remark K1 closed: the loop heads ACTUALLY visited.

`LC/Props/C09Cursor.lean` proves the cursor invariants for the states of the relations `ConvLoopAt` / `AstLoopAt`
("some activation is at its loop head with these values"), which are hand-written transition systems; that these
are the states the functions `convLoopC` / `astLoopC` really go through rested on reading their constructors against
the recursive calls.  `LC/Proofs/Syntax/CursorTrace.lean` instruments the two loops: `convLoopT` / `astLoopT` are the
same recursions which also return the list of the loop-head states they visit (also when the run fails).  Proved here:

* `C09_cursor_trace_erase`      forgetting the trace gives back `convLoopC` / `astLoopC` / `convertCur` / `getAstCur`
                                EXACTLY (every fuel, every state);
* `C09_cursor_trace_sound`      every state in the trace of `convert_classic_tokens(tokens)` / `get_ast(tokens)`
                                satisfies `ConvLoopAt` / `AstLoopAt`; `…_sound_from`: the same for a run of the loops
                                from ANY state satisfying the relation, with ANY fuel;
* `C09_cursor_trace_exact`      and conversely: the relations are EXACTLY the sets of visited loop heads;
* `C09_cursor_trace_pos_le`     hence at every loop head actually visited: `inner_stack_count ≤ stack.len()`,
                                `*pos ≤ 2 * tokens.len()`, a recursive call is entered with `pos + 1 ≤ tokens.len()`
                                (`_convert_classic_tokens`), and `*pos ≤ tokens.len()` (`_get_ast`).

DEVIATION from the task text ("hence `pos ≤ tokens.length` at every loop head actually visited"): for
`_convert_classic_tokens` that bound is FALSE (the FINDING of C09Cursor.lean): `C09_cursor_trace_pos_overshoot` exhibits
a visited loop head with `*pos = tokens.len() + 1`.  What holds is `≤ 2 * tokens.len()`, and `≤ tokens.len()` for `_get_ast`.
-/
import LC.Proofs.Syntax.CursorTrace
import LC.Props.C09Cursor

namespace LC
open Term Parser Cursor

/-- C09 (cursor trace): the instrumented loops ARE the cursor loops — erasing the trace (first component) gives
back `convLoopC`, `astLoopC`, `convertCur`, `getAstCur` exactly, for every fuel and every state -/
theorem C09_cursor_trace_erase (cts : List CToken) (toks : List Token) (fuel : Nat)
    (stack : List (List Nat)) (pos : Nat) (output : List Token) (inner : Nat) (nested : Bool)
    (expr : List Expression) :
    (convLoopT cts fuel stack pos output inner).2 = convLoopC cts fuel stack pos output inner ∧
    (astLoopT toks fuel pos nested expr).2 = astLoopC toks fuel pos nested expr ∧
    (convertCurT cts).2 = convertCur cts ∧
    (getAstCurT toks).2 = getAstCur toks :=
  ⟨convLoopT_erase cts fuel stack pos output inner, astLoopT_erase toks fuel pos nested expr,
    convertCurT_erase cts, getAstCurT_erase toks⟩

/-- the trace is not empty by construction: with fuel it starts with the state the loop is entered in (and every
recursive invocation records its own start state the same way) -/
theorem C09_cursor_trace_head (cts : List CToken) (toks : List Token) (fuel : Nat)
    (stack : List (List Nat)) (pos : Nat) (output : List Token) (inner : Nat) (nested : Bool)
    (expr : List Expression) :
    (convLoopT cts (fuel + 1) stack pos output inner).1.head? = some ⟨stack, pos, output, inner⟩ ∧
    (astLoopT toks (fuel + 1) pos nested expr).1.head? = some ⟨pos, nested, expr⟩ := by
  obtain ⟨tr, h⟩ := convLoopT_head cts fuel stack pos output inner
  obtain ⟨tr', h'⟩ := astLoopT_head toks fuel pos nested expr
  rw [h, h']; exact ⟨rfl, rfl⟩

/-- `λx.(x y) y`: the seven loop heads of the run, in order — the top-level activation at 0, 1, the callee at 2, 3, 4
(where it returns at the `)`), the caller again at 5, 6 — and the result -/
example : convertCurT [.CLambda [120], .CLparen, .CName [120], .CName [121], .CRparen, .CName [121]] =
    ([⟨[], 0, [], 0⟩, ⟨[[120]], 1, [.Lambda], 1⟩,
      ⟨[[120]], 2, [], 0⟩, ⟨[[120]], 3, [.Number 1], 0⟩, ⟨[[121], [120]], 4, [.Number 1, .Number 2], 0⟩,
      ⟨[[121], [120]], 5, [.Lambda, .Lparen, .Number 1, .Number 2, .Rparen], 1⟩,
      ⟨[[121], [120]], 6, [.Lambda, .Lparen, .Number 1, .Number 2, .Rparen, .Number 2], 1⟩],
     some [.Lambda, .Lparen, .Number 1, .Number 2, .Rparen, .Number 2]) := by decide +kernel

example : getAstCurT [.Lparen, .Number 1, .Rparen, .Lambda] =
    ([⟨0, false, []⟩, ⟨1, true, []⟩, ⟨2, true, [.Variable 1]⟩,
      ⟨3, false, [.Sequence [.Variable 1]]⟩, ⟨4, false, [.Sequence [.Variable 1], .Abstraction]⟩],
     some (.ok (.Sequence [.Sequence [.Variable 1], .Abstraction]))) := rfl

/-- C09 (cursor trace), SOUNDNESS of the reachability relations: every loop head visited while
`convert_classic_tokens(cts)` runs satisfies `ConvLoopAt cts`, every loop head visited while `get_ast(toks)` runs
satisfies `AstLoopAt toks` -/
theorem C09_cursor_trace_sound (cts : List CToken) (toks : List Token) :
    (∀ st ∈ (convertCurT cts).1, ConvLoopAt cts st.stack st.pos st.output st.inner) ∧
    (∀ st ∈ (getAstCurT toks).1, AstLoopAt toks st.pos st.nested st.expr) := by
  constructor
  · intro st hst
    unfold convertCurT at hst
    cases hs : subChk cts.length 0 with
    | none => simp [hs] at hst
    | some c =>
      simp only [hs] at hst
      exact convLoopT_sound cts _ [] 0 [] 0 .top st hst
  · intro st hst
    unfold getAstCurT at hst
    cases he : toks.isEmpty with
    | true => simp [he] at hst
    | false =>
      simp only [he, Bool.false_eq_true, if_false] at hst
      exact astLoopT_sound toks _ 0 false [] .top st hst

/-- non-vacuity: the trace of `x ( y` contains the caller's loop head after the callee ran into the end of the
input, and `C09_cursor_trace_sound` gives `ConvLoopAt` for it -/
example : ConvLoopAt [.CName [120], .CLparen, .CName [121]] [[121], [120]] 4
    [.Number 1, .Lparen, .Number 2] 0 :=
  (C09_cursor_trace_sound [.CName [120], .CLparen, .CName [121]] []).1
    ⟨[[121], [120]], 4, [.Number 1, .Lparen, .Number 2], 0⟩ (by decide +kernel)

/-- C09 (cursor trace), soundness for a run of the loops from ANY state that satisfies the relation, with ANY fuel
(also a run that fails or runs out of fuel only visits such states) -/
theorem C09_cursor_trace_sound_from (cts : List CToken) (toks : List Token) (fuel : Nat) :
    (∀ stack pos output inner, ConvLoopAt cts stack pos output inner →
      ∀ st ∈ (convLoopT cts fuel stack pos output inner).1,
        ConvLoopAt cts st.stack st.pos st.output st.inner) ∧
    (∀ pos nested expr, AstLoopAt toks pos nested expr →
      ∀ st ∈ (astLoopT toks fuel pos nested expr).1, AstLoopAt toks st.pos st.nested st.expr) :=
  ⟨convLoopT_sound cts fuel, astLoopT_sound toks fuel⟩

/-- C09 (cursor trace), the relations are EXACT: a state satisfies `ConvLoopAt cts` / `AstLoopAt toks` if and only
if it is one of the loop heads visited by `convert_classic_tokens(cts)` / `get_ast(toks)` (for `get_ast` on a
non-empty token slice: on an empty one `_get_ast` returns before its loop, while `AstLoopAt [] 0 false []` holds) -/
theorem C09_cursor_trace_exact (cts : List CToken) (toks : List Token) :
    (∀ st : ConvHead, st ∈ (convertCurT cts).1 ↔ ConvLoopAt cts st.stack st.pos st.output st.inner) ∧
    (toks ≠ [] →
      ∀ st : AstHead, st ∈ (getAstCurT toks).1 ↔ AstLoopAt toks st.pos st.nested st.expr) := by
  constructor
  · intro st
    have hs : subChk cts.length 0 = some cts.length := rfl
    unfold convertCurT
    simp only [hs]
    exact convLoopT_trace_iff cts st
  · intro hne st
    have he : toks.isEmpty = false := by
      cases toks with
      | nil => exact absurd rfl hne
      | cons _ _ => rfl
    unfold getAstCurT
    simp only [he, Bool.false_eq_true, if_false]
    exact astLoopT_trace_iff toks st

/-- the side condition of the second part is needed -/
example : (getAstCurT []).1 = [] ∧ AstLoopAt [] 0 false [] := ⟨rfl, .top⟩

/-- non-vacuity of the converse direction: a derivation of `AstLoopAt` gives membership in the trace -/
example : (⟨3, false, [.Sequence [.Variable 1]]⟩ : AstHead) ∈
    (getAstCurT [.Lparen, .Number 1, .Rparen, .Lambda]).1 :=
  ((C09_cursor_trace_exact [] [.Lparen, .Number 1, .Rparen, .Lambda]).2 (by simp) _).2
    (.back (fuel := 4) .top rfl rfl)

/-- C09 (cursor trace), the cursor bounds at every loop head ACTUALLY visited.
`_convert_classic_tokens`: `inner_stack_count ≤ stack.len()` (the subtraction at a `)` cannot underflow),
`*pos ≤ 2 * tokens.len()`, and a loop head that is about to make the recursive call (`tokens[pos] = (`) enters the
callee with `pos + 1 ≤ tokens.len()` (so `tokens.len() - *pos` cannot underflow).
`_get_ast`: `*pos ≤ tokens.len()`. -/
theorem C09_cursor_trace_pos_le (cts : List CToken) (toks : List Token) :
    (∀ st ∈ (convertCurT cts).1,
      st.inner ≤ st.stack.length ∧ st.pos ≤ 2 * cts.length ∧
      (cts[st.pos]? = some .CLparen → st.pos + 1 ≤ cts.length)) ∧
    (∀ st ∈ (getAstCurT toks).1,
      st.pos ≤ toks.length ∧ (toks[st.pos]? = some .Lparen → st.pos + 1 ≤ toks.length)) := by
  obtain ⟨h1, h2⟩ := C09_cursor_trace_sound cts toks
  constructor
  · intro st hst
    have h := C09_cursor_pos_le_reached_conv cts st.stack st.pos st.output st.inner (h1 st hst)
    exact ⟨h.1, h.2.1, fun ht => (h.2.2 ht).1⟩
  · intro st hst
    exact C09_cursor_pos_le_reached_ast toks st.pos st.nested st.expr (h2 st hst)

/-- `*pos ≤ tokens.len()` is NOT a bound for the loop heads of `_convert_classic_tokens`: `convert_classic_tokens` of
one unclosed `(` visits the loop heads 0, 1 (the callee, which runs into the end) and 2 `= tokens.len() + 1` (the
caller after its `*pos += 1`) -/
theorem C09_cursor_trace_pos_overshoot :
    convertCurT [.CLparen] = ([⟨[], 0, [], 0⟩, ⟨[], 1, [], 0⟩, ⟨[], 2, [.Lparen], 0⟩], some [.Lparen]) ∧
    ∃ st ∈ (convertCurT [.CLparen]).1, [CToken.CLparen].length < st.pos := by
  refine ⟨by decide +kernel, ⟨[], 2, [.Lparen], 0⟩, by decide +kernel, by decide⟩

end LC
