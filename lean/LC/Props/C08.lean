/-
C08 — Reduction never invents variables: closed terms stay closed, UD stays UD

"For every term, order and limit, and for apply, every free variable of the result denotes a
free variable of the input (of the abstraction or the argument, for apply): the set of outer
references can shrink but never grow or be renumbered. In particular closed terms stay closed,
and index 0 (UD) appears in the result only if it appeared in the input and is never shifted,
substituted for, or captured."

`Spec.FreeIn j t` ("some occurrence in `t` refers to the `j`-th binder outside `t`", `j ≥ 1`) and
`Spec.hasUD` are defined in `LC/Spec/FreeVars.lean`; the same `j` on both sides of the
implications below is the "never renumbered" clause.  The invariants are proved for one β-step in
`LC/Proofs/FreeVars.lean` and transported along `reduce_sound`.
-/
import LC.Proofs.ReduceLemmas
import LC.Proofs.FreeVars
import LC.Props.C06
import LC.Props.C02

namespace LC
open Term Spec

/-- C08, `apply`: a free variable of the result is the same free variable of the abstraction or
of the argument -/
theorem C08_apply (j : Nat) (b a r : Term) (h : Term.apply (abs b) a = .ok r) (hf : FreeIn j r) :
    FreeIn j (abs b) ∨ FreeIn j a := by
  simp only [Term.apply, Except.ok.injEq] at h
  subst h
  have : applyAux a 1 b = substTop b a := by rw [substTop_eq]; rfl
  rw [this] at hf
  exact freeIn_substTop hf

/-- C08, `apply`: UD occurs in the result only if it occurred in the body or the argument -/
theorem C08_apply_ud (b a r : Term) (h : Term.apply (abs b) a = .ok r) (hu : hasUD r = true) :
    hasUD b = true ∨ hasUD a = true := by
  simp only [Term.apply, Except.ok.injEq] at h
  subst h
  exact hasUD_applyAux a 1 (by omega) b hu

-- (λ. 1 3 0).apply(2 0): the bound variable is replaced, outer 3 becomes 2 = the argument's 2, UD stays
example : Term.apply (abs (app (app (var 1) (var 3)) (var 0))) (app (var 2) (var 0))
    = .ok (app (app (app (var 2) (var 0)) (var 2)) (var 0)) := rfl
example : FreeIn 2 (app (app (app (var 2) (var 0)) (var 2)) (var 0)) ∧
    FreeIn 2 (abs (app (app (var 1) (var 3)) (var 0))) ∧ FreeIn 2 (app (var 2) (var 0)) ∧
    ¬ FreeIn 1 (app (app (app (var 2) (var 0)) (var 2)) (var 0)) := by
  simp [FreeIn, freeInAux]

/-- C08, UD is never SHIFTED: `update_free_variables` leaves index 0 alone at every depth, for every shift amount -/
theorem C08_ud_not_shifted (added own : Nat) : shiftFV added own (var 0) = var 0 := by
  simp [shiftFV]

/-- C08, UD is never SUBSTITUTED FOR and never renumbered: `_apply` (at every depth ≥ 1, the only depths at which it
runs on a body) leaves index 0 alone -/
theorem C08_ud_not_substituted (rhs : Term) (depth : Nat) (hd : 1 ≤ depth) : applyAux rhs depth (var 0) = var 0 := by
  have h1 : ¬ (0 = depth) := by omega
  have h2 : ¬ (0 > depth) := by omega
  simp [applyAux, h1, h2]

/-- C08, positional form: every occurrence of UD in the body of an abstraction is an occurrence of UD at the SAME position
of the result of `apply`, under the same number of binders (so it is not captured either), whatever the argument is -/
theorem C08_ud_occurrences_kept (b a : Term) (p : Pos) (k : Nat) (h : subAt b p = some (var 0, k)) :
    subAt (substTop b a) p = some (var 0, k) :=
  (C02_occurrencewise b a p 0 k h).1 (Nat.zero_le k)

/-- C08: one β-step creates no free variable and renumbers none -/
theorem C08_step (j : Nat) (t u : Term) (hb : Beta t u) (hf : FreeIn j u) : FreeIn j t :=
  freeIn_beta hb hf

/-- C08: one β-step creates no UD -/
theorem C08_step_ud (t u : Term) (hb : Beta t u) (hu : hasUD u = true) : hasUD t = true :=
  hasUD_beta hb hu

/-- C08, `reduce`: every free variable of the result is the same free variable of the input, and
UD occurs in the result only if it occurred in the input -/
theorem C08_reduce (o : Order) (L fuel : Nat) (t t' : Term) (c : Nat)
    (h : reduce o L fuel t = some (t', c)) :
    (∀ j, FreeIn j t' → FreeIn j t) ∧ (hasUD t' = true → hasUD t = true) :=
  ⟨fun _ hf => freeIn_star (RL.reduce_star h) hf, fun hu => hasUD_star (RL.reduce_star h) hu⟩

-- (λx. λy. x v₂) v₂ → λy. v₂ v₂ (v₂ = outer reference number 2; it is written `var 4` under two
-- binders, `var 3` under one, `var 2` under none): reference number 2 before and after, no other.
-- The set can shrink: (λx. v₄) v₂ → v₄ loses reference number 2 and keeps number 4.
example : reduce .NOR 0 10 (app (abs (abs (app (var 2) (var 4)))) (var 2))
    = some (abs (app (var 3) (var 3)), 1) := by decide
example : FreeIn 2 (abs (app (var 3) (var 3))) ∧ ¬ FreeIn 1 (abs (app (var 3) (var 3))) ∧
    FreeIn 2 (app (abs (abs (app (var 2) (var 4)))) (var 2)) := by
  simp [FreeIn, freeInAux]
example : reduce .NOR 0 10 (app (abs (var 5)) (var 2)) = some (var 4, 1) := by decide
example : FreeIn 2 (app (abs (var 5)) (var 2)) ∧ ¬ FreeIn 2 (var 4) ∧
    FreeIn 4 (app (abs (var 5)) (var 2)) ∧ FreeIn 4 (var 4) := by
  simp [FreeIn, freeInAux]

/-- C08: closed terms (no free variable, no UD — the crate's `has_free_variables` is false) stay closed -/
theorem C08_closed (o : Order) (L fuel : Nat) (t t' : Term) (c : Nat)
    (h : reduce o L fuel t = some (t', c)) (hc : hasFreeVariables t = false) :
    hasFreeVariables t' = false :=
  closed_star (RL.reduce_star h) hc

example : hasFreeVariables (app (abs (app (var 1) (var 1))) (abs (var 1))) = false ∧
    reduce .CBV 0 10 (app (abs (app (var 1) (var 1))) (abs (var 1))) = some (abs (var 1), 2) := by
  decide

/-- C08, `apply`: closed stays closed — an abstraction without free variables (and without UD) applied to such an
argument leaves such a term -/
theorem C08_apply_closed (b a r : Term) (h : Term.apply (abs b) a = .ok r)
    (hb : hasFreeVariables (abs b) = false) (ha : hasFreeVariables a = false) : hasFreeVariables r = false := by
  rw [C02_apply_abs] at h
  cases h
  have hc : hasFreeVariables (app (abs b) a) = false := by
    simp only [hasFreeVariables, hasFreeVariablesHelper, Bool.or_eq_false_iff] at hb ha ⊢
    exact ⟨hb, ha⟩
  exact closed_star (Star.head (Beta.red b a) (Star.refl _)) hc

/-- C08: the crate's `has_free_variables` is "some free variable or UD occurs" -/
theorem C08_hasFreeVariables_iff (t : Term) :
    hasFreeVariables t = true ↔ ((∃ j, FreeIn j t) ∨ hasUD t = true) :=
  hasFreeVariables_iff t

/-- C08, `beta`: the same for the free function -/
theorem C08_beta (o : Order) (L fuel : Nat) (t t' : Term) (h : beta t o L fuel = some t') :
    (∀ j, FreeIn j t' → FreeIn j t) ∧ (hasUD t' = true → hasUD t = true) ∧
    (hasFreeVariables t = false → hasFreeVariables t' = false) := by
  simp only [beta] at h
  cases hr : reduce o L fuel t with
  | none => rw [hr] at h; cases h
  | some p =>
    obtain ⟨u, c⟩ := p
    rw [hr] at h
    simp only [Option.map_some, Option.some.injEq] at h
    subst h
    exact ⟨(C08_reduce o L fuel t u c hr).1, (C08_reduce o L fuel t u c hr).2,
      C08_closed o L fuel t u c hr⟩

/-- C08 for any history of reduce calls (arbitrary orders, limits) -/
theorem C08_history (h : List (Order × Nat × Nat)) (t th : Term) (r : runHistory h t = some th) :
    (∀ j, FreeIn j th → FreeIn j t) ∧ (hasUD th = true → hasUD t = true) ∧
    (hasFreeVariables t = false → hasFreeVariables th = false) := by
  have hs := runHistory_star h t th r
  exact ⟨fun _ hf => freeIn_star hs hf, fun hu => hasUD_star hs hu, fun hc => closed_star hs hc⟩

example : runHistory [(.CBN, 1, 10), (.APP, 0, 10)] (app (abs (abs (app (var 2) (var 0)))) (var 3))
    = some (abs (app (var 4) (var 0))) := by decide

end LC
