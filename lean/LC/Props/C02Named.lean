/-
C02 — adequacy of `Term::apply` against a NAMED λ-calculus with capture-avoiding substitution

"For every abstraction and every argument term, apply leaves exactly the abstraction body with the argument
substituted for the bound variable: the argument's free variables still refer to the same outer binders at every
occurrence, other outer references of the body are renumbered to account for the removed binder …"
(quantifier: "a named-variable alpha-renaming oracle").

`LC/Props/C02.lean` ties the model's `apply` to the De Bruijn specification `substTop`.  This file ties `substTop`
(hence `apply`) to the textbook NAMED presentation: named terms `NTerm` (names are naturals, `ud` is the placeholder),
the translation `toDB Γ` under a context of binder names, and the capture-avoiding substitution `csubst`, which renames
a binder that would capture a free name of the argument to a fresh name (definitions in `LC/Proofs/Named.lean`).
α-equivalence of named terms under `Γ` is `toDB Γ M = toDB Γ M'`.

    toDB Γ (csubst M x N) = substTop (toDB (x :: Γ) M) (toDB Γ N)          for ALL M, N, x, Γ

and `toDB []` is onto the De Bruijn terms (`fromDB`), so the statement covers every receiver and argument the crate
can be handed.
-/
import LC.Props.C02
import LC.Proofs.Named
import LC.Proofs.NamedInv

namespace LC
open Spec Named

/-! ### the translation, as described: first occurrence in the context, else a distinct outer reference -/

/-- a name bound by the context translates to the position of its FIRST (innermost) occurrence, plus one -/
theorem C02_named_toDB_bound (Γ : List Nat) (x : Nat) (h : x ∈ Γ) :
    toDB Γ (.var x) = Term.var (Γ.idxOf x + 1) ∧ Γ.idxOf x < Γ.length ∧ Γ[Γ.idxOf x]? = some x ∧
      ∀ j, j < Γ.idxOf x → Γ[j]? ≠ some x := by
  have hlt : Γ.idxOf x < Γ.length := List.idxOf_lt_length_iff.mpr h
  refine ⟨by simp [toDB, ix, h], hlt, ?_, ?_⟩
  · induction Γ with
    | nil => simp at h
    | cons y Γ ih =>
      by_cases e : y = x
      · simp [e]
      · have hm : x ∈ Γ := by
          have e' : ¬ x = y := fun e'' => e e''.symm
          simpa [e'] using h
        have e2 : (y == x) = false := by simp [e]
        simp only [List.idxOf_cons, e2, cond_false, List.getElem?_cons_succ]
        exact ih hm (List.idxOf_lt_length_iff.mpr hm)
  · induction Γ with
    | nil => simp at h
    | cons y Γ ih =>
      intro j hj
      by_cases e : y = x
      · simp [e] at hj
      · have hm : x ∈ Γ := by
          have e' : ¬ x = y := fun e'' => e e''.symm
          simpa [e'] using h
        have e2 : (y == x) = false := by simp [e]
        simp only [List.idxOf_cons, e2, cond_false] at hj
        cases j with
        | zero => simp [e]
        | succ j =>
          simp only [List.getElem?_cons_succ]
          exact ih hm (List.idxOf_lt_length_iff.mpr hm) j (by omega)

/-- a name that the context does not bind is the outer reference `Γ.length + x + 1`: it points above all of `Γ`, and
distinct free names are distinct references -/
theorem C02_named_toDB_free (Γ : List Nat) (x : Nat) (h : x ∉ Γ) :
    toDB Γ (.var x) = Term.var (Γ.length + x + 1) := by
  simp [toDB, ix, h]

/-- the placeholder, binders and applications -/
theorem C02_named_toDB_struct (Γ : List Nat) (x : Nat) (b l r : NTerm) :
    toDB Γ .ud = Term.var 0 ∧ toDB Γ (.lam x b) = Term.abs (toDB (x :: Γ) b) ∧
      toDB Γ (.app l r) = Term.app (toDB Γ l) (toDB Γ r) := ⟨rfl, rfl, rfl⟩

example : toDB [7, 5, 7] (.app (.app (.var 7) (.var 5)) (.var 2)) = Term.app (Term.app (Term.var 1) (Term.var 2)) (Term.var 6) := by
  decide +kernel

/-! ### `csubst` satisfies the textbook equations of capture-avoiding substitution -/

theorem C02_named_csubst_var (y x : Nat) (N : NTerm) : csubst (.var y) x N = if y = x then N else .var y := rfl

theorem C02_named_csubst_ud (x : Nat) (N : NTerm) : csubst .ud x N = .ud := rfl

theorem C02_named_csubst_app (l r : NTerm) (x : Nat) (N : NTerm) :
    csubst (.app l r) x N = .app (csubst l x N) (csubst r x N) := by
  simp only [csubst, size, csubstF]
  rw [csubstF_fuel (size l + size r) (size l) l N x (by omega) (Nat.le_refl _),
    csubstF_fuel (size l + size r) (size r) r N x (by omega) (Nat.le_refl _)]

/-- the binder case: stop at a binder of `x`; rename a binder that is free in `N` to the fresh name
`fresh x N b` (larger than `x` and every name of `N` and `b`) before going on; otherwise just go on -/
theorem C02_named_csubst_lam (y : Nat) (b : NTerm) (x : Nat) (N : NTerm) :
    csubst (.lam y b) x N =
      if y = x then .lam y b
      else if y ∈ fv N then .lam (fresh x N b) (csubst (nsubst b y (.var (fresh x N b))) x N)
      else .lam y (csubst b x N) := by
  simp only [csubst, size, csubstF, size_rename]

/-- the fresh name is different from `x` and occurs neither in `N` (free) nor in `b` (free or binding) -/
theorem C02_named_fresh (x : Nat) (N b : NTerm) :
    fresh x N b ≠ x ∧ fresh x N b ∉ fv N ∧ fresh x N b ∉ fv b ∧ fresh x N b ∉ bv b :=
  ⟨fresh_ne x N b, fresh_not_fv_arg x N b, fresh_not_fv_body x N b, fresh_not_bv_body x N b⟩

example : csubst (.lam 1 (.app (.var 0) (.var 1))) 0 (.var 1) = .lam 2 (.app (.var 1) (.var 2)) := by decide +kernel

/-! ### α-equivalence sanity -/

/-- renaming a bound variable to a name that does not occur in the body preserves the translation, under every
context: `λy. b` and `λz. b[y := z]` are α-equivalent -/
theorem C02_named_alpha_rename (Γ : List Nat) (y z : Nat) (b : NTerm) (hzf : z ∉ fv b) (hzb : z ∉ bv b) :
    toDB Γ (.lam z (nsubst b y (.var z))) = toDB Γ (.lam y b) := by
  simp only [toDB]; congr 1
  exact toDB_rename b y z [] Γ (by simp) (by simp) hzf hzb

example : toDB [4] (.lam 9 (nsubst (.app (.var 3) (.lam 3 (.app (.var 3) (.var 4)))) 3 (.var 9)))
    = toDB [4] (.lam 3 (.app (.var 3) (.lam 3 (.app (.var 3) (.var 4))))) := by decide +kernel

/-- without freshness the renaming is NOT an α-equivalence (so the hypotheses above are not idle) -/
example : toDB [] (.lam 4 (nsubst (.app (.var 3) (.var 4)) 3 (.var 4))) ≠ toDB [] (.lam 3 (.app (.var 3) (.var 4))) := by
  decide +kernel

/-- the translation depends only on the indices of the FREE names -/
theorem C02_named_toDB_congr (M : NTerm) (Γ₁ Γ₂ : List Nat)
    (h : ∀ v ∈ fv M, toDB Γ₁ (.var v) = toDB Γ₂ (.var v)) : toDB Γ₁ M = toDB Γ₂ M := by
  apply toDB_congr
  intro v hv
  have := h v hv
  simpa [toDB] using this

example : toDB [1, 2] (.lam 2 (.app (.var 1) (.var 2))) = toDB [1, 3] (.lam 2 (.app (.var 1) (.var 2))) :=
  C02_named_toDB_congr _ _ _ (by decide +kernel)

/-! ### THE MAIN THEOREM -/

/-- C02, named adequacy: capture-avoiding substitution of the named calculus, translated, IS the De Bruijn
`substTop` of the translations — for all named terms `M`, `N` (open, with shadowing, with `ud`), names `x` and
contexts `Γ`.  The body lives under `x :: Γ`: its references to `Γ` and beyond are one higher than in the result,
which is the renumbering `apply` undoes; the argument lives under `Γ` and is raised at each occurrence by the
number of binders of `M` passed. -/
theorem C02_named_adequacy (Γ : List Nat) (M : NTerm) (x : Nat) (N : NTerm) :
    toDB Γ (csubst M x N) = substTop (toDB (x :: Γ) M) (toDB Γ N) := by
  rw [← contract_eq_substTop]
  have := csubstF_adequate_aux (size M) M N x [] Γ (Nat.le_refl _) (by simp) (by simp)
  simpa [Term.contract, csubst] using this.symm

/-- C02, named adequacy for the crate's operation: applying the translation of `λx. M` to the translation of `N`
succeeds and leaves the translation of `M[x := N]` -/
theorem C02_named_apply (Γ : List Nat) (M : NTerm) (x : Nat) (N : NTerm) :
    Term.apply (toDB Γ (.lam x M)) (toDB Γ N) = .ok (toDB Γ (csubst M x N)) := by
  rw [C02_named_adequacy]; exact C02_apply_abs _ _

/-- through `&mut self` -/
theorem C02_named_applyMut (Γ : List Nat) (M : NTerm) (x : Nat) (N : NTerm) :
    Term.applyMut (toDB Γ (.lam x M)) (toDB Γ N) = (toDB Γ (csubst M x N), .ok ()) := by
  rw [C02_named_adequacy]; exact C02_applyMut_abs _ _

/-- substitution respects α-equivalence in both arguments (a consequence of adequacy) -/
theorem C02_named_csubst_alpha (Γ : List Nat) (M M' : NTerm) (x x' : Nat) (N N' : NTerm)
    (hM : toDB Γ (.lam x M) = toDB Γ (.lam x' M')) (hN : toDB Γ N = toDB Γ N') :
    toDB Γ (csubst M x N) = toDB Γ (csubst M' x' N') := by
  simp only [toDB, Term.abs.injEq] at hM
  rw [C02_named_adequacy, C02_named_adequacy, hM, hN]

/-! non-vacuity: the capture situation `(λy. x y z)[x := y]` with `x = 0, y = 1, z = 2`: the binder `y` is renamed to
the fresh name `3`; the translation of the result, the specification and the model's `apply` on the translations
agree; NAIVE substitution captures `y` and gives a different (not α-equivalent) term. -/
example : csubst (.lam 1 (.app (.app (.var 0) (.var 1)) (.var 2))) 0 (.var 1)
    = .lam 3 (.app (.app (.var 1) (.var 3)) (.var 2)) := by decide +kernel
example : toDB [] (csubst (.lam 1 (.app (.app (.var 0) (.var 1)) (.var 2))) 0 (.var 1))
    = Term.abs (Term.app (Term.app (Term.var 3) (Term.var 1)) (Term.var 4)) := by decide +kernel
example : toDB [] (.lam 0 (.lam 1 (.app (.app (.var 0) (.var 1)) (.var 2))))
    = Term.abs (Term.abs (Term.app (Term.app (Term.var 2) (Term.var 1)) (Term.var 5))) ∧
    toDB [] (.var 1) = Term.var 2 := by decide +kernel
example : Term.apply (Term.abs (Term.abs (Term.app (Term.app (Term.var 2) (Term.var 1)) (Term.var 5)))) (Term.var 2)
    = .ok (Term.abs (Term.app (Term.app (Term.var 3) (Term.var 1)) (Term.var 4))) := by rfl
example : nsubst (.lam 1 (.app (.app (.var 0) (.var 1)) (.var 2))) 0 (.var 1)
    = .lam 1 (.app (.app (.var 1) (.var 1)) (.var 2)) ∧
    toDB [] (nsubst (.lam 1 (.app (.app (.var 0) (.var 1)) (.var 2))) 0 (.var 1))
      ≠ toDB [] (csubst (.lam 1 (.app (.app (.var 0) (.var 1)) (.var 2))) 0 (.var 1)) := by decide +kernel
/-- an instance with a non-empty context, shadowing (`λ0` inside a body that substitutes for `0`), a nested capture
and `ud`: `(λ5. (λ0. 0) (λ6. 0 5 6 ud 9))[0 := 5 6]` under `Γ = [6, 5]` -/
example : Term.apply (toDB [6, 5] (.lam 0 (.lam 5 (.app (.lam 0 (.var 0))
      (.lam 6 (.app (.app (.app (.app (.var 0) (.var 5)) (.var 6)) .ud) (.var 9)))))))
      (toDB [6, 5] (.app (.var 5) (.var 6)))
    = .ok (toDB [6, 5] (.lam 10 (.app (.lam 0 (.var 0))
      (.lam 11 (.app (.app (.app (.app (.app (.var 5) (.var 6)) (.var 10)) (.var 11)) .ud) (.var 9)))))) ∧
    csubst (.lam 5 (.app (.lam 0 (.var 0)) (.lam 6 (.app (.app (.app (.app (.var 0) (.var 5)) (.var 6)) .ud) (.var 9)))))
      0 (.app (.var 5) (.var 6))
    = .lam 10 (.app (.lam 0 (.var 0))
      (.lam 11 (.app (.app (.app (.app (.app (.var 5) (.var 6)) (.var 10)) (.var 11)) .ud) (.var 9)))) :=
  ⟨by rfl, by decide +kernel⟩

/-! ### the Barendregt-convention reading: NAIVE substitution is enough when no binder of `M` binds a free name of `N` -/

/-- under the variable convention `bv M ∩ fv N = ∅` capture-avoiding substitution renames nothing … -/
theorem C02_named_csubst_eq_nsubst (M : NTerm) (x : Nat) (N : NTerm) (h : ∀ v ∈ fv N, v ∉ bv M) :
    csubst M x N = nsubst M x N :=
  csubstF_eq_nsubst (size M) M N x (Nat.le_refl _) h

/-- … so naive substitution is adequate there (and only there in general: see the example above) -/
theorem C02_named_naive_adequacy (Γ : List Nat) (M : NTerm) (x : Nat) (N : NTerm) (h : ∀ v ∈ fv N, v ∉ bv M) :
    toDB Γ (nsubst M x N) = substTop (toDB (x :: Γ) M) (toDB Γ N) := by
  rw [← C02_named_csubst_eq_nsubst M x N h]; exact C02_named_adequacy Γ M x N

example : toDB [] (nsubst (.lam 1 (.app (.var 0) (.var 1))) 0 (.var 2))
    = substTop (toDB [0] (.lam 1 (.app (.var 0) (.var 1)))) (toDB [] (.var 2)) :=
  C02_named_naive_adequacy _ _ _ _ (by decide +kernel)

/-! ### surjectivity: every De Bruijn term is the translation of a named term -/

/-- `fromDB Γ` is a right inverse of `toDB Γ` on every term that is representable under `Γ`: `Γ` repeats no name (the
outer one of two equal names could not be referred to) and no outer reference of `t` stands for a name bound by `Γ`
(the reference `Γ.length + x + 1` is the FREE name `x`, which must not be caught by `Γ`). -/
theorem C02_named_surjective (Γ : List Nat) (t : Term) (hn : Γ.Nodup)
    (ho : ∀ v ∈ outerNames Γ.length t, v ∉ Γ) : toDB Γ (fromDB Γ t) = t :=
  toDB_fromDB Γ t hn ho

/-- the second side condition is necessary: every translated term satisfies it -/
theorem C02_named_surjective_side_condition_necessary (Γ : List Nat) (M : NTerm) :
    ∀ v ∈ outerNames Γ.length (toDB Γ M), v ∉ Γ :=
  fun v hv => (outerNames_toDB M Γ v hv).2

/-- with the empty context there is no side condition: EVERY De Bruijn term is the translation of a named term -/
theorem C02_named_surjective_closed (t : Term) : toDB [] (fromDB [] t) = t :=
  toDB_fromDB [] t List.nodup_nil (by simp)

/-- for any number `n` of enclosing binders there is a context of `n` distinct (large) names under which a given
De Bruijn term is the translation of a named term -/
theorem C02_named_surjective_fresh_context (t : Term) (n : Nat) :
    ∃ Γ : List Nat, Γ.length = n ∧ Γ.Nodup ∧ toDB Γ (fromDB Γ t) = t :=
  ⟨_, length_upFrom _ n, nodup_upFrom _ n, toDB_fromDB_upFrom t n⟩

/-- hence the adequacy theorem speaks about every call `apply` can succeed on: any abstraction `λb` and any argument
`a` are translations of a named abstraction `λx. M` and a named term `N`, and the result is the translation of
`M[x := N]` -/
theorem C02_named_apply_covers (b a : Term) :
    ∃ (x : Nat) (M N : NTerm), toDB [] (.lam x M) = Term.abs b ∧ toDB [] N = a ∧
      Term.apply (Term.abs b) a = .ok (toDB [] (csubst M x N)) := by
  have hb := C02_named_surjective_closed (Term.abs b)
  have ha := C02_named_surjective_closed a
  generalize hM : fromDB [] (Term.abs b) = L at hb
  cases L with
  | lam x M =>
    refine ⟨x, M, fromDB [] a, hb, ha, ?_⟩
    rw [← hb, ← C02_named_apply, ha]
  | var y => simp [toDB] at hb
  | ud => simp [toDB] at hb
  | app l r => simp [toDB] at hb

/-- the same for a redex met under `n` enclosing binders (this is how the reducers call `apply`): a context of `n`
names under which both parts of the redex are translations -/
theorem C02_named_apply_covers_in_context (n : Nat) (b a : Term) :
    ∃ (Γ : List Nat) (x : Nat) (M N : NTerm), Γ.length = n ∧ toDB Γ (.lam x M) = Term.abs b ∧ toDB Γ N = a ∧
      Term.apply (Term.abs b) a = .ok (toDB Γ (csubst M x N)) := by
  have h := toDB_fromDB_upFrom (Term.app (Term.abs b) a) n
  have hl := length_upFrom (listMax (outerNames n (Term.app (Term.abs b) a)) + 1) n
  generalize upFrom (listMax (outerNames n (Term.app (Term.abs b) a)) + 1) n = Γ at h hl
  simp only [fromDB, fromDBAux, toDB, Term.app.injEq, Term.abs.injEq] at h
  refine ⟨Γ, base Γ (Term.app (Term.abs b) a) + Γ.length,
    fromDBAux (base Γ (Term.app (Term.abs b) a)) ((base Γ (Term.app (Term.abs b) a) + Γ.length) :: Γ) b,
    fromDBAux (base Γ (Term.app (Term.abs b) a)) Γ a, hl, ?_, h.2, ?_⟩
  · simp only [toDB]; rw [h.1]
  · rw [C02_named_adequacy, h.1, h.2]; exact C02_apply_abs b a

/-- a redex body with an outer reference (index 4 = two above the two context binders and its own) and a reference
into the context (index 2), read back under a fresh context of length 2 -/
example : upFrom 2 2 = [3, 2] ∧
    fromDB [3, 2] (Term.abs (Term.app (Term.app (Term.var 1) (Term.var 2)) (Term.var 4)))
      = .lam 6 (.app (.app (.var 6) (.var 3)) (.var 0)) ∧
    toDB [3, 2] (.lam 6 (.app (.app (.var 6) (.var 3)) (.var 0)))
      = Term.abs (Term.app (Term.app (Term.var 1) (Term.var 2)) (Term.var 4)) := by decide +kernel

example : fromDB [] (Term.abs (Term.app (Term.app (Term.var 1) (Term.var 3)) (Term.abs (Term.app (Term.var 2) (Term.var 0)))))
    = .lam 2 (.app (.app (.var 2) (.var 1)) (.lam 3 (.app (.var 2) .ud))) := by decide +kernel
example : toDB [8, 3] (fromDB [8, 3] (Term.abs (Term.app (Term.app (Term.var 2) (Term.var 3)) (Term.var 9))))
    = Term.abs (Term.app (Term.app (Term.var 2) (Term.var 3)) (Term.var 9)) :=
  C02_named_surjective _ _ (by decide +kernel) (by decide +kernel)
/-- an unrepresentable reference: under `Γ = [0]` the index 2 would be the free name `0`, which `Γ` binds -/
example : ∀ M : NTerm, toDB [0] M ≠ Term.var 2 := by
  intro M h
  have := C02_named_surjective_side_condition_necessary [0] M
  rw [h] at this
  exact this 0 (by decide +kernel) (by decide +kernel)

end LC
