/-
TIE (trusted-base reduction), whole operations: for every operation of the line protocol (DESIGN §3.2),

    `exec (the canonical line of the arguments) = the result printer (the MODEL function applied to the arguments)`.

`Drv.exec : String → String` is the function the compiled driver applies to every input line (`Driver.lean` is only the
read–print loop around it).  So the decoding of the arguments out of the line, the choice of the model function and the
printing of its result are all covered: what remains trusted is the Lean compiler/runtime, `IO`, and — on the other
side of the pipe — the Rust harness writing the canonical line and printing its own result in the same format.
With the injectivity theorems of `TieCodec.lean` (`TIE_codec_res…_injective`, `TIE_codec_showTerm_injective`, ...):
the printed line determines the model's result.

The canonical lines are given as word lists (`lineOf ws` joins them with single spaces): see `LC/Drv/Wire.lean`.
-/
import LC.Proofs.DriverExec

open LC LC.Term LC.Parser Drv

/-! ## terms, substitution, reduction (`LC/Drv/Ops1.lean`) -/

/-- `apply t a` runs `Term.applyMut` -/
theorem TIE_codec_exec_apply (t a : Term) :
    exec (lineOf ("apply" :: (termWords t ++ termWords a))) = resApply t (Term.applyMut t a) := by
  rw [exec_lineOf (.cons1 lit_words ((termWords_words t).append (termWords_words a))), execToks_apply]
  simp [decTerm_termWords, dec1]

example : exec "apply L 1 2" = "ok 2" := by
  have : "apply L 1 2" = lineOf ("apply" :: (termWords (abs (var 1)) ++ termWords (var 2))) := by decide
  rw [this, TIE_codec_exec_apply]; decide

/-- `applyb t a` runs `Term.apply` (and reports the `usize` overflow) -/
theorem TIE_codec_exec_applyb (t a : Term) :
    exec (lineOf ("applyb" :: (termWords t ++ termWords a))) = resApplyB (Term.apply t a) := by
  rw [exec_lineOf (.cons1 lit_words ((termWords_words t).append (termWords_words a))), execToks_applyb]
  simp [decTerm_termWords, dec1]

example : exec "applyb L 1 2" = resApplyB (Term.apply (abs (var 1)) (var 2)) := by
  have : "applyb L 1 2" = lineOf ("applyb" :: (termWords (abs (var 1)) ++ termWords (var 2))) := by decide
  rw [this, TIE_codec_exec_applyb]

/-- `reduceb o t` runs one step of `reduce` -/
theorem TIE_codec_exec_reduceb (o : Order) (t : Term) :
    exec (lineOf ("reduceb" :: orderWord o :: termWords t)) = resReduceB (reduce o 1 FUEL t) := by
  rw [exec_lineOf (.cons1 lit_words (.cons1 (orderWord_words o) (termWords_words t))), execToks_reduceb]
  simp [orderOf_orderWord, dec1]

example : exec "reduceb CBV A L 1 2" = resReduceB (reduce .CBV 1 FUEL (app (abs (var 1)) (var 2))) := by
  have : "reduceb CBV A L 1 2" = lineOf ("reduceb" :: orderWord .CBV :: termWords (app (abs (var 1)) (var 2))) := by decide
  rw [this, TIE_codec_exec_reduceb]

/-- `reduce o l t` runs `reduce o l` -/
theorem TIE_codec_exec_reduce (o : Order) (l : Nat) (t : Term) :
    exec (lineOf ("reduce" :: orderWord o :: toString l :: termWords t)) = resReduce (reduce o l FUEL t) := by
  rw [exec_lineOf (.cons1 lit_words (.cons1 (orderWord_words o) (.cons1 (nat_words l) (termWords_words t)))),
    execToks_reduce]
  simp [orderOf_orderWord, dec1]

example : exec "reduce NOR 0 A L 1 2" = resReduce (reduce .NOR 0 FUEL (app (abs (var 1)) (var 2))) := by
  have : "reduce NOR 0 A L 1 2" =
      lineOf ("reduce" :: orderWord .NOR :: toString 0 :: termWords (app (abs (var 1)) (var 2))) := by decide
  rw [this, TIE_codec_exec_reduce]

/-- `beta o l t` runs `beta` -/
theorem TIE_codec_exec_beta (o : Order) (l : Nat) (t : Term) :
    exec (lineOf ("beta" :: orderWord o :: toString l :: termWords t)) = resBeta (beta t o l FUEL) := by
  rw [exec_lineOf (.cons1 lit_words (.cons1 (orderWord_words o) (.cons1 (nat_words l) (termWords_words t)))),
    execToks_beta]
  simp [orderOf_orderWord, dec1]

example : exec "beta HAP 0 A L 1 2" = resBeta (beta (app (abs (var 1)) (var 2)) .HAP 0 FUEL) := by
  have : "beta HAP 0 A L 1 2" = lineOf ("beta" :: orderWord .HAP :: toString 0 :: termWords (app (abs (var 1)) (var 2))) := by decide
  rw [this, TIE_codec_exec_beta]

/-- `hist n calls t` runs the calls one after the other -/
theorem TIE_codec_exec_hist (cs : List (Order × Nat)) (t : Term) :
    exec (lineOf ("hist" :: toString cs.length :: ((cs.map callWords).flatten ++ termWords t))) =
      (runHist cs t "").getD "fuel" := by
  rw [exec_lineOf (.cons1 lit_words (.cons1 (nat_words _) ((callsWords_words cs).append (termWords_words t)))),
    execToks_hist]
  simp [parseCalls_callWords, dec1]

example : exec "hist 2 NOR 1 CBV 0 A L 1 2" = (runHist [(.NOR, 1), (.CBV, 0)] (app (abs (var 1)) (var 2)) "").getD "fuel" := by
  have : "hist 2 NOR 1 CBV 0 A L 1 2" = lineOf ("hist" :: toString [(Order.NOR, 1), (Order.CBV, 0)].length ::
      (([(Order.NOR, 1), (Order.CBV, 0)].map callWords).flatten ++ termWords (app (abs (var 1)) (var 2)))) := by decide
  rw [this, TIE_codec_exec_hist]

/-- `pred t` runs the three predicates -/
theorem TIE_codec_exec_pred (t : Term) : exec (lineOf ("pred" :: termWords t)) = resPred t := by
  rw [exec_lineOf (.cons1 lit_words (termWords_words t)), execToks_pred]
  simp [dec1]

example : exec "pred L 1" = "0 1 1" := by
  have : "pred L 1" = lineOf ("pred" :: termWords (abs (var 1))) := by decide
  rw [this, TIE_codec_exec_pred]; decide

/-- `iso t u` runs `isIsomorphicTo` -/
theorem TIE_codec_exec_iso (t u : Term) :
    exec (lineOf ("iso" :: (termWords t ++ termWords u))) = b01 (t.isIsomorphicTo u) := by
  rw [exec_lineOf (.cons1 lit_words ((termWords_words t).append (termWords_words u))), execToks_iso]
  simp [decTerm_termWords, dec1]

example : exec "iso L 1 L 2" = "0" := by
  have : "iso L 1 L 2" = lineOf ("iso" :: (termWords (abs (var 1)) ++ termWords (abs (var 2)))) := by decide
  rw [this, TIE_codec_exec_iso]; decide

/-- `acc t` runs the fifteen accessors -/
theorem TIE_codec_exec_acc (t : Term) : exec (lineOf ("acc" :: termWords t)) = resAcc t := by
  rw [exec_lineOf (.cons1 lit_words (termWords_words t)), execToks_acc]
  simp [dec1]

example : exec "acc 0" = resAcc (var 0) := by
  have : "acc 0" = lineOf ("acc" :: termWords (var 0)) := by decide
  rw [this, TIE_codec_exec_acc]

/-- `put unvar t v` -/
theorem TIE_codec_exec_put_unvar (t : Term) (v : Nat) :
    exec (lineOf ("put" :: "unvar" :: (termWords t ++ [toString v]))) = resTerm (t.unvarMutPut v) := by
  rw [exec_lineOf (.cons1 lit_words (.cons1 lit_words ((termWords_words t).append (nat_words v)))), execToks_put]
  simp [decTerm_termWords]

example : exec "put unvar 1 5" = "ok 5" := by
  have : "put unvar 1 5" = lineOf ("put" :: "unvar" :: (termWords (var 1) ++ [toString 5])) := by decide
  rw [this, TIE_codec_exec_put_unvar]; decide

/-- `put unabs t v` -/
theorem TIE_codec_exec_put_unabs (t v : Term) :
    exec (lineOf ("put" :: "unabs" :: (termWords t ++ termWords v))) = resTerm (t.unabsMutPut v) := by
  rw [exec_lineOf (.cons1 lit_words (.cons1 lit_words ((termWords_words t).append (termWords_words v)))),
    execToks_put]
  simp [decTerm_termWords, dec1]

example : exec "put unabs L 1 2" = "ok L 2" := by
  have : "put unabs L 1 2" = lineOf ("put" :: "unabs" :: (termWords (abs (var 1)) ++ termWords (var 2))) := by decide
  rw [this, TIE_codec_exec_put_unabs]; decide

/-- `put lhs t v` -/
theorem TIE_codec_exec_put_lhs (t v : Term) :
    exec (lineOf ("put" :: "lhs" :: (termWords t ++ termWords v))) = resTerm (t.lhsMutPut v) := by
  rw [exec_lineOf (.cons1 lit_words (.cons1 lit_words ((termWords_words t).append (termWords_words v)))),
    execToks_put]
  simp [decTerm_termWords, dec1]

example : exec "put lhs A 1 2 3" = "ok A 3 2" := by
  have : "put lhs A 1 2 3" = lineOf ("put" :: "lhs" :: (termWords (app (var 1) (var 2)) ++ termWords (var 3))) := by decide
  rw [this, TIE_codec_exec_put_lhs]; decide

/-- `put rhs t v` -/
theorem TIE_codec_exec_put_rhs (t v : Term) :
    exec (lineOf ("put" :: "rhs" :: (termWords t ++ termWords v))) = resTerm (t.rhsMutPut v) := by
  rw [exec_lineOf (.cons1 lit_words (.cons1 lit_words ((termWords_words t).append (termWords_words v)))),
    execToks_put]
  simp [decTerm_termWords, dec1]

example : exec "put rhs 1 3" = "err NotApp" := by
  have : "put rhs 1 3" = lineOf ("put" :: "rhs" :: (termWords (var 1) ++ termWords (var 3))) := by decide
  rw [this, TIE_codec_exec_put_rhs]; decide

/-- `put unapp t v1 v2` -/
theorem TIE_codec_exec_put_unapp (t v1 v2 : Term) :
    exec (lineOf ("put" :: "unapp" :: (termWords t ++ (termWords v1 ++ termWords v2)))) =
      resTerm (t.unappMutPut (v1, v2)) := by
  rw [exec_lineOf (.cons1 lit_words (.cons1 lit_words
    ((termWords_words t).append ((termWords_words v1).append (termWords_words v2))))), execToks_put]
  simp [decTerm_termWords, dec1]

example : exec "put unapp A 1 2 3 4" = "ok A 3 4" := by
  have : "put unapp A 1 2 3 4" = lineOf ("put" :: "unapp" :: (termWords (app (var 1) (var 2)) ++ (termWords (var 3) ++ termWords (var 4)))) := by decide
  rw [this, TIE_codec_exec_put_unapp]; decide

/-- `mapp k t0 t1 … tk` runs `appMany` -/
theorem TIE_codec_exec_mapp (t0 : Term) (more : List Term) :
    exec (lineOf ("mapp" :: toString more.length :: ((t0 :: more).map termWords).flatten)) =
      showTerm (appMany t0 more) := by
  rw [exec_lineOf (.cons1 lit_words (.cons1 (nat_words _) (termsWords_words _))), execToks_mapp]
  have := decTerms1 (t0 :: more)
  rw [List.length_cons, List.map_cons, List.flatten_cons] at this
  simp [this]

example : exec "mapp 1 1 2" = "A 1 2" := by
  have : "mapp 1 1 2" = lineOf ("mapp" :: toString [var 2].length :: ([var 1, var 2].map termWords).flatten) := by decide
  rw [this, TIE_codec_exec_mapp]; decide

/-- `mabs n t` runs `absN` -/
theorem TIE_codec_exec_mabs (n : Nat) (t : Term) :
    exec (lineOf ("mabs" :: toString n :: termWords t)) = showTerm (absN n t) := by
  rw [exec_lineOf (.cons1 lit_words (.cons1 (nat_words n) (termWords_words t))), execToks_mabs]
  simp [dec1]

example : exec "mabs 3 1" = "L L L 1" := by
  have : "mabs 3 1" = lineOf ("mabs" :: toString 3 :: termWords (var 1)) := by decide
  rw [this, TIE_codec_exec_mabs]; decide

/-- `udconst` prints the constant `UD` -/
theorem TIE_codec_exec_udconst : exec (lineOf ["udconst"]) = showTerm Term.UD := by
  rw [exec_lineOf lit_words, execToks_udconst]

example : exec "udconst" = "0" := by
  have : "udconst" = lineOf (["udconst"]) := by decide
  rw [this, TIE_codec_exec_udconst]; decide

/-! ## lexer, parser, printers, encoders (`LC/Drv/Ops2.lean`) -/

theorem take_map_length {α β : Type} (f : α → β) (l : List α) : (l.map f).take l.length = l.map f := by
  rw [List.take_of_length_le (by simp)]

/-- `lexd n chars` runs `tokenizeDbr` on the code points, with the classification sent along -/
theorem TIE_codec_exec_lexd (chars : List (Nat × Nat × Nat)) :
    exec (lineOf ("lexd" :: toString chars.length :: chars.map charWord)) =
      resToks (tokenizeDbr (Drv2.mkCls chars) (chars.map (·.1))) := by
  rw [exec_lineOf (.cons1 lit_words (.cons1 (nat_words _) (charWords_words chars))),
    execToks_fall _ (by decide), exec2_lexd]
  simp [decChars1]

example : exec "lexd 3 49:4:1 955:6:16 50:4:2" =
    resToks (tokenizeDbr (Drv2.mkCls [(49, 4, 1), (955, 6, 16), (50, 4, 2)]) [49, 955, 50]) := by
  have : "lexd 3 49:4:1 955:6:16 50:4:2" =
      lineOf ("lexd" :: toString [(49, 4, 1), (955, 6, 16), (50, 4, 2)].length ::
        [(49, 4, 1), (955, 6, 16), (50, 4, 2)].map charWord) := by decide
  rw [this, TIE_codec_exec_lexd]; rfl

/-- `lexc n chars` runs `tokenizeCla` -/
theorem TIE_codec_exec_lexc (chars : List (Nat × Nat × Nat)) :
    exec (lineOf ("lexc" :: toString chars.length :: chars.map charWord)) =
      resCToks (tokenizeCla (Drv2.mkCls chars) (chars.map (·.1))) := by
  rw [exec_lineOf (.cons1 lit_words (.cons1 (nat_words _) (charWords_words chars))),
    execToks_fall _ (by decide), exec2_lexc]
  simp [decChars1]

example : exec "lexc 2 955:6:16 97:6:10" = resCToks (tokenizeCla (Drv2.mkCls [(955, 6, 16), (97, 6, 10)]) [955, 97]) := by
  have : "lexc 2 955:6:16 97:6:10" = lineOf ("lexc" :: toString [(955, 6, 16), (97, 6, 10)].length :: [(955, 6, 16), (97, 6, 10)].map charWord) := by decide
  rw [this, TIE_codec_exec_lexc]; rfl

/-- `conv n ctoks` runs `convertClassicTokens` -/
theorem TIE_codec_exec_conv (cts : List CToken) :
    exec (lineOf ("conv" :: toString cts.length :: cts.map showCTok)) = resConv (convertClassicTokens cts) := by
  rw [exec_lineOf (.cons1 lit_words (.cons1 (nat_words _) (ctokWords_words cts))),
    execToks_fall _ (by decide), exec2_conv]
  have h : List.mapM (decCTok ∘ showCTok) cts = some cts := by simpa using mapM_decCTok_showCTok cts
  simp [take_map_length, h]

example : exec "conv 2 CL:97 CN:97" = resConv (convertClassicTokens [.CLambda [97], .CName [97]]) := by
  have : "conv 2 CL:97 CN:97" = lineOf ("conv" :: toString [CToken.CLambda [97], .CName [97]].length :: [CToken.CLambda [97], .CName [97]].map showCTok) := by decide
  rw [this, TIE_codec_exec_conv]

/-- `ast n toks` runs `getAst` -/
theorem TIE_codec_exec_ast (ts : List Token) :
    exec (lineOf ("ast" :: toString ts.length :: ts.map showTok)) = resAst (getAst ts) := by
  rw [exec_lineOf (.cons1 lit_words (.cons1 (nat_words _) (tokWords_words ts))),
    execToks_fall _ (by decide), exec2_ast]
  have h : List.mapM (decTok ∘ showTok) ts = some ts := by simpa using mapM_decTok_showTok ts
  simp [take_map_length, h]

example : exec "ast 3 L N1 N2" = resAst (getAst [.Lambda, .Number 1, .Number 2]) := by
  have : "ast 3 L N1 N2" = lineOf ("ast" :: toString [Token.Lambda, .Number 1, .Number 2].length :: [Token.Lambda, .Number 1, .Number 2].map showTok) := by decide
  rw [this, TIE_codec_exec_ast]

/-- `fold n exprs` runs `foldExprs` -/
theorem TIE_codec_exec_fold (es : List Expression) :
    exec (lineOf ("fold" :: toString es.length :: exprsWords es)) = resFold (foldExprs es) := by
  rw [exec_lineOf (.cons1 lit_words (.cons1 (nat_words _) (exprsWords_words es))),
    execToks_fall _ (by decide), exec2_fold]
  simp [decExprs1]

example : exec "fold 1 S3 A A V2" = resFold (foldExprs [.Sequence [.Abstraction, .Abstraction, .Variable 2]]) := by
  have : "fold 1 S3 A A V2" = lineOf ("fold" :: toString [Expression.Sequence [.Abstraction, .Abstraction, .Variable 2]].length ::
      exprsWords [.Sequence [.Abstraction, .Abstraction, .Variable 2]]) := by decide
  rw [this, TIE_codec_exec_fold]

/-- `parse d n chars` runs `parse` in the De Bruijn notation -/
theorem TIE_codec_exec_parse_d (chars : List (Nat × Nat × Nat)) :
    exec (lineOf ("parse" :: "d" :: toString chars.length :: chars.map charWord)) =
      resParse (parse (Drv2.mkCls chars) (chars.map (·.1)) .DeBruijn) := by
  rw [exec_lineOf (.cons1 lit_words (.cons1 lit_words (.cons1 (nat_words _) (charWords_words chars)))),
    execToks_fall _ (by decide), exec2_parse]
  simp [decChars1]

example : exec "parse d 1 49:4:1" = resParse (parse (Drv2.mkCls [(49, 4, 1)]) [49] .DeBruijn) := by
  have : "parse d 1 49:4:1" = lineOf ("parse" :: "d" :: toString [(49, 4, 1)].length :: [(49, 4, 1)].map charWord) := by decide
  rw [this, TIE_codec_exec_parse_d]; rfl

/-- `parse c n chars` runs `parse` in the classic notation -/
theorem TIE_codec_exec_parse_c (chars : List (Nat × Nat × Nat)) :
    exec (lineOf ("parse" :: "c" :: toString chars.length :: chars.map charWord)) =
      resParse (parse (Drv2.mkCls chars) (chars.map (·.1)) .Classic) := by
  rw [exec_lineOf (.cons1 lit_words (.cons1 lit_words (.cons1 (nat_words _) (charWords_words chars)))),
    execToks_fall _ (by decide), exec2_parse]
  simp [decChars1]

example : exec "parse c 1 97:6:10" = resParse (parse (Drv2.mkCls [(97, 6, 10)]) [97] .Classic) := by
  have : "parse c 1 97:6:10" = lineOf ("parse" :: "c" :: toString [(97, 6, 10)].length :: [(97, 6, 10)].map charWord) := by decide
  rw [this, TIE_codec_exec_parse_c]; rfl

/-- `show c λ t` / `show d λ t` run `Display.display` / `Display.debug` with the code point of the lambda glyph -/
theorem TIE_codec_exec_show (lam : Nat) (t : Term) :
    exec (lineOf ("show" :: "c" :: toString lam :: termWords t)) = showCps (Display.display lam t) ∧
    exec (lineOf ("show" :: "d" :: toString lam :: termWords t)) = showCps (Display.debug lam t) := by
  constructor
  · rw [exec_lineOf (.cons1 lit_words (.cons1 lit_words (.cons1 (nat_words _) (termWords_words t)))),
      execToks_fall _ (by decide), exec2_show]
    simp [dec1]
  · rw [exec_lineOf (.cons1 lit_words (.cons1 lit_words (.cons1 (nat_words _) (termWords_words t)))),
      execToks_fall _ (by decide), exec2_show]
    simp [dec1]

example : exec "show c 955 L 1" = showCps (Display.display 955 (abs (var 1))) := by
  have : "show c 955 L 1" = lineOf ("show" :: "c" :: toString 955 :: termWords (abs (var 1))) := by decide
  rw [this, (TIE_codec_exec_show 955 (abs (var 1))).1]

/-- `showu` (the advisory twin of `show` for terms containing UD) -/
theorem TIE_codec_exec_showu (lam : Nat) (t : Term) :
    exec (lineOf ("showu" :: "c" :: toString lam :: termWords t)) = showCps (Display.display lam t) ∧
    exec (lineOf ("showu" :: "d" :: toString lam :: termWords t)) = showCps (Display.debug lam t) := by
  constructor
  · rw [exec_lineOf (.cons1 lit_words (.cons1 lit_words (.cons1 (nat_words _) (termWords_words t)))),
      execToks_fall _ (by decide), exec2_showu]
    simp [dec1]
  · rw [exec_lineOf (.cons1 lit_words (.cons1 lit_words (.cons1 (nat_words _) (termWords_words t)))),
      execToks_fall _ (by decide), exec2_showu]
    simp [dec1]

example : exec "showu d 955 A 0 L 1" = showCps (Display.debug 955 (app (var 0) (abs (var 1)))) := by
  have : "showu d 955 A 0 L 1" = lineOf ("showu" :: "d" :: toString 955 :: termWords (app (var 0) (abs (var 1)))) := by decide
  rw [this, (TIE_codec_exec_showu 955 (app (var 0) (abs (var 1)))).2]

/-- `enc e n` runs `Enc.intoNum` -/
theorem TIE_codec_exec_enc (e : Enc.Encoding) (n : Nat) :
    exec (lineOf ["enc", encWord e, toString n]) = showTerm (Enc.intoNum e n) := by
  rw [exec_lineOf (.cons1 lit_words (.cons1 (encWord_words e) (nat_words n))),
    execToks_fall _ (by decide), exec2_enc]
  simp [encOf_encWord]

example : exec "enc church 3" = showTerm (Enc.intoNum .Church 3) := by
  have : "enc church 3" = lineOf ["enc", encWord .Church, toString 3] := by decide
  rw [this, TIE_codec_exec_enc]

/-- `signed e i` runs `Enc.intoSignedChecked` -/
theorem TIE_codec_exec_signed (e : Enc.Encoding) (i : Int) :
    exec (lineOf ["signed", encWord e, toString i]) = Drv2.resSigned (Enc.intoSignedChecked e i) := by
  rw [exec_lineOf (.cons1 lit_words (.cons1 (encWord_words e) (int_words i))),
    execToks_fall _ (by decide), exec2_signed]
  simp [encOf_encWord]

example : exec "signed scott -3" = Drv2.resSigned (Enc.intoSignedChecked .Scott (-3)) := by
  have : "signed scott -3" = lineOf ["signed", encWord .Scott, toString (-3 : Int)] := by decide
  rw [this, TIE_codec_exec_signed]

/-- `vect kind k t1 … tk` builds the list encodings from `k` terms -/
theorem TIE_codec_exec_vect (ts : List Term) :
    exec (lineOf ("vect" :: "pair" :: toString ts.length :: (ts.map termWords).flatten)) = showTerm (Enc.pairList ts) ∧
    exec (lineOf ("vect" :: "from" :: toString ts.length :: (ts.map termWords).flatten)) = showTerm (Enc.pairList ts) ∧
    exec (lineOf ("vect" :: "church" :: toString ts.length :: (ts.map termWords).flatten)) =
      showTerm (Enc.churchList ts) ∧
    exec (lineOf ("vect" :: "scott" :: toString ts.length :: (ts.map termWords).flatten)) =
      showTerm (Enc.scottList ts) ∧
    exec (lineOf ("vect" :: "parigot" :: toString ts.length :: (ts.map termWords).flatten)) =
      showTerm (Enc.parigotList ts) := by
  refine ⟨?_, ?_, ?_, ?_, ?_⟩ <;>
  · rw [exec_lineOf (.cons1 lit_words (.cons1 lit_words (.cons1 (nat_words _) (termsWords_words ts)))),
      execToks_fall _ (by decide), exec2_vect]
    simp [decTerms1]

example : exec "vect church 2 1 L 1" = showTerm (Enc.churchList [var 1, abs (var 1)]) := by
  have : "vect church 2 1 L 1" = lineOf ("vect" :: "church" :: toString [var 1, abs (var 1)].length :: ([var 1, abs (var 1)].map termWords).flatten) := by decide
  rw [this, (TIE_codec_exec_vect [var 1, abs (var 1)]).2.2.1]

/-- `vecn kind k n1 … nk` builds the list encodings of `k` numerals -/
theorem TIE_codec_exec_vecn (ns : List Nat) :
    exec (lineOf ("vecn" :: "church" :: toString ns.length :: ns.map toString)) =
      showTerm (Enc.churchList (ns.map Enc.intoChurch)) ∧
    exec (lineOf ("vecn" :: "scott" :: toString ns.length :: ns.map toString)) =
      showTerm (Enc.scottList (ns.map Enc.intoScott)) ∧
    exec (lineOf ("vecn" :: "parigot" :: toString ns.length :: ns.map toString)) =
      showTerm (Enc.parigotList (ns.map Enc.intoParigot)) := by
  refine ⟨?_, ?_, ?_⟩ <;>
  · rw [exec_lineOf (.cons1 lit_words (.cons1 lit_words (.cons1 (nat_words _) (natWords_words ns)))),
      execToks_fall _ (by decide), exec2_vecn]
    simp [decNats1]

example : exec "vecn scott 2 1 2" = showTerm (Enc.scottList ([1, 2].map Enc.intoScott)) := by
  have : "vecn scott 2 1 2" = lineOf ("vecn" :: "scott" :: toString [1, 2].length :: [1, 2].map toString) := by decide
  rw [this, (TIE_codec_exec_vecn [1, 2]).2.1]

/-- `frompair a b` runs `Enc.fromPair` -/
theorem TIE_codec_exec_frompair (a b : Term) :
    exec (lineOf ("frompair" :: (termWords a ++ termWords b))) = showTerm (Enc.fromPair a b) := by
  rw [exec_lineOf (.cons1 lit_words ((termWords_words a).append (termWords_words b))),
    execToks_fall _ (by decide), exec2_frompair]
  simp [decTerm_termWords, dec1]

example : exec "frompair 1 L 2" = showTerm (Enc.fromPair (var 1) (abs (var 2))) := by
  have : "frompair 1 L 2" = lineOf ("frompair" :: (termWords (var 1) ++ termWords (abs (var 2)))) := by decide
  rw [this, TIE_codec_exec_frompair]

/-- `fromopt none` / `fromopt some a` run `Enc.fromOption` -/
theorem TIE_codec_exec_fromopt (a : Term) :
    exec (lineOf ["fromopt", "none"]) = showTerm (Enc.fromOption none) ∧
    exec (lineOf ("fromopt" :: "some" :: termWords a)) = showTerm (Enc.fromOption (some a)) := by
  constructor
  · rw [exec_lineOf (.cons1 lit_words lit_words), execToks_fall _ (by decide), exec2_fromopt_none]
  · rw [exec_lineOf (.cons1 lit_words (.cons1 lit_words (termWords_words a))), execToks_fall _ (by decide),
      exec2_fromopt_some]
    simp [dec1]

example : exec "fromopt some L 1" = showTerm (Enc.fromOption (some (abs (var 1)))) := by
  have : "fromopt some L 1" = lineOf ("fromopt" :: "some" :: termWords (abs (var 1))) := by decide
  rw [this, (TIE_codec_exec_fromopt (abs (var 1))).2]

/-- `fromres ok a` / `fromres err a` run `Enc.fromResult` -/
theorem TIE_codec_exec_fromres (a : Term) :
    exec (lineOf ("fromres" :: "ok" :: termWords a)) = showTerm (Enc.fromResult (.ok a)) ∧
    exec (lineOf ("fromres" :: "err" :: termWords a)) = showTerm (Enc.fromResult (.error a)) := by
  constructor
  · rw [exec_lineOf (.cons1 lit_words (.cons1 lit_words (termWords_words a))), execToks_fall _ (by decide),
      exec2_fromres_ok]
    simp [dec1]
  · rw [exec_lineOf (.cons1 lit_words (.cons1 lit_words (termWords_words a))), execToks_fall _ (by decide),
      exec2_fromres_err]
    simp [dec1]

example : exec "fromres err L 1" = showTerm (Enc.fromResult (.error (abs (var 1)))) := by
  have : "fromres err L 1" = lineOf ("fromres" :: "err" :: termWords (abs (var 1))) := by decide
  rw [this, (TIE_codec_exec_fromres (abs (var 1))).2]

/-- `frombool 0` / `frombool 1` run `Enc.fromBool` -/
theorem TIE_codec_exec_frombool (b : Bool) :
    exec (lineOf ["frombool", b01 b]) = showTerm (Enc.fromBool b) := by
  rw [exec_lineOf (.cons1 lit_words (b01_words b)), execToks_fall _ (by decide), exec2_frombool]
  cases b <;> rfl

example : exec "frombool 1" = showTerm (Enc.fromBool true) := by
  have : "frombool 1" = lineOf (["frombool", b01 true]) := by decide
  rw [this, TIE_codec_exec_frombool]

/-- `numpair e a b` encodes a pair of numerals -/
theorem TIE_codec_exec_numpair (e : Enc.Encoding) (a b : Nat) :
    exec (lineOf ["numpair", encWord e, toString a, toString b]) =
      showTerm (Enc.fromPair (Enc.intoNum e a) (Enc.intoNum e b)) := by
  rw [exec_lineOf (.cons1 lit_words (.cons1 (encWord_words e) (.cons1 (nat_words a) (nat_words b)))),
    execToks_fall _ (by decide), exec2_numpair]
  simp [encOf_encWord]

example : exec "numpair church 1 2" = showTerm (Enc.fromPair (Enc.intoNum .Church 1) (Enc.intoNum .Church 2)) := by
  have : "numpair church 1 2" = lineOf (["numpair", encWord .Church, toString 1, toString 2]) := by decide
  rw [this, TIE_codec_exec_numpair]

/-- `numopt e none` / `numopt e some a` encode an optional numeral -/
theorem TIE_codec_exec_numopt (e : Enc.Encoding) (a : Nat) :
    exec (lineOf ["numopt", encWord e, "none"]) = showTerm (Enc.fromOption none) ∧
    exec (lineOf ["numopt", encWord e, "some", toString a]) =
      showTerm (Enc.fromOption (some (Enc.intoNum e a))) := by
  constructor
  · rw [exec_lineOf (.cons1 lit_words (.cons1 (encWord_words e) lit_words)), execToks_fall _ (by decide),
      exec2_numopt_none]
    simp [encOf_encWord]
  · rw [exec_lineOf (.cons1 lit_words (.cons1 (encWord_words e) (.cons1 lit_words (nat_words a)))),
      execToks_fall _ (by decide), exec2_numopt_some]
    simp [encOf_encWord]

example : exec "numopt scott some 2" = showTerm (Enc.fromOption (some (Enc.intoNum .Scott 2))) := by
  have : "numopt scott some 2" = lineOf (["numopt", encWord .Scott, "some", toString 2]) := by decide
  rw [this, (TIE_codec_exec_numopt .Scott 2).2]

/-- `numres e ok a` / `numres e err a` encode a numeral result -/
theorem TIE_codec_exec_numres (e : Enc.Encoding) (a : Nat) :
    exec (lineOf ["numres", encWord e, "ok", toString a]) = showTerm (Enc.fromResult (.ok (Enc.intoNum e a))) ∧
    exec (lineOf ["numres", encWord e, "err", toString a]) =
      showTerm (Enc.fromResult (.error (Enc.intoNum e a))) := by
  constructor
  · rw [exec_lineOf (.cons1 lit_words (.cons1 (encWord_words e) (.cons1 lit_words (nat_words a)))),
      execToks_fall _ (by decide), exec2_numres_ok]
    simp [encOf_encWord]
  · rw [exec_lineOf (.cons1 lit_words (.cons1 (encWord_words e) (.cons1 lit_words (nat_words a)))),
      execToks_fall _ (by decide), exec2_numres_err]
    simp [encOf_encWord]

example : exec "numres parigot ok 1" = showTerm (Enc.fromResult (.ok (Enc.intoNum .Parigot 1))) := by
  have : "numres parigot ok 1" = lineOf (["numres", encWord .Parigot, "ok", toString 1]) := by decide
  rw [this, (TIE_codec_exec_numres .Parigot 1).1]

/-- `tuple k t1 … tk` runs `Enc.tuple` -/
theorem TIE_codec_exec_tuple (t : Term) (more : List Term) :
    exec (lineOf ("tuple" :: toString (more.length + 1) :: ((t :: more).map termWords).flatten)) =
      showTerm (Enc.tuple t more) := by
  rw [exec_lineOf (.cons1 lit_words (.cons1 (nat_words _) (termsWords_words _))), execToks_fall _ (by decide),
    exec2_tuple]
  have := decTerms1 (t :: more)
  rw [List.length_cons, List.map_cons, List.flatten_cons] at this
  simp [this]

example : exec "tuple 2 1 2" = showTerm (Enc.tuple (var 1) [var 2]) := by
  have : "tuple 2 1 2" = lineOf ("tuple" :: toString ([var 2].length + 1) :: ([var 1, var 2].map termWords).flatten) := by decide
  rw [this, TIE_codec_exec_tuple]

/-- `pi i n` runs `Enc.pi` -/
theorem TIE_codec_exec_pi (i n : Nat) : exec (lineOf ["pi", toString i, toString n]) = showTerm (Enc.pi i n) := by
  rw [exec_lineOf (.cons1 lit_words (.cons1 (nat_words i) (nat_words n))), execToks_fall _ (by decide), exec2_pi]
  simp

example : exec "pi 1 3" = showTerm (Enc.pi 1 3) := by
  have : "pi 1 3" = lineOf (["pi", toString 1, toString 3]) := by decide
  rw [this, TIE_codec_exec_pi]

/-- `errmsg term e` prints the `Display` text of a term error -/
theorem TIE_codec_exec_errmsg_term (e : TermError) :
    exec (lineOf ["errmsg", "term", errName e]) = showCps (Display.termErrorMsg e) := by
  rw [exec_lineOf (.cons1 lit_words (.cons1 lit_words (errName_words e))), execToks_fall _ (by decide),
    exec2_errmsg_term]

example : exec "errmsg term NotAbs" = showCps (Display.termErrorMsg .NotAbs) := by
  have : "errmsg term NotAbs" = lineOf (["errmsg", "term", errName .NotAbs]) := by decide
  rw [this, TIE_codec_exec_errmsg_term]

/-- `errmsg parse …` prints the `Display` text of a parse error: the words are those of `showErr` after `err` -/
theorem TIE_codec_exec_errmsg_parse (e : ParseError) :
    exec (lineOf ("errmsg" :: "parse" :: (errWords e).tail)) = showCps (Display.parseErrorMsg e) := by
  cases e with
  | InvalidCharacter i c =>
    show exec (lineOf ["errmsg", "parse", "IC", toString i, toString c]) = _
    rw [exec_lineOf (.cons1 lit_words (.cons1 lit_words (.cons1 lit_words (.cons1 (nat_words i) (nat_words c))))),
      execToks_fall _ (by decide), exec2_errmsg_parse_IC]
    simp
  | InvalidExpression =>
    show exec (lineOf ["errmsg", "parse", "IE"]) = _
    rw [exec_lineOf (.cons1 lit_words (.cons1 lit_words lit_words)), execToks_fall _ (by decide),
      exec2_errmsg_parse_IE]
  | EmptyExpression =>
    show exec (lineOf ["errmsg", "parse", "EE"]) = _
    rw [exec_lineOf (.cons1 lit_words (.cons1 lit_words lit_words)), execToks_fall _ (by decide),
      exec2_errmsg_parse_EE]

example : exec "errmsg parse IC 3 955" = showCps (Display.parseErrorMsg (.InvalidCharacter 3 955)) := by
  have : "errmsg parse IC 3 955" = lineOf ("errmsg" :: "parse" :: (errWords (.InvalidCharacter 3 955)).tail) := by decide
  rw [this, TIE_codec_exec_errmsg_parse]

/-- `ordname o` prints the `Display` name of a reduction order -/
theorem TIE_codec_exec_ordname (o : Order) :
    exec (lineOf ["ordname", orderWord o]) = showCps (Display.orderName o) := by
  rw [exec_lineOf (.cons1 lit_words (orderWord_words o)), execToks_fall _ (by decide), exec2_ordname]

example : exec "ordname HAP" = showCps (Display.orderName .HAP) := by
  have : "ordname HAP" = lineOf ["ordname", orderWord .HAP] := by decide
  rw [this, TIE_codec_exec_ordname]

/-! ## the result lines defined next to the operations -/

/-- INJECTIVITY (`apply`): given the receiver before the call, the printed answer determines the receiver after the call
and the outcome (an unchanged receiver is not printed again: `resApplyWords`) -/
theorem TIE_codec_resApply_injective (t : Term) {p q : Term × Except TermError Unit}
    (h : resApply t p = resApply t q) : p = q := resApply_inj t h

example : resApply (var 1) (var 1, .error .NotAbs) = "err NotAbs" ∧
    resApply (var 1) (var 2, .error .NotAbs) = "err NotAbs CHANGED 2" := by decide

/-- INJECTIVITY (`signed`): a term and a refusal are told apart -/
theorem TIE_codec_resSigned_injective {r r' : Option Term} (h : Drv2.resSigned r = Drv2.resSigned r') : r = r' :=
  resSigned_inj h

example : Drv2.resSigned (some (var 1)) ≠ Drv2.resSigned none :=
  fun h => absurd (TIE_codec_resSigned_injective h) (by simp)

/-! ## refusals: a line that is no operation is answered `bad-op`, never by running some default operation -/

/-- the empty line, and a line whose first word is not an operation name -/
theorem TIE_codec_exec_bad_op (w : String) (ws : List String) (hw : Words (w :: ws))
    (h : w ∉ ["apply", "applyb", "reduceb", "reduce", "beta", "hist", "pred", "iso", "acc", "put", "mapp", "mabs",
      "udconst", "lexd", "lexc", "conv", "ast", "fold", "parse", "show", "showu", "enc", "signed", "vect", "vecn",
      "frompair", "fromopt", "fromres", "frombool", "numpair", "numopt", "numres", "tuple", "pi", "errmsg",
      "ordname"]) :
    exec "" = "bad-op" ∧ exec (lineOf (w :: ws)) = "bad-op" := by
  constructor
  · have : "" = lineOf [] := by decide
    rw [this, exec_lineOf Words.nil]
    rfl
  · rw [exec_lineOf hw, execToks_fall _ (by simp only [List.mem_cons, List.not_mem_nil, or_false, not_or] at h ⊢; simp [h])]
    simp only [List.mem_cons, List.not_mem_nil, or_false, not_or] at h
    rw [Drv2.exec2]
    all_goals (intros; simp_all)

example : exec "bogus 1 2" = "bad-op" := by
  have : "bogus 1 2" = lineOf ["bogus", "1", "2"] := by decide
  rw [this]
  exact (TIE_codec_exec_bad_op "bogus" ["1", "2"]
    (by intro w hw; simp at hw; rcases hw with rfl | rfl | rfl <;> decide) (by decide)).2
