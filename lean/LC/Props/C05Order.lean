/-
C05 — review remark P1: the word "order" in "HAP contracts the FIRST redex in the order `hapBefore`" is earned.

`hapBefore` (specification section of `LC/Proofs/PositionsMore.lean`: ten rules on positions, transcribing the
priorities of `beta_hap`) is a STRICT TOTAL ORDER on the redex positions of any term:

* `C05_hap_order_strict_total`  irreflexive, asymmetric, transitive (these three on ALL positions, no side condition),
                                trichotomous on the distinct redex positions of one term;
* `C05_hap_is_minimum`          `isHAP t p` ⇔ `p` is a redex position of `t` that no redex position precedes ⇔ `p` is a
                                redex position that precedes every other one: literally the minimum; it exists as soon
                                as `t` has a redex, and it is unique;
* `C05_hap_order_needs_redexes` trichotomy is NOT true of arbitrary pairs of positions, nor of arbitrary positions of
                                one term: the hypothesis "redex positions of the same term" is needed (no
                                counterexample to the reviewer's reading: the rules are total exactly where it matters);
* `C05_cbv_order_strict_total`  the same for `cbvBefore` (inner before outer, left before right), trichotomous on the
                                weak positions (outside every abstraction), where CBV looks for redexes.
-/
import LC.Proofs.PositionsOrder
import LC.Props.C05More

namespace LC
open Term Spec

/-- C05 (HAP): `hapBefore` is a strict total order on the redex positions of a term -/
theorem C05_hap_order_strict_total :
    (∀ p : Pos, ¬ hapBefore p p) ∧
    (∀ p q : Pos, hapBefore p q → ¬ hapBefore q p) ∧
    (∀ p q r : Pos, hapBefore p q → hapBefore q r → hapBefore p r) ∧
    (∀ (t : Term) (p q : Pos), redexAt t p → redexAt t q → p ≠ q → hapBefore p q ∨ hapBefore q p) :=
  ⟨hapBefore_irrefl, fun _ _ => hapBefore_asymm, fun _ _ _ => hapBefore_trans, hapBefore_total⟩

/-- non-vacuity: `(λ.(λ.1) 1) (λ.(λ.1) 1)` has the three redex positions `[R,B]`, `[]`, `[L,B]`; trichotomy relates
each pair, transitivity gives `[R,B]` before `[L,B]` from the other two, and `[]` is not before `[R,B]` -/
example :
    let t := app (abs (app (abs (var 1)) (var 1))) (abs (app (abs (var 1)) (var 1)))
    redexAt t [Dir.R, Dir.B] ∧ redexAt t [] ∧ redexAt t [Dir.L, Dir.B] ∧
    (hapBefore [Dir.R, Dir.B] [Dir.L, Dir.B] ∨ hapBefore [Dir.L, Dir.B] [Dir.R, Dir.B]) ∧
    hapBefore [Dir.R, Dir.B] [Dir.L, Dir.B] ∧ ¬ hapBefore [Dir.L, Dir.B] [Dir.R, Dir.B] := by
  intro t
  have h1 : redexAt t [Dir.R, Dir.B] := ⟨_, _, _, rfl⟩
  have h2 : redexAt t [] := ⟨_, _, _, rfl⟩
  have h3 : redexAt t [Dir.L, Dir.B] := ⟨_, _, _, rfl⟩
  have h13 : hapBefore [Dir.R, Dir.B] [Dir.L, Dir.B] :=
    C05_hap_order_strict_total.2.2.1 _ [] _ hapBefore.R_root (hapBefore.root_lateL (by simp [weak]))
  exact ⟨h1, h2, h3, C05_hap_order_strict_total.2.2.2 t _ _ h1 h3 (by decide), h13,
    C05_hap_order_strict_total.2.1 _ _ h13⟩

/-- C05 (HAP): `isHAP t p` says that `p` is THE MINIMUM of the redex positions of `t` in the strict total order
`hapBefore`: (a) it is a redex position that no redex position precedes (minimal); (b) equivalently a redex position
that precedes every other redex position (least — the definition); (c) a term with a redex has one; (d) at most one. -/
theorem C05_hap_is_minimum (t : Term) :
    (∀ p, isHAP t p ↔ redexAt t p ∧ ∀ q, redexAt t q → ¬ hapBefore q p) ∧
    (∀ p, isHAP t p ↔ redexAt t p ∧ ∀ q, redexAt t q → q ≠ p → hapBefore p q) ∧
    ((∃ q, redexAt t q) → ∃ p, isHAP t p) ∧
    (∀ p p', isHAP t p → isHAP t p' → p = p') := by
  refine ⟨fun p => isHAP_iff_minimal, fun p => ?_, fun ⟨q, hq⟩ => isHAP_exists hq,
    fun p p' => isHAP_unique⟩
  constructor
  · rintro ⟨hp, h⟩
    exact ⟨hp, fun q hq hne => (h q hq).resolve_left hne⟩
  · rintro ⟨hp, h⟩
    refine ⟨hp, fun q hq => ?_⟩
    by_cases hqp : q = p
    · exact Or.inl hqp
    · exact Or.inr (h q hq hqp)

/-- non-vacuity: in `(λ.(λ.1) 1) (λ.(λ.1) 1)` the minimum is `[R,B]` (the redex HAP contracts, see C05More.lean): no
redex precedes it; the root is a redex but not minimal -/
example :
    let t := app (abs (app (abs (var 1)) (var 1))) (abs (app (abs (var 1)) (var 1)))
    (redexAt t [Dir.R, Dir.B] ∧ ∀ q, redexAt t q → ¬ hapBefore q [Dir.R, Dir.B]) ∧
    ¬ (redexAt t [] ∧ ∀ q, redexAt t q → ¬ hapBefore q []) := by
  intro t
  refine ⟨((C05_hap_is_minimum t).1 _).1 ((sel_iff .HAP _ _).1 (by decide)), ?_⟩
  rintro ⟨_, h⟩
  exact h [Dir.R, Dir.B] ⟨_, _, _, rfl⟩ hapBefore.R_root

/-- the one step of HAP contracts the minimum of the redex positions (`C05_hap_exact` with the new reading) -/
theorem C05_hap_contracts_minimum (fuel : Nat) (t t' : Term) (c : Nat)
    (h : reduce .HAP 1 fuel t = some (t', c)) :
    (c = 1 ∧ ∃ p, redexAt t p ∧ (∀ q, redexAt t q → ¬ hapBefore q p) ∧ t' = contractAt t p) ∨
    (c = 0 ∧ t' = t ∧ ∀ p, ¬ redexAt t p) := by
  rcases C05_hap_exact fuel t t' c h with ⟨hc, p, hp, ht⟩ | h
  · obtain ⟨h1, h2⟩ := isHAP_iff_minimal.1 hp
    exact Or.inl ⟨hc, p, h1, h2, ht⟩
  · exact Or.inr h

example : reduce .HAP 1 9 (app (abs (app (abs (var 1)) (var 1))) (abs (app (abs (var 1)) (var 1))))
    = some (contractAt (app (abs (app (abs (var 1)) (var 1))) (abs (app (abs (var 1)) (var 1)))) [Dir.R, Dir.B], 1) := by
  decide

/-- the hypothesis of trichotomy is needed: `[B]` and `[L]` (positions that never coexist in a term) are unrelated, and
so are `[]` and `[B]`, both POSITIONS of `λ.1` (but the root of an abstraction is not a redex) -/
theorem C05_hap_order_needs_redexes :
    (¬ hapBefore [Dir.B] [Dir.L] ∧ ¬ hapBefore [Dir.L] [Dir.B]) ∧
    (¬ hapBefore [] [Dir.B] ∧ ¬ hapBefore [Dir.B] []) ∧
    (subAt (abs (var 1)) [] ≠ none ∧ subAt (abs (var 1)) [Dir.B] ≠ none) := by
  refine ⟨⟨?_, ?_⟩, ⟨?_, ?_⟩, by decide⟩ <;> intro h <;> cases h

/-- C05 (CBV): `cbvBefore` (inner before outer, left before right) is a strict order on all positions and total on
the weak positions (those outside every abstraction, where CBV looks for redexes) -/
theorem C05_cbv_order_strict_total :
    (∀ p : Pos, ¬ cbvBefore p p) ∧
    (∀ p q : Pos, cbvBefore p q → ¬ cbvBefore q p) ∧
    (∀ p q r : Pos, cbvBefore p q → cbvBefore q r → cbvBefore p r) ∧
    (∀ p q : Pos, weak p → weak q → p ≠ q → cbvBefore p q ∨ cbvBefore q p) :=
  ⟨fun _ h => cbvBefore_asymm h h, fun _ _ => cbvBefore_asymm, fun _ _ _ => cbvBefore_trans,
    fun _ _ => cbvBefore_total⟩

/-- non-vacuity: `[L,R]` is inside `[L]`, `[L]` is left of `[R]`; transitivity gives `[L,R]` before `[R]`.  Weakness is
needed for totality: `[B]` and `[L]` are unrelated -/
example : cbvBefore [Dir.L, Dir.R] [Dir.R] ∧ ¬ cbvBefore [Dir.B] [Dir.L] ∧ ¬ cbvBefore [Dir.L] [Dir.B] := by
  refine ⟨C05_cbv_order_strict_total.2.2.1 _ [Dir.L] _ (Or.inr ⟨[Dir.R], by simp, rfl⟩)
    (Or.inl ⟨[], [], [], rfl, rfl⟩), ?_, ?_⟩ <;>
  · rw [cbvBefore_cons]; simp [cbvBefore_nil_right]

end LC
