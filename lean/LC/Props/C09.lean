/-
C09 — parse accepts exactly well-formed expressions and returns the term they denote

"For either notation and every input composed of the documented lexical elements (either lambda
glyph, parentheses, whitespace, hexadecimal index digits, or letter-initial alphanumeric names with
binder dots), parse succeeds exactly when the input is well-formed - abstraction bodies extending
as far right as possible, left-associative application, balanced parentheses, non-empty bodies and
groups - and returns the denoted term: digits become indices, names resolve to their innermost
binder, and free names are numbered in order of first appearance above the binders in scope.
Redundant parentheses, whitespace and the choice of glyph never change the result, corresponding
inputs in the two notations give the same term, and ill-formed input yields Err, never a silently
truncated parse. A character that cannot start any token is reported as InvalidCharacter with that
character and its character index, and no string whatsoever makes parse panic."

Specification side
* `LC/Spec/Grammar.lean`: the reference grammar `Gr.DExpr / Gr.DAtoms / Gr.DAtom` over De Bruijn
  tokens (abstraction = `λ` followed by the whole rest of the group; LEFT-recursive application
  spine; parentheses only in pairs; no production for the empty string), the lexical map
  `Gr.tokenOf` and `Gr.Denotes cls s t` := every character of `s` is a token character or white
  space ∧ the token characters of `s` derive `t`.
* `LC/Spec/ClassicSpec.lean`: reference name resolution `Cl.resolveAll` on named tokens (scopes +
  free-name list), renderings `Cl.Renders` of named tokens as strings (any glyph, any whitespace,
  letter-initial alphanumeric names `Cl.WfName`), named terms `Cl.NTerm`, the standard
  named → De Bruijn translation `Cl.toDeBruijn`, all admissible printings `Cl.PrintsN / Cl.PrintsD`
  (necessary parentheses + any number of redundant ones).

Proof side: `LC/Proofs/Syntax/DeBruijn.lean` (lexer, `getAst`, `foldExprs` against the grammar) and
`LC/Proofs/Syntax/Classic.lean` (Classic lexer, `convertClassicTokens` against `Cl.resolveAll`,
printings).  This file assembles them.  The two developments each isolate the token-level stage of
`parse` (`parseTokens`, `Cl.tokenStage`); `C09.tokenStage_eq` identifies them, so that BOTH
notations go through one token-level parser which accepts exactly the grammar (`C09_token_level`).

Reading guide
* De Bruijn notation: `C09_dbr_ok_iff`, `C09_dbr_err_iff`, `C09_dbr_invalid_char(_exists)`.
* What "well-formed" means: `C09_grammar_unambiguous`, `C09_grammar_shape`, `C09_grammar_left_assoc`,
  `C09_grammar_tail_lam`.
* Invariance: `C09_dbr_whitespace_invariant`, `C09_dbr_glyph_invariant`, `C09_redundant_parens_*`,
  `C09_cla_whitespace_glyph_invariant`, `C09_cla_whitespace_before_backslash`, `C09_cla_denotes`
  (any redundant parentheses).
* Classic notation: `C09_cla_render`, `C09_cla_tokens`, `C09_cla_ok_iff`, `C09_cla_err_iff`,
  `C09_cla_wellformed_iff`, `C09_cla_wellformed_iff_printing`, `C09_cla_complete`,
  `C09_toDeBruijn_spec`, `C09_cla_denotes`, `C09_cla_invalid_char(_binder)(_backslash)(_glyph)`,
  `C09_cla_junk_after_name`, `C09_cla_glyph_ends_name`, `C09_cla_glyph_after_name_invariant`,
  `C09_cla_empty_binder_name(_parse)(_after)`.
  An identifier is a letter followed by alphanumeric characters other than the glyph `λ`
  (`Cl.WfName`).  A variable name ends at the end of the input or at the first character that is NOT
  alphanumeric or is the glyph `λ`, which is then lexed like any character at top level: whitespace,
  a parenthesis, a GLYPH — the backslash (`x\y.y` is `x (\y.y)`, `C09_cla_backslash_ends_name`,
  repair F9 of the crate) or `λ`, although it is a letter for Unicode (`xλy.y` is `x (λy.y)` too,
  `C09_cla_lambda_ends_name`, `C09_cla_glyph_ends_name`, repair F11 of the crate — before it `λ`
  continued the name) — and anything else that cannot start a token is `InvalidCharacter` (`x.y`,
  `x#`, `λx.x-`: `C09_cla_junk_after_name`, `C09_cla_junk_dot/_hash/_minus`; repair F10 of the
  crate — before it the junk was swallowed into the name).
  A binder name cannot be empty: `λ.x` is `InvalidCharacter 1 '.'` (`C09_cla_empty_binder_name`,
  `C09_cla_empty_binder_dot`, repair F12 of the crate — before it the binder had the empty name).
* Both: `C09_notations_agree*`, `C09_no_truncation*`, `C09_cla_unmatched_rparen`, `C09_no_panic`.
-/
import LC.Proofs.Syntax.DeBruijn
import LC.Proofs.Syntax.Classic
import LC.Props.C11

namespace LC
open Term Parser Spec

/-! ## helper lemmas -/

namespace C09

/-- the two token-level stages isolated by the two halves of the development are the same
function (`Cl.tokenStage` returns an `Outcome`, `parseTokens` an `Except`) -/
theorem tokenStage_eq (ts : List Token) :
    Cl.tokenStage ts =
      (match parseTokens ts with
       | .ok t => Outcome.ok t
       | .error e => Outcome.err e) := by
  unfold Cl.tokenStage parseTokens
  cases getAst ts with
  | error e => rfl
  | ok e =>
    cases e with
    | Abstraction => rfl
    | Variable i => rfl
    | Sequence es => simp only []; cases foldExprs es <;> rfl

theorem tokenStage_ok_iff (ts : List Token) (t : Term) :
    Cl.tokenStage ts = .ok t ↔ parseTokens ts = .ok t := by
  rw [tokenStage_eq]
  cases parseTokens ts <;> simp

/-- the parenthesis counter does not look at indices -/
theorem balAux_shape (ts : List Token) :
    ∀ d, C09D.balAux d (ts.map Cl.shape) = C09D.balAux d ts := by
  induction ts with
  | nil => intro d; rfl
  | cons tk ts ih =>
    intro d
    cases tk with
    | Lambda => simp [Cl.shape, C09D.balAux, ih]
    | Lparen => simp [Cl.shape, C09D.balAux, ih]
    | Rparen => cases d <;> simp [Cl.shape, C09D.balAux, ih]
    | Number n => simp [Cl.shape, C09D.balAux, ih]

/-- if some `)` of the named tokens is unmatched, the part of the input that the conversion looks
at (everything up to and including that `)`) is unbalanced -/
theorem balAux_truncated (cts : List CToken) :
    ∀ d, Cl.closesOk cts d = false →
      C09D.balAux d ((cts.take (Cl.scopedPrefix cts d)).map Cl.cshape) = false := by
  induction cts with
  | nil => intro d h; simp [Cl.closesOk] at h
  | cons c cts ih =>
    intro d h
    cases c with
    | CLambda n =>
      simp only [Cl.closesOk] at h
      simpa [Cl.scopedPrefix, Cl.cshape, C09D.balAux] using ih d h
    | CLparen =>
      simp only [Cl.closesOk] at h
      simpa [Cl.scopedPrefix, Cl.cshape, C09D.balAux] using ih (d + 1) h
    | CRparen =>
      cases d with
      | zero => simp [Cl.scopedPrefix, Cl.cshape, C09D.balAux]
      | succ d =>
        simp only [Cl.closesOk] at h
        simpa [Cl.scopedPrefix, Cl.cshape, C09D.balAux] using ih d h
    | CName n =>
      simp only [Cl.closesOk] at h
      simpa [Cl.scopedPrefix, Cl.cshape, C09D.balAux] using ih d h

/-- an unmatched `)` in the named tokens: the (truncated) resolved token list ends with an
unmatched `Rparen`, so it is not derivable in the grammar -/
theorem unmatched_not_DExpr (cts : List CToken) (ts : List Token)
    (h : Cl.resolveAll cts = some ts) (hc : Cl.closesOk cts 0 = false) (t : Term) :
    ¬ Gr.DExpr ts t := by
  intro hd
  obtain ⟨toks, h1, h2⟩ := convert_structure cts
  rw [convert_eq_resolve, h] at h1
  cases h1
  have hb := hd.balanced
  rw [← balAux_shape, h2, balAux_truncated cts 0 hc] at hb
  cases hb

/-- the token printer of `LC/Props/C11.lean` is the De Bruijn token printer of the Classic spec -/
theorem toks_eq_printD (t : Term) : ∀ ctx, C11.toks t ctx = Cl.printD t ctx := by
  induction t with
  | var i => intro ctx; rfl
  | abs b ih => intro ctx; simp [C11.toks, Cl.printD, C11.parenT, Cl.parenD, ih]
  | app l r ihl ihr => intro ctx; simp [C11.toks, Cl.printD, C11.parenT, Cl.parenD, ihl, ihr]

theorem tokenOf_lparen (cls : CharCls) : Gr.tokenOf cls 40 = some Token.Lparen := by
  simp [Gr.tokenOf]

theorem tokenOf_rparen (cls : CharCls) : Gr.tokenOf cls 41 = some Token.Rparen := by
  simp [Gr.tokenOf]

theorem valid_lparen (cls : CharCls) : Gr.ValidChar cls 40 := .inl (by simp [tokenOf_lparen])
theorem valid_rparen (cls : CharCls) : Gr.ValidChar cls 41 := .inl (by simp [tokenOf_rparen])

theorem tokensOf_append (cls : CharCls) (s s' : List Nat) :
    Gr.tokensOf cls (s ++ s') = Gr.tokensOf cls s ++ Gr.tokensOf cls s' := by
  simp [Gr.tokensOf, List.filterMap_append]

theorem tokensOf_lparen (cls : CharCls) (s : List Nat) :
    Gr.tokensOf cls (40 :: s) = Token.Lparen :: Gr.tokensOf cls s := by
  simp [Gr.tokensOf, tokenOf_lparen]

theorem tokensOf_rparen (cls : CharCls) (s : List Nat) :
    Gr.tokensOf cls (41 :: s) = Token.Rparen :: Gr.tokensOf cls s := by
  simp [Gr.tokensOf, tokenOf_rparen]

theorem shape_lambda {x : Token} (h : Cl.shape x = Token.Lambda) : x = Token.Lambda := by
  cases x <;> simp_all [Cl.shape]

theorem shape_lparen {x : Token} (h : Cl.shape x = Token.Lparen) : x = Token.Lparen := by
  cases x <;> simp_all [Cl.shape]

theorem shape_rparen {x : Token} (h : Cl.shape x = Token.Rparen) : x = Token.Rparen := by
  cases x <;> simp_all [Cl.shape]

theorem shape_number {x : Token} (h : Cl.shape x = Token.Number 0) : ∃ n, x = Token.Number n := by
  cases x <;> simp_all [Cl.shape]

/-- well-formedness does not depend on the indices: a token list with the same shape as a
well-formed one is well-formed -/
theorem DExpr_relabel {ts : List Token} {t : Term} (h : Gr.DExpr ts t) :
    ∀ ts', ts'.map Cl.shape = ts.map Cl.shape → ∃ t', Gr.DExpr ts' t' := by
  refine Gr.DExpr.rec
    (motive_1 := fun ts _ _ => ∀ ts', ts'.map Cl.shape = ts.map Cl.shape → ∃ t', Gr.DExpr ts' t')
    (motive_2 := fun ts _ _ => ∀ ts', ts'.map Cl.shape = ts.map Cl.shape → ∃ t', Gr.DAtoms ts' t')
    (motive_3 := fun ts _ _ => ∀ ts', ts'.map Cl.shape = ts.map Cl.shape → ∃ t', Gr.DAtom ts' t')
    ?lam ?atoms ?tailLam ?one ?snoc ?idx ?paren h
  case lam =>
    intro ts b _ ih ts' h'
    rw [List.map_cons, List.map_eq_cons_iff] at h'
    obtain ⟨x, r, rfl, hx, hr⟩ := h'
    obtain ⟨b', hb'⟩ := ih r hr
    rw [shape_lambda hx]
    exact ⟨_, .lam hb'⟩
  case atoms =>
    intro ts t _ ih ts' h'
    obtain ⟨t', ht'⟩ := ih ts' h'
    exact ⟨t', .atoms ht'⟩
  case tailLam =>
    intro ts us f b _ _ ih1 ih2 ts' h'
    rw [List.map_append, List.map_cons, List.map_eq_append_iff] at h'
    obtain ⟨l1, l2, rfl, h1, h2⟩ := h'
    rw [List.map_eq_cons_iff] at h2
    obtain ⟨x, r, rfl, hx, hr⟩ := h2
    obtain ⟨f', hf'⟩ := ih1 l1 h1
    obtain ⟨b', hb'⟩ := ih2 r hr
    rw [shape_lambda hx]
    exact ⟨_, .tailLam hf' hb'⟩
  case one =>
    intro ts t _ ih ts' h'
    obtain ⟨t', ht'⟩ := ih ts' h'
    exact ⟨t', .one ht'⟩
  case snoc =>
    intro ts us f a _ _ ih1 ih2 ts' h'
    rw [List.map_append, List.map_eq_append_iff] at h'
    obtain ⟨l1, l2, rfl, h1, h2⟩ := h'
    obtain ⟨f', hf'⟩ := ih1 l1 h1
    obtain ⟨a', ha'⟩ := ih2 l2 h2
    exact ⟨_, .snoc hf' ha'⟩
  case idx =>
    intro n ts' h'
    rw [List.map_cons, List.map_nil, List.map_eq_cons_iff] at h'
    obtain ⟨x, r, rfl, hx, hr⟩ := h'
    obtain ⟨m, rfl⟩ := shape_number hx
    rw [List.map_eq_nil_iff] at hr
    subst hr
    exact ⟨_, .idx m⟩
  case paren =>
    intro ts t _ ih ts' h'
    rw [List.cons_append, List.map_cons, List.map_append, List.map_eq_cons_iff] at h'
    obtain ⟨x, r, rfl, hx, hr⟩ := h'
    rw [List.map_eq_append_iff] at hr
    obtain ⟨l1, l2, rfl, h1, h2⟩ := hr
    rw [List.map_cons, List.map_nil, List.map_eq_cons_iff] at h2
    obtain ⟨y, r', rfl, hy, hr'⟩ := h2
    rw [List.map_eq_nil_iff] at hr'
    subst hr'
    obtain ⟨t', ht'⟩ := ih l1 h1
    rw [shape_lparen hx, shape_rparen hy]
    exact ⟨_, .paren ht'⟩

/-- balanced shapes have no unmatched `)` -/
theorem closesOk_of_balAux (cts : List CToken) :
    ∀ d, C09D.balAux d (cts.map Cl.cshape) = true → Cl.closesOk cts d = true := by
  induction cts with
  | nil => intro d _; rfl
  | cons c cts ih =>
    intro d h
    cases c with
    | CLambda n => simp only [Cl.closesOk]; exact ih d (by simpa [Cl.cshape, C09D.balAux] using h)
    | CLparen => simp only [Cl.closesOk]; exact ih (d + 1) (by simpa [Cl.cshape, C09D.balAux] using h)
    | CRparen =>
      cases d with
      | zero => simp [Cl.cshape, C09D.balAux] at h
      | succ d => simp only [Cl.closesOk]; exact ih d (by simpa [Cl.cshape, C09D.balAux] using h)
    | CName n => simp only [Cl.closesOk]; exact ih d (by simpa [Cl.cshape, C09D.balAux] using h)

theorem map_shape_shape (l : List Token) : (l.map Cl.shape).map Cl.shape = l.map Cl.shape := by
  rw [List.map_map]
  apply List.map_congr_left
  intro x _
  cases x <;> rfl

theorem map_shape_cshape (l : List CToken) : (l.map Cl.cshape).map Cl.shape = l.map Cl.cshape := by
  rw [List.map_map]
  apply List.map_congr_left
  intro x _
  cases x <;> rfl

theorem cshape_lambda {c : CToken} (h : Cl.cshape c = Token.Lambda) : ∃ n, c = CToken.CLambda n := by
  cases c <;> simp_all [Cl.cshape]

theorem cshape_lparen {c : CToken} (h : Cl.cshape c = Token.Lparen) : c = CToken.CLparen := by
  cases c <;> simp_all [Cl.cshape]

theorem cshape_rparen {c : CToken} (h : Cl.cshape c = Token.Rparen) : c = CToken.CRparen := by
  cases c <;> simp_all [Cl.cshape]

theorem cshape_number {c : CToken} {n : Nat} (h : Cl.cshape c = Token.Number n) :
    ∃ nm, c = CToken.CName nm := by
  cases c <;> simp_all [Cl.cshape]

/-- named tokens whose shape is well-formed are an admissible printing of some named term
(an expression prints a term at a non-argument, final position; a sequence of atoms at any
non-argument position; an atom anywhere) -/
theorem prints_of_DExpr {ts : List Token} {u : Term} (h : Gr.DExpr ts u) :
    ∀ cts : List CToken, cts.map Cl.cshape = ts → ∃ t, Cl.PrintsN t false true cts := by
  refine Gr.DExpr.rec
    (motive_1 := fun ts _ _ => ∀ cts : List CToken, cts.map Cl.cshape = ts →
      ∃ t, Cl.PrintsN t false true cts)
    (motive_2 := fun ts _ _ => ∀ cts : List CToken, cts.map Cl.cshape = ts →
      ∀ fin, ∃ t, Cl.PrintsN t false fin cts)
    (motive_3 := fun ts _ _ => ∀ cts : List CToken, cts.map Cl.cshape = ts →
      ∀ arg fin, ∃ t, Cl.PrintsN t arg fin cts)
    ?lam ?atoms ?tailLam ?one ?snoc ?idx ?paren h
  case lam =>
    intro ts b _ ih cts h'
    rw [List.map_eq_cons_iff] at h'
    obtain ⟨c, r, rfl, hc, hr⟩ := h'
    obtain ⟨n, rfl⟩ := cshape_lambda hc
    obtain ⟨b', hb'⟩ := ih r hr
    exact ⟨.nlam n b', .lam hb'⟩
  case atoms =>
    intro ts t _ ih cts h'
    exact ih cts h' true
  case tailLam =>
    intro ts us f b _ _ ih1 ih2 cts h'
    rw [List.map_eq_append_iff] at h'
    obtain ⟨l1, l2, rfl, h1, h2⟩ := h'
    rw [List.map_eq_cons_iff] at h2
    obtain ⟨c, r, rfl, hc, hr⟩ := h2
    obtain ⟨n, rfl⟩ := cshape_lambda hc
    obtain ⟨f', hf'⟩ := ih1 l1 h1 false
    obtain ⟨b', hb'⟩ := ih2 r hr
    exact ⟨.napp f' (.nlam n b'), .app hf' (.lam hb')⟩
  case one =>
    intro ts t _ ih cts h' fin
    exact ih cts h' false fin
  case snoc =>
    intro ts us f a _ _ ih1 ih2 cts h' fin
    rw [List.map_eq_append_iff] at h'
    obtain ⟨l1, l2, rfl, h1, h2⟩ := h'
    obtain ⟨f', hf'⟩ := ih1 l1 h1 false
    obtain ⟨a', ha'⟩ := ih2 l2 h2 true fin
    exact ⟨.napp f' a', .app hf' ha'⟩
  case idx =>
    intro n cts h' arg fin
    rw [List.map_eq_cons_iff] at h'
    obtain ⟨c, r, rfl, hc, hr⟩ := h'
    obtain ⟨nm, rfl⟩ := cshape_number hc
    rw [List.map_eq_nil_iff] at hr
    subst hr
    exact ⟨.nvar nm, .var⟩
  case paren =>
    intro ts t _ ih cts h' arg fin
    rw [List.cons_append, List.map_eq_cons_iff] at h'
    obtain ⟨c, r, rfl, hc, hr⟩ := h'
    rw [List.map_eq_append_iff] at hr
    obtain ⟨l1, l2, rfl, h1, h2⟩ := hr
    rw [List.map_eq_cons_iff] at h2
    obtain ⟨c', r', rfl, hc', hr'⟩ := h2
    rw [List.map_eq_nil_iff] at hr'
    subst hr'
    obtain ⟨t', ht'⟩ := ih l1 h1
    rw [cshape_lparen hc, cshape_rparen hc']
    exact ⟨t', .paren ht'⟩

end C09

/-! ## 1. De Bruijn notation -/

/-- C09, De Bruijn notation: `parse` succeeds with `t` exactly when the input is a well-formed
expression denoting `t`, i.e. (`Gr.Denotes`) every character is a token character (either glyph, a
parenthesis, a hexadecimal digit) or white space, and the token characters — digits become
indices — derive `t` in the reference grammar -/
theorem C09_dbr_ok_iff (cls : CharCls) (s : List Nat) (t : Term) :
    parse cls s .DeBruijn = .ok t ↔ Gr.Denotes cls s t :=
  parse_dbr_ok_iff cls s t

/-- … and returns `Err` (never a panic, never a truncated parse) exactly when it is not -/
theorem C09_dbr_err_iff (cls : CharCls) (s : List Nat) :
    (∃ e, parse cls s .DeBruijn = .err e) ↔ ¬ ∃ t, Gr.Denotes cls s t :=
  parse_dbr_err_iff cls s

/-- token level (shared by the two notations): the token-to-term stage of `parse` accepts exactly
the reference grammar and returns the denoted term -/
theorem C09_token_level (ts : List Token) (t : Term) : parseTokens ts = .ok t ↔ Gr.DExpr ts t :=
  parseTokens_iff ts t

/-- … and fails exactly on the token lists that are not derivable -/
theorem C09_token_level_err (ts : List Token) :
    (∃ e, parseTokens ts = .error e) ↔ ¬ ∃ t, Gr.DExpr ts t :=
  parseTokens_err_iff ts

/-- the De Bruijn lexer: it succeeds iff all characters are valid, and then returns the token
characters in order (white space dropped, one token per character) -/
theorem C09_dbr_lexer (cls : CharCls) (s : List Nat) (toks : List Token) :
    tokenizeDbr cls s = .ok toks ↔ (∀ c ∈ s, Gr.ValidChar cls c) ∧ toks = Gr.tokensOf cls s :=
  tokenizeDbr_spec cls s toks

/-- `parse` in De Bruijn notation = lexer, then the token-level stage; a lexical error wins -/
theorem C09_dbr_stages (cls : CharCls) (s : List Nat) :
    parse cls s .DeBruijn =
      match tokenizeDbr cls s with
      | .error e => .err e
      | .ok ts =>
        (match parseTokens ts with
         | .ok t => .ok t
         | .error e => .err e) :=
  parse_dbr_spec cls s

/-! ### what "well-formed" means: the grammar -/

/-- the grammar is unambiguous: a token list denotes at most one term -/
theorem C09_grammar_unambiguous {ts : List Token} {t t' : Term}
    (h : Gr.DExpr ts t) (h' : Gr.DExpr ts t') : t = t' :=
  h.unambiguous h'

/-- the shape of well-formed token lists:
1. abstraction bodies extend as far right as possible: an expression that starts with `λ` is an
   abstraction whose body is the WHOLE rest of the token list;
2. a well-formed expression is non-empty;
3. its parentheses are balanced (`C09D.balAux 0 ts`: reading `ts` from nesting depth 0 never closes
   an unopened parenthesis and ends at depth 0);
4. an empty group `()` anywhere,
5. an empty abstraction body `λ)` anywhere,
6. or an empty abstraction body at the end of the input make the token list ill-formed -/
theorem C09_grammar_shape :
    (∀ ts t, Gr.DExpr (Token.Lambda :: ts) t → ∃ b, t = abs b ∧ Gr.DExpr ts b) ∧
    (∀ ts t, Gr.DExpr ts t → ts ≠ []) ∧
    (∀ ts t, Gr.DExpr ts t → C09D.balAux 0 ts = true) ∧
    (∀ pre post t, ¬ Gr.DExpr (pre ++ Token.Lparen :: Token.Rparen :: post) t) ∧
    (∀ pre post t, ¬ Gr.DExpr (pre ++ Token.Lambda :: Token.Rparen :: post) t) ∧
    (∀ pre t, ¬ Gr.DExpr (pre ++ [Token.Lambda]) t) :=
  ⟨fun _ _ h => h.lam_inv, fun _ _ h => h.ne_nil, fun _ _ h => h.balanced,
   fun pre post t => (not_DExpr_empty pre post t).1,
   fun pre post t => (not_DExpr_empty pre post t).2.1,
   fun pre t => (not_DExpr_empty pre [] t).2.2⟩

/-- the same facts for the parser: the empty input, empty groups and empty bodies are rejected
wherever they occur -/
theorem C09_empty_rejected (pre post : List Token) :
    parseTokens [] = .error .EmptyExpression ∧
    (∃ e, parseTokens (pre ++ Token.Lparen :: Token.Rparen :: post) = .error e) ∧
    (∃ e, parseTokens (pre ++ Token.Lambda :: Token.Rparen :: post) = .error e) ∧
    (∃ e, parseTokens (pre ++ [Token.Lambda]) = .error e) :=
  ⟨by simp [parseTokens, getAst], parseTokens_empty_group pre post, parseTokens_empty_body pre post,
   parseTokens_empty_body_end pre⟩

/-- application associates to the left: a sequence of atoms `a₁ a₂ … aₙ` followed by one more
atom `a` denotes `app (… a₁ a₂ … aₙ) a` (and, by `C09_grammar_unambiguous`, nothing else) -/
theorem C09_grammar_left_assoc {ts us : List Token} {f a t : Term}
    (hf : Gr.DAtoms ts f) (ha : Gr.DAtom us a) (h : Gr.DExpr (ts ++ us) t) : t = app f a :=
  h.unambiguous (.atoms (.snoc hf ha))

/-- an unparenthesised abstraction after an application spine takes the whole rest of the group
as its body and is the last argument of the spine -/
theorem C09_grammar_tail_lam {ts us : List Token} {f b t : Term}
    (hf : Gr.DAtoms ts f) (hb : Gr.DExpr us b) (h : Gr.DExpr (ts ++ Token.Lambda :: us) t) :
    t = app f (abs b) :=
  h.unambiguous (.tailLam hf hb)

/-! ### lexical errors -/

/-- the first character that is neither a token character nor white space is reported as
`InvalidCharacter`, with its character index and the character -/
theorem C09_dbr_invalid_char (cls : CharCls) (pre post : List Nat) (c : Nat)
    (hpre : ∀ c' ∈ pre, Gr.ValidChar cls c') (hc : ¬ Gr.ValidChar cls c) :
    parse cls (pre ++ c :: post) .DeBruijn = .err (.InvalidCharacter pre.length c) :=
  parse_dbr_invalid cls pre post c hpre hc

/-- … and whenever the input contains such a character, that is the outcome -/
theorem C09_dbr_invalid_char_exists (cls : CharCls) (s : List Nat)
    (h : ¬ ∀ c ∈ s, Gr.ValidChar cls c) :
    ∃ pre c post, s = pre ++ c :: post ∧ (∀ c' ∈ pre, Gr.ValidChar cls c') ∧ ¬ Gr.ValidChar cls c ∧
      parse cls s .DeBruijn = .err (.InvalidCharacter pre.length c) := by
  cases ht : tokenizeDbr cls s with
  | ok toks => exact absurd ((tokenizeDbr_spec cls s toks).1 ht).1 h
  | error e =>
    obtain ⟨pre, c, post, rfl, h1, h2, _⟩ := tokenizeDbr_error cls s e ht
    exact ⟨pre, c, post, rfl, h1, h2, parse_dbr_invalid cls pre post c h1 h2⟩

/-! ### invariance: white space, glyph, redundant parentheses -/

/-- inserting or removing a white-space character anywhere does not change the result -/
theorem C09_dbr_whitespace_invariant (cls : CharCls) (pre post : List Nat) (w : Nat)
    (hw : cls.isWs w = true) (hn : Gr.tokenOf cls w = none) (t : Term) :
    parse cls (pre ++ w :: post) .DeBruijn = .ok t ↔ parse cls (pre ++ post) .DeBruijn = .ok t :=
  parse_dbr_ws_invariant cls pre post w hw hn t

/-- more generally, the outcome of a parse of valid characters depends only on the sequence of
token characters -/
theorem C09_dbr_tokens_only (cls : CharCls) (s s' : List Nat)
    (hs : ∀ c ∈ s, Gr.ValidChar cls c) (hs' : ∀ c ∈ s', Gr.ValidChar cls c)
    (h : Gr.tokensOf cls s = Gr.tokensOf cls s') :
    parse cls s .DeBruijn = parse cls s' .DeBruijn := by
  rw [parse_dbr_spec, parse_dbr_spec, tokenizeDbr_congr cls s s' hs hs' h]

/-- the choice of glyph (`λ` = 955 or `\` = 92) at any position changes nothing, not even an error -/
theorem C09_dbr_glyph_invariant (cls : CharCls) (pre post : List Nat) :
    parse cls (pre ++ 955 :: post) .DeBruijn = parse cls (pre ++ 92 :: post) .DeBruijn :=
  parse_dbr_glyph_invariant cls pre post

/-- redundant parentheses around a whole expression (grammar and token-level parser) -/
theorem C09_redundant_parens_whole {ts : List Token} {t : Term} :
    (Gr.DExpr ts t → Gr.DExpr (Token.Lparen :: ts ++ [Token.Rparen]) t) ∧
    (parseTokens ts = .ok t → parseTokens (Token.Lparen :: ts ++ [Token.Rparen]) = .ok t) :=
  ⟨fun h => h.paren_whole, parseTokens_paren_whole⟩

/-- … and on strings: `(s)` parses to the same term as `s` -/
theorem C09_redundant_parens_whole_str (cls : CharCls) (s : List Nat) (t : Term)
    (h : parse cls s .DeBruijn = .ok t) : parse cls (40 :: s ++ [41]) .DeBruijn = .ok t := by
  rw [parse_dbr_ok_iff] at h ⊢
  obtain ⟨hv, hd⟩ := h
  refine ⟨?_, ?_⟩
  · intro c hc
    simp only [List.cons_append, List.mem_cons, List.mem_append, List.not_mem_nil, or_false] at hc
    rcases hc with rfl | hc | rfl
    · exact C09.valid_lparen cls
    · exact hv c hc
    · exact C09.valid_rparen cls
  · rw [List.cons_append, C09.tokensOf_lparen, C09.tokensOf_append, C09.tokensOf_rparen]
    exact hd.paren_whole

/-- redundant parentheses around an atom (an index or a parenthesised expression), wherever it
occurs: replacing an occurrence of the atom `us` by `(us)` in ANY token list changes nothing —
the same term or the same error — for the parser, and nothing for the grammar -/
theorem C09_redundant_parens_atom (pre us post : List Token) (a : Term) (hu : Gr.DAtom us a) :
    parseTokens (pre ++ (Token.Lparen :: us ++ [Token.Rparen]) ++ post) =
      parseTokens (pre ++ us ++ post) ∧
    ∀ t, Gr.DExpr (pre ++ (Token.Lparen :: us ++ [Token.Rparen]) ++ post) t ↔
      Gr.DExpr (pre ++ us ++ post) t :=
  ⟨parseTokens_paren_atom pre us post a hu, fun t => hu.paren_in_context pre post t⟩

/-- … and on strings: if the token characters of `us` form an atom, `pre (us) post` and
`pre us post` parse to the same term -/
theorem C09_redundant_parens_atom_str (cls : CharCls) (pre us post : List Nat) (a t : Term)
    (hu : Gr.DAtom (Gr.tokensOf cls us) a) :
    parse cls (pre ++ (40 :: us ++ [41]) ++ post) .DeBruijn = .ok t ↔
      parse cls (pre ++ us ++ post) .DeBruijn = .ok t := by
  rw [parse_dbr_ok_iff, parse_dbr_ok_iff]
  unfold Gr.Denotes
  have hv : (∀ c ∈ pre ++ (40 :: us ++ [41]) ++ post, Gr.ValidChar cls c) ↔
      (∀ c ∈ pre ++ us ++ post, Gr.ValidChar cls c) := by
    constructor
    · intro h c hc
      apply h c
      simp only [List.mem_append, List.mem_cons, List.not_mem_nil, or_false] at hc ⊢
      rcases hc with (hc | hc) | hc
      · exact .inl (.inl hc)
      · exact .inl (.inr (.inl (.inr hc)))
      · exact .inr hc
    · intro h c hc
      simp only [List.cons_append, List.mem_append, List.mem_cons, List.not_mem_nil,
        or_false] at hc
      rcases hc with (hc | rfl | hc | rfl) | hc
      · exact h c (by simp [hc])
      · exact C09.valid_lparen cls
      · exact h c (by simp [hc])
      · exact C09.valid_rparen cls
      · exact h c (by simp [hc])
  have ht : Gr.tokensOf cls (pre ++ (40 :: us ++ [41]) ++ post) =
      Gr.tokensOf cls pre ++ (Token.Lparen :: Gr.tokensOf cls us ++ [Token.Rparen]) ++
        Gr.tokensOf cls post := by
    simp only [C09.tokensOf_append, List.cons_append, C09.tokensOf_lparen, C09.tokensOf_rparen]
    simp [Gr.tokensOf]
  rw [hv, ht, hu.paren_in_context, C09.tokensOf_append, C09.tokensOf_append]

/-! ## 2. Classic notation -/

/-- the Classic lexer on the documented lexical elements: on ANY rendering of a list of named
tokens — binders `glyph name .` with either glyph, letter-initial alphanumeric names, parentheses,
arbitrary whitespace — it returns exactly that list (so whitespace and glyph are irrelevant) -/
theorem C09_cla_render (cls : CharCls) (hcls : Cl.ClsOk cls) (cts : List CToken) (s : List Nat)
    (h : Cl.Renders cls cts s) : tokenizeCla cls s = .ok cts :=
  tokenizeCla_render cls hcls cts s h

/-- the code's name resolution (deque + counters, with a checked subtraction) is the reference
resolution: it never panics and resolves every name to its innermost binder / numbers free names
in order of first appearance above the binders in scope (`Cl.resolve`) -/
theorem C09_cla_resolution (cts : List CToken) :
    convertClassicTokens cts = Cl.resolveAll cts ∧ convertClassicTokens cts ≠ none :=
  ⟨convert_eq_resolve cts, convert_no_panic cts⟩

/-- Classic parsing = lexer, then the reference name resolution, then the SAME token-level parser
as in De Bruijn notation (which accepts exactly the grammar, `C09_token_level`) -/
theorem C09_cla_tokens (cls : CharCls) (s : List Nat) (cts : List CToken)
    (h : tokenizeCla cls s = .ok cts) :
    ∃ ts, Cl.resolveAll cts = some ts ∧
      parse cls s .Classic =
        (match parseTokens ts with
         | .ok t => .ok t
         | .error e => .err e) := by
  obtain ⟨ts, h1, h2⟩ := parse_cla_resolve cls s cts h
  exact ⟨ts, h1, by rw [h2, C09.tokenStage_eq]⟩

/-- lexical errors win: `parse` returns the lexer's error -/
theorem C09_cla_lex_error (cls : CharCls) (s : List Nat) (e : ParseError)
    (h : tokenizeCla cls s = .error e) : parse cls s .Classic = .err e := by
  rw [parse_cla_spec, h]

/-- C09, Classic notation: `parse` succeeds with `t` exactly when the resolved token list is a
well-formed expression denoting `t` -/
theorem C09_cla_ok_iff (cls : CharCls) (s : List Nat) (cts : List CToken) (ts : List Token)
    (t : Term) (h1 : tokenizeCla cls s = .ok cts) (h2 : Cl.resolveAll cts = some ts) :
    parse cls s .Classic = .ok t ↔ Gr.DExpr ts t := by
  obtain ⟨ts', h3, h4⟩ := C09_cla_tokens cls s cts h1
  rw [h2] at h3
  cases h3
  rw [h4, ← parseTokens_iff]
  cases parseTokens ts <;> simp

/-- … and returns `Err` exactly when it is not -/
theorem C09_cla_err_iff (cls : CharCls) (s : List Nat) (cts : List CToken) (ts : List Token)
    (h1 : tokenizeCla cls s = .ok cts) (h2 : Cl.resolveAll cts = some ts) :
    (∃ e, parse cls s .Classic = .err e) ↔ ¬ ∃ t, Gr.DExpr ts t := by
  obtain ⟨ts', h3, h4⟩ := C09_cla_tokens cls s cts h1
  rw [h2] at h3
  cases h3
  rw [h4, ← parseTokens_err_iff]
  cases parseTokens ts <;> simp

/-- the reference resolution is total -/
theorem C09_cla_resolve_total (cts : List CToken) : ∃ ts, Cl.resolveAll cts = some ts := by
  obtain ⟨ts, h, _⟩ := convert_structure cts
  exact ⟨ts, by rw [← convert_eq_resolve, h]⟩

/-! ### the denoted term: names → indices -/

/-- `List.idxOf?` (used by the translation below) returns the position of the FIRST occurrence;
in a list of binders ordered innermost first that is the innermost binder of that name -/
theorem C09_idxOf_spec (l : List (List Nat)) (n : List Nat) :
    (∀ p, l.idxOf? n = some p ↔ ∃ h : p < l.length, l[p] = n ∧ ∀ q (hq : q < p), l[q] ≠ n) ∧
    (l.idxOf? n = none ↔ n ∉ l) := by
  refine ⟨fun p => ?_, List.idxOf?_eq_none_iff⟩
  unfold List.idxOf?
  rw [List.findIdx?_eq_some_iff_getElem]
  simp

/-- the defining equations of the standard named → De Bruijn translation
(`binders`: the binders in scope, innermost first; `free`: the free names met so far, in order of
first appearance, threaded left to right):
* a name bound at position `p` of `binders` (its innermost binder) becomes the index `p + 1`;
* a free name already met, of rank `r` in `free`, becomes `binders.length + r + 1`;
* a new free name becomes `binders.length + free.length + 1` and is appended to `free`;
* an abstraction pushes its binder; an application translates the function, then the argument -/
theorem C09_toDeBruijn_spec :
    (∀ t, Cl.toDeBruijn t = (Cl.toDB [] [] t).1) ∧
    (∀ (binders free : List (List Nat)) n p, binders.idxOf? n = some p →
      Cl.toDB binders free (.nvar n) = (var (p + 1), free)) ∧
    (∀ (binders free : List (List Nat)) n r, binders.idxOf? n = none → free.idxOf? n = some r →
      Cl.toDB binders free (.nvar n) = (var (binders.length + r + 1), free)) ∧
    (∀ (binders free : List (List Nat)) n, binders.idxOf? n = none → free.idxOf? n = none →
      Cl.toDB binders free (.nvar n) = (var (binders.length + free.length + 1), free ++ [n])) ∧
    (∀ (binders free : List (List Nat)) n b,
      Cl.toDB binders free (.nlam n b) =
        (abs (Cl.toDB (n :: binders) free b).1, (Cl.toDB (n :: binders) free b).2)) ∧
    (∀ (binders free : List (List Nat)) f a,
      Cl.toDB binders free (.napp f a) =
        (app (Cl.toDB binders free f).1 (Cl.toDB binders (Cl.toDB binders free f).2 a).1,
         (Cl.toDB binders (Cl.toDB binders free f).2 a).2)) := by
  refine ⟨fun _ => rfl, ?_, ?_, ?_, fun _ _ _ _ => rfl, fun _ _ _ _ => rfl⟩
  · intro binders free n p h; simp [Cl.toDB, h]
  · intro binders free n r h1 h2; simp [Cl.toDB, h1, h2]
  · intro binders free n h1 h2; simp [Cl.toDB, h1, h2]

/-- the name resolution of the tokens IS that translation: resolving any admissible printing of a
named term (necessary parentheses + any redundant ones) gives an admissible printing, with the same
parentheses, of its translation -/
theorem C09_cla_resolve_denotes {t : Cl.NTerm} {arg fin : Bool} {cts : List CToken}
    (h : Cl.PrintsN t arg fin cts) :
    ∃ dts, Cl.resolveAll cts = some dts ∧ Cl.PrintsD (Cl.toDeBruijn t) arg fin dts :=
  resolve_prints_toDB h

/-- C09, the denoted term: any rendering (either glyph, any whitespace) of any admissible printing
(any redundant parentheses) of a named term `t` parses, in Classic notation, to its standard
De Bruijn translation: names resolve to their innermost binder, free names are numbered in order
of first appearance above the binders in scope -/
theorem C09_cla_denotes (cls : CharCls) (hcls : Cl.ClsOk cls) (t : Cl.NTerm) (arg fin : Bool)
    (cts : List CToken) (s : List Nat)
    (hp : Cl.PrintsN t arg fin cts) (hr : Cl.Renders cls cts s) :
    parse cls s .Classic = .ok (Cl.toDeBruijn t) :=
  parse_cla_prints cls hcls t arg fin cts s hp hr

/-- in particular for the crate's own parenthesisation discipline (`ctx` = 0 top level, 2 function
position, 3 argument position) -/
theorem C09_cla_denotes_print (cls : CharCls) (hcls : Cl.ClsOk cls) (t : Cl.NTerm) (ctx : Nat)
    (s : List Nat) (h : Cl.Renders cls (Cl.printN t ctx) s) :
    parse cls s .Classic = .ok (Cl.toDeBruijn t) :=
  parse_cla_print cls hcls t ctx s h

/-- whitespace and the choice of glyph never change the result: two renderings of the same named
tokens have the same outcome (term or error) -/
theorem C09_cla_whitespace_glyph_invariant (cls : CharCls) (hcls : Cl.ClsOk cls)
    (cts : List CToken) (s₁ s₂ : List Nat)
    (h₁ : Cl.Renders cls cts s₁) (h₂ : Cl.Renders cls cts s₂) :
    parse cls s₁ .Classic = parse cls s₂ .Classic :=
  parse_cla_render_indep cls hcls cts s₁ s₂ h₁ h₂

/-- whitespace between a variable name and a following BACKSLASH binder is optional: the backslash
(which is not alphanumeric, `Cl.ClsOk`, so can never be part of an identifier) ends the name.  After any prefix `pre` that renders
complete tokens and ends at top level, for any well-formed name `n`, any (possibly empty) run of
whitespace `ws` and any rendering `\ …` that starts with a backslash (necessarily a binder), the
strings `pre n ws \ …` and `pre n \ …` are renderings of the same named tokens … -/
theorem C09_cla_renders_name_backslash (cls : CharCls) (hcls : Cl.ClsOk cls)
    (ts₀ cts : List CToken) (pre n ws s : List Nat)
    (hpre : Cl.Renders cls ts₀ pre) (hend : Cl.EndsTop cls pre) (hn : Cl.WfName cls n)
    (hws : ∀ w ∈ ws, cls.isWs w = true) (hs : Cl.Renders cls cts (cBackslash :: s)) :
    Cl.Renders cls (ts₀ ++ CToken.CName n :: cts) (pre ++ (n ++ (ws ++ cBackslash :: s))) ∧
    Cl.Renders cls (ts₀ ++ CToken.CName n :: cts) (pre ++ (n ++ cBackslash :: s)) :=
  ⟨renders_name_backslash cls hcls ts₀ cts pre n ws s hpre hend hn hws hs,
   renders_name_backslash cls hcls ts₀ cts pre n [] s hpre hend hn (by simp) hs⟩

/-- … hence have the same outcome (term or error): inserting or omitting whitespace between a
variable name and a following backslash binder never changes the result -/
theorem C09_cla_whitespace_before_backslash (cls : CharCls) (hcls : Cl.ClsOk cls)
    (ts₀ cts : List CToken) (pre n ws s : List Nat)
    (hpre : Cl.Renders cls ts₀ pre) (hend : Cl.EndsTop cls pre) (hn : Cl.WfName cls n)
    (hws : ∀ w ∈ ws, cls.isWs w = true) (hs : Cl.Renders cls cts (cBackslash :: s)) :
    parse cls (pre ++ (n ++ (ws ++ cBackslash :: s))) .Classic
      = parse cls (pre ++ (n ++ cBackslash :: s)) .Classic :=
  have h := C09_cla_renders_name_backslash cls hcls ts₀ cts pre n ws s hpre hend hn hws hs
  C09_cla_whitespace_glyph_invariant cls hcls _ _ _ h.1 h.2

/-! ### lexical errors -/

/-- after a prefix that renders complete tokens and ends at top level (with whitespace, a
parenthesis or a binder dot), a character that cannot start any token — neither a glyph, a
parenthesis, whitespace nor a letter — is reported by `parse` as `InvalidCharacter`, with its
character index and the character -/
theorem C09_cla_invalid_char (cls : CharCls) (hcls : Cl.ClsOk cls)
    (ts₀ : List CToken) (pre : List Nat) (c : Nat) (post : List Nat)
    (hpre : Cl.Renders cls ts₀ pre) (hend : Cl.EndsTop cls pre)
    (hglyph : isLam c = false) (hlp : c ≠ cLparen) (hrp : c ≠ cRparen)
    (hws : cls.isWs c = false) (halpha : cls.isAlpha c = false) :
    parse cls (pre ++ c :: post) .Classic = .err (.InvalidCharacter pre.length c) :=
  C09_cla_lex_error cls _ _
    (tokenizeCla_invalid_top cls hcls ts₀ pre c post hpre hend hglyph hlp hrp hws halpha)

/-- JUNK DIRECTLY AFTER A VARIABLE NAME (the Classic analogue of `C09_dbr_invalid_char` for a
character that follows an identifier without a separator): after a prefix `pre` that renders
complete tokens and ends at top level, and a well-formed name `n` (a letter, then alphanumeric
characters other than the glyph `λ`), a character `c` that can neither continue the name (it is not alphanumeric) nor start
a token (it is not a glyph, a parenthesis, whitespace or a letter) is reported by `parse` as
`InvalidCharacter`, with its character index and the character — it is NOT swallowed into the name
(`x.y`, `x#`, `λx.x-` …).  (Under `Cl.ClsOk` a letter is alphanumeric, so `halpha` follows from
`halnum`; it is kept to state the five conditions side by side.) -/
theorem C09_cla_junk_after_name (cls : CharCls) (hcls : Cl.ClsOk cls)
    (ts₀ : List CToken) (pre n : List Nat) (c : Nat) (rest : List Nat)
    (hpre : Cl.Renders cls ts₀ pre) (hend : Cl.EndsTop cls pre) (hn : Cl.WfName cls n)
    (halnum : cls.isAlnum c = false)
    (hglyph : isLam c = false) (hlp : c ≠ cLparen) (hrp : c ≠ cRparen)
    (hws : cls.isWs c = false) (halpha : cls.isAlpha c = false) :
    parse cls (pre ++ n ++ c :: rest) .Classic
      = .err (.InvalidCharacter (pre.length + n.length) c) :=
  C09_cla_lex_error cls _ _
    (tokenizeCla_invalid_after_name cls hcls ts₀ pre n c rest hpre hend hn halnum hglyph hlp hrp
      hws halpha)

/-- the two cases together: a character that cannot start a token is reported with its index after
ANY rendering of complete tokens, provided the rendering ends at top level or the character is not
alphanumeric (so that it ends a name the rendering may end in) -/
theorem C09_cla_invalid_char_general (cls : CharCls) (hcls : Cl.ClsOk cls)
    (ts₀ : List CToken) (pre : List Nat) (c : Nat) (post : List Nat)
    (hpre : Cl.Renders cls ts₀ pre) (hend : Cl.EndsTop cls pre ∨ cls.isAlnum c = false)
    (hglyph : isLam c = false) (hlp : c ≠ cLparen) (hrp : c ≠ cRparen)
    (hws : cls.isWs c = false) (halpha : cls.isAlpha c = false) :
    parse cls (pre ++ c :: post) .Classic = .err (.InvalidCharacter pre.length c) :=
  C09_cla_lex_error cls _ _
    (tokenizeCla_invalid_top' cls hcls ts₀ pre c post hpre hend hglyph hlp hrp hws halpha)

/-- inside a binder (after the glyph and a possibly empty partial name `nm`), a character other than
the dot that cannot continue the name — not a letter if `nm` is empty, not alphanumeric otherwise —
is reported likewise.  (Since the repair F12 of the crate the dot itself is reported too when `nm`
is empty: `C09_cla_empty_binder_name`.) -/
theorem C09_cla_invalid_char_binder (cls : CharCls) (hcls : Cl.ClsOk cls)
    (ts₀ : List CToken) (pre : List Nat) (g : Nat) (nm : List Nat) (c : Nat) (post : List Nat)
    (hpre : Cl.Renders cls ts₀ pre) (hend : Cl.EndsTop cls pre) (hg : isLam g = true)
    (hnm : ∀ a as, nm = a :: as →
      cls.isAlpha a = true ∧ a ≠ cDot ∧ ∀ d ∈ as, cls.isAlnum d = true ∧ d ≠ cDot)
    (hdot : c ≠ cDot)
    (hbad : if nm = [] then cls.isAlpha c = false else cls.isAlnum c = false) :
    parse cls (pre ++ g :: (nm ++ c :: post)) .Classic
      = .err (.InvalidCharacter (pre.length + 1 + nm.length) c) :=
  C09_cla_lex_error cls _ _
    (tokenizeCla_invalid_binder cls hcls ts₀ pre g nm c post hpre hend hg hnm hdot hbad)

/-- the same for a binder opened by a backslash directly after a variable name (the backslash ends
the name): here the prefix may be ANY rendering of complete tokens -/
theorem C09_cla_invalid_char_binder_backslash (cls : CharCls) (hcls : Cl.ClsOk cls)
    (ts₀ : List CToken) (pre : List Nat) (nm : List Nat) (c : Nat) (post : List Nat)
    (hpre : Cl.Renders cls ts₀ pre)
    (hnm : ∀ a as, nm = a :: as →
      cls.isAlpha a = true ∧ a ≠ cDot ∧ ∀ d ∈ as, cls.isAlnum d = true ∧ d ≠ cDot)
    (hdot : c ≠ cDot)
    (hbad : if nm = [] then cls.isAlpha c = false else cls.isAlnum c = false) :
    parse cls (pre ++ cBackslash :: (nm ++ c :: post)) .Classic
      = .err (.InvalidCharacter (pre.length + 1 + nm.length) c) :=
  C09_cla_lex_error cls _ _
    (tokenizeCla_invalid_binder_backslash cls hcls ts₀ pre nm c post hpre hnm hdot hbad)

/-- … and, since the repair F11 of the crate, for a binder opened by EITHER glyph directly after a
variable name (the glyph `λ` ends the name too): the prefix may be ANY rendering of complete tokens
(`xλ1` ↦ `InvalidCharacter 2 '1'`) -/
theorem C09_cla_invalid_char_binder_glyph (cls : CharCls) (hcls : Cl.ClsOk cls)
    (ts₀ : List CToken) (pre : List Nat) (g : Nat) (nm : List Nat) (c : Nat) (post : List Nat)
    (hpre : Cl.Renders cls ts₀ pre) (hg : isLam g = true)
    (hnm : ∀ a as, nm = a :: as →
      cls.isAlpha a = true ∧ a ≠ cDot ∧ ∀ d ∈ as, cls.isAlnum d = true ∧ d ≠ cDot)
    (hdot : c ≠ cDot)
    (hbad : if nm = [] then cls.isAlpha c = false else cls.isAlnum c = false) :
    parse cls (pre ++ g :: (nm ++ c :: post)) .Classic
      = .err (.InvalidCharacter (pre.length + 1 + nm.length) c) :=
  C09_cla_lex_error cls _ _
    (tokenizeCla_invalid_binder_glyph cls hcls ts₀ pre g nm c post hpre hg hnm hdot hbad)

/-! ### the two glyphs after a variable name; the empty binder name (repairs F11, F12) -/

/-- A GLYPH ENDS A VARIABLE NAME (repair F11 of the crate for `λ`, F9 for the backslash): inside a
variable name (`acc` = the characters read so far), EITHER glyph ends the name — `CName acc` is
pushed — and opens a binder.  For the backslash this is because it is not alphanumeric
(`Cl.ClsOk`); the glyph `λ` IS a letter for Unicode, and is excluded from names by an explicit
test of the code (before the repair it continued the name: `xλy.y` was the name `xλy` followed by
an invalid dot). -/
theorem C09_cla_glyph_ends_name (cls : CharCls) (hcls : Cl.ClsOk cls) (acc : List Nat) (i : Nat)
    (g : Nat) (cs : List Nat) (hg : isLam g = true) :
    tokenizeClaAux cls (.name acc) i (g :: cs)
      = (CToken.CName acc :: ·) <$> tokenizeClaAux cls (.lam [] true) (i + 1) cs :=
  C09C.lex_name_glyph hcls acc i hg cs

/-- … so directly after a variable name the two glyphs are interchangeable: inside a name, the
lexer does the same on `λ …` as on `\ …`, for every classification satisfying `Cl.ClsOk` -/
theorem C09_cla_glyph_after_name_invariant (cls : CharCls) (hcls : Cl.ClsOk cls) (acc : List Nat)
    (i : Nat) (cs : List Nat) :
    tokenizeClaAux cls (.name acc) i (cLambda :: cs)
      = tokenizeClaAux cls (.name acc) i (cBackslash :: cs) := by
  rw [C09_cla_glyph_ends_name cls hcls acc i cLambda cs (by decide),
    C09_cla_glyph_ends_name cls hcls acc i cBackslash cs (by decide)]

/-- the same for `parse`: after ANY rendering `pre` of complete tokens — whether it ends at top
level or inside a variable name — the strings `pre λ …` and `pre \ …` have the same outcome (term
or error).  (Not so INSIDE A BINDER name, where `λ` is still an ordinary letter: `λxλy.x` has one
binder named `xλy`, while `λx\y.x` is `InvalidCharacter 2 '\'`; see the examples below.) -/
theorem C09_cla_glyph_after_tokens_invariant (cls : CharCls) (hcls : Cl.ClsOk cls)
    (ts₀ : List CToken) (pre s : List Nat) (hpre : Cl.Renders cls ts₀ pre) :
    parse cls (pre ++ cLambda :: s) .Classic = parse cls (pre ++ cBackslash :: s) .Classic := by
  have h : tokenizeCla cls (pre ++ cLambda :: s) = tokenizeCla cls (pre ++ cBackslash :: s) := by
    unfold tokenizeCla
    rw [C09C.lex_prefix' hcls hpre 0 _ (Or.inr (C09C.nameEnd_glyph hcls (by decide) s)),
      C09C.lex_prefix' hcls hpre 0 _ (Or.inr (C09C.nameEnd_glyph hcls (by decide) s)),
      C09C.lex_top_glyph (by decide), C09C.lex_top_glyph (by decide)]
  rw [parse_cla_spec, parse_cla_spec, h]

/-- whitespace between a variable name and a following binder is optional, WHICHEVER the glyph
(generalises `C09_cla_renders_name_backslash` to `λ`): the strings `pre n ws g …` and `pre n g …`
are renderings of the same named tokens … -/
theorem C09_cla_renders_name_glyph (cls : CharCls) (hcls : Cl.ClsOk cls)
    (ts₀ cts : List CToken) (pre n ws s : List Nat) (g : Nat) (hg : isLam g = true)
    (hpre : Cl.Renders cls ts₀ pre) (hend : Cl.EndsTop cls pre) (hn : Cl.WfName cls n)
    (hws : ∀ w ∈ ws, cls.isWs w = true) (hs : Cl.Renders cls cts (g :: s)) :
    Cl.Renders cls (ts₀ ++ CToken.CName n :: cts) (pre ++ (n ++ (ws ++ g :: s))) ∧
    Cl.Renders cls (ts₀ ++ CToken.CName n :: cts) (pre ++ (n ++ g :: s)) :=
  ⟨renders_name_glyph cls hcls ts₀ cts pre n ws s g hg hpre hend hn hws hs,
   renders_name_glyph cls hcls ts₀ cts pre n [] s g hg hpre hend hn (by simp) hs⟩

/-- … hence have the same outcome -/
theorem C09_cla_whitespace_before_glyph (cls : CharCls) (hcls : Cl.ClsOk cls)
    (ts₀ cts : List CToken) (pre n ws s : List Nat) (g : Nat) (hg : isLam g = true)
    (hpre : Cl.Renders cls ts₀ pre) (hend : Cl.EndsTop cls pre) (hn : Cl.WfName cls n)
    (hws : ∀ w ∈ ws, cls.isWs w = true) (hs : Cl.Renders cls cts (g :: s)) :
    parse cls (pre ++ (n ++ (ws ++ g :: s))) .Classic
      = parse cls (pre ++ (n ++ g :: s)) .Classic :=
  have h := C09_cla_renders_name_glyph cls hcls ts₀ cts pre n ws s g hg hpre hend hn hws hs
  C09_cla_whitespace_glyph_invariant cls hcls _ _ _ h.1 h.2

/-- AN EMPTY BINDER NAME IS A LEXICAL ERROR (repair F12 of the crate): a glyph directly followed by
the dot is reported as `InvalidCharacter` AT THE DOT, for every classification in which the dot is
not a letter (`hdot`: true of Rust's `char::is_alphabetic`; `Cl.ClsOk` says nothing about the dot,
so this is a separate hypothesis, and `Cl.ClsOk` itself is not needed).  Before the repair the dot
ended the binder at once and `λ.x` lexed as a binder with the EMPTY name. -/
theorem C09_cla_empty_binder_name (cls : CharCls) (hdot : cls.isAlpha cDot = false)
    (g : Nat) (hg : isLam g = true) (i : Nat) (cs : List Nat) :
    tokenizeClaAux cls .top i (g :: cDot :: cs) = .error (.InvalidCharacter (i + 1) cDot) := by
  rw [C09C.lex_top_glyph hg, C09C.lex_lam_first_bad hdot]

/-- … so `parse` returns that error on every input that starts with an empty binder … -/
theorem C09_cla_empty_binder_name_parse (cls : CharCls) (hdot : cls.isAlpha cDot = false)
    (g : Nat) (hg : isLam g = true) (cs : List Nat) :
    parse cls (g :: cDot :: cs) .Classic = .err (.InvalidCharacter 1 cDot) :=
  C09_cla_lex_error cls _ _ (C09_cla_empty_binder_name cls hdot g hg 0 cs)

/-- … and wherever an empty binder follows ANY rendering `pre` of complete tokens (also directly
after a variable name, which the glyph ends): the dot is reported with its character index -/
theorem C09_cla_empty_binder_name_after (cls : CharCls) (hcls : Cl.ClsOk cls)
    (hdot : cls.isAlpha cDot = false) (ts₀ : List CToken) (pre : List Nat) (g : Nat)
    (post : List Nat) (hpre : Cl.Renders cls ts₀ pre) (hg : isLam g = true) :
    parse cls (pre ++ g :: cDot :: post) .Classic
      = .err (.InvalidCharacter (pre.length + 1) cDot) :=
  C09_cla_lex_error cls _ _ (tokenizeCla_empty_binder cls hcls hdot ts₀ pre g post hpre hg)

section
open C09C.Examples (asciiCls asciiCls_ok wf_x)

/-- `C09_cla_glyph_ends_name` on `xλy.y` and `x\y.y` (the lexer is inside the name `x`, at
character 1): `CName x`, then the binder -/
example : tokenizeClaAux asciiCls (.name [120]) 1 [955, 121, 46, 121]
    = (CToken.CName [120] :: ·) <$> tokenizeClaAux asciiCls (.lam [] true) 2 [121, 46, 121] :=
  C09_cla_glyph_ends_name asciiCls asciiCls_ok [120] 1 955 _ (by decide)
example : tokenizeClaAux asciiCls (.name [120]) 1 [92, 121, 46, 121]
    = (CToken.CName [120] :: ·) <$> tokenizeClaAux asciiCls (.lam [] true) 2 [121, 46, 121] :=
  C09_cla_glyph_ends_name asciiCls asciiCls_ok [120] 1 92 _ (by decide)

/-- `xλy.y` lexes exactly as `x\y.y`: `x`, `λy.`, `y` (by evaluation, and from the theorems) -/
example : tokenizeCla asciiCls [120, 955, 121, 46, 121]
    = .ok [.CName [120], .CLambda [121], .CName [121]] := rfl
example : tokenizeCla asciiCls [120, 955, 121, 46, 121]
    = tokenizeCla asciiCls [120, 92, 121, 46, 121] := rfl
example : tokenizeClaAux asciiCls (.name [120]) 1 (cLambda :: [121, 46, 121])
    = tokenizeClaAux asciiCls (.name [120]) 1 (cBackslash :: [121, 46, 121]) :=
  C09_cla_glyph_after_name_invariant asciiCls asciiCls_ok [120] 1 _
example : parse asciiCls ([120] ++ cLambda :: [121, 46, 121]) .Classic
    = parse asciiCls ([120] ++ cBackslash :: [121, 46, 121]) .Classic :=
  C09_cla_glyph_after_tokens_invariant asciiCls asciiCls_ok [.CName [120]] [120] _
    (.name (n := [120]) wf_x trivial .nil)

/-- `xλ1`: the binder opened by `λ` directly after a name is validated; `1` is character 2 -/
example : parse asciiCls ([120] ++ 955 :: ([] ++ 49 :: [])) .Classic
    = .err (.InvalidCharacter 2 49) :=
  C09_cla_invalid_char_binder_glyph asciiCls asciiCls_ok [.CName [120]] [120] 955 [] 49 []
    (.name (n := [120]) wf_x trivial .nil) (by decide) (by intro a as h; cases h) (by decide)
    (by decide)

/-- `λ.x`, `\.x`: an empty binder name; the dot is character 1 -/
example : tokenizeClaAux asciiCls .top 0 (955 :: cDot :: [120])
    = .error (.InvalidCharacter (0 + 1) cDot) :=
  C09_cla_empty_binder_name asciiCls (by decide) 955 (by decide) 0 _
example : parse asciiCls (955 :: cDot :: [120]) .Classic = .err (.InvalidCharacter 1 cDot) :=
  C09_cla_empty_binder_name_parse asciiCls (by decide) 955 (by decide) _
example : parse asciiCls (92 :: cDot :: [120]) .Classic = .err (.InvalidCharacter 1 cDot) :=
  C09_cla_empty_binder_name_parse asciiCls (by decide) 92 (by decide) _
example : parse asciiCls [955, 46, 120] .Classic = .err (.InvalidCharacter 1 46) := rfl

/-- `xλ.x`: an empty binder directly after a name; the dot is character 2 -/
example : parse asciiCls ([120] ++ 955 :: cDot :: [120]) .Classic
    = .err (.InvalidCharacter (1 + 1) cDot) :=
  C09_cla_empty_binder_name_after asciiCls asciiCls_ok (by decide) [.CName [120]] [120] 955 [120]
    (.name (n := [120]) wf_x trivial .nil) (by decide)

/-- UNCHANGED by the repairs: an unterminated (possibly empty) binder at the end of the input is
pushed as it is (`λx`, `λ`; the token-level stage then rejects the empty body), and INSIDE A BINDER
name `λ` is an ordinary letter (`λxλy.x` has ONE binder, named `xλy`; `\λ.x` has a binder named
`λ`) whereas the backslash is not (`λx\y.x` ↦ `InvalidCharacter 2 '\'`) -/
example : tokenizeCla asciiCls [955, 120] = .ok [.CLambda [120]] := rfl
example : tokenizeCla asciiCls [955] = .ok [.CLambda []] := rfl
example : tokenizeCla asciiCls [955, 120, 955, 121, 46, 120]
    = .ok [.CLambda [120, 955, 121], .CName [120]] := rfl
example : tokenizeCla asciiCls [92, 955, 46, 120] = .ok [.CLambda [955], .CName [120]] := rfl
example : tokenizeCla asciiCls [955, 120, 92, 121, 46, 120]
    = .error (.InvalidCharacter 2 92) := rfl

end

/-! ## 3. the two notations agree -/

/-- corresponding inputs in the two notations give the same result: a Classic input whose named
tokens resolve to the De Bruijn tokens of a De Bruijn input has the same outcome -/
theorem C09_notations_agree (cls : CharCls) (s s' : List Nat) (cts : List CToken)
    (ts : List Token) (hc : tokenizeCla cls s = .ok cts) (hd : tokenizeDbr cls s' = .ok ts)
    (hr : Cl.resolveAll cts = some ts) :
    parse cls s .Classic = parse cls s' .DeBruijn :=
  parse_cla_eq_dbr cls s s' cts ts hc hd hr

/-- tree level, on tokens (no restriction on the indices): the named tokens of the printing of a
named term resolve to the De Bruijn printing of its translation, and that printing is read back by
the token-level parser as the translation -/
theorem C09_notations_agree_tokens (t : Cl.NTerm) (ctx : Nat) :
    Cl.resolveAll (Cl.printN t ctx) = some (Cl.printD (Cl.toDeBruijn t) ctx) ∧
    parseTokens (Cl.printD (Cl.toDeBruijn t) ctx) = .ok (Cl.toDeBruijn t) :=
  ⟨resolve_print_toDB t ctx, (C09.tokenStage_ok_iff _ _).1 (C09C.tokenStage_printD _ ctx)⟩

/-- the same for all admissible printings (any redundant parentheses, the same on both sides) -/
theorem C09_notations_agree_prints {t : Cl.NTerm} {arg fin : Bool} {cts : List CToken}
    (h : Cl.PrintsN t arg fin cts) :
    ∃ dts, Cl.resolveAll cts = some dts ∧ Cl.PrintsD (Cl.toDeBruijn t) arg fin dts ∧
      parseTokens dts = .ok (Cl.toDeBruijn t) := by
  obtain ⟨dts, h1, h2⟩ := resolve_prints_toDB h
  exact ⟨dts, h1, h2, (C09.tokenStage_ok_iff _ _).1 (C09C.tokenStage_prints h2)⟩

/-- every admissible printing of a De Bruijn term (any indices, any redundant parentheses) is a
well-formed expression denoting that term -/
theorem C09_prints_wellformed {t : Term} {arg fin : Bool} {dts : List Token}
    (h : Cl.PrintsD t arg fin dts) : Gr.DExpr dts t :=
  (parseTokens_iff _ _).1 ((C09.tokenStage_ok_iff _ _).1 (C09C.tokenStage_prints h))

/-- tree level, on strings: ANY De Bruijn input `s'` whose tokens are an admissible printing of the
translation of `t`, and ANY rendering `s` of an admissible printing of the named term `t`, parse
(each in its notation) to the same term, the translation of `t` -/
theorem C09_notations_agree_strings (cls : CharCls) (hcls : Cl.ClsOk cls) (t : Cl.NTerm)
    (arg fin arg' fin' : Bool) (cts : List CToken) (s : List Nat) (dts : List Token) (s' : List Nat)
    (hp : Cl.PrintsN t arg fin cts) (hr : Cl.Renders cls cts s)
    (hp' : Cl.PrintsD (Cl.toDeBruijn t) arg' fin' dts) (hd : tokenizeDbr cls s' = .ok dts) :
    parse cls s .Classic = .ok (Cl.toDeBruijn t) ∧ parse cls s' .DeBruijn = .ok (Cl.toDeBruijn t) := by
  refine ⟨parse_cla_prints cls hcls t arg fin cts s hp hr, ?_⟩
  rw [parse_dbr_spec, hd]
  simp only [(C09.tokenStage_ok_iff _ _).1 (C09C.tokenStage_prints hp')]

/-- tree level, with the crate's own De Bruijn printer (`Display.debug`, one hexadecimal digit per
index, hence the restriction to indices in 1..=15): the Debug output of the translation of `t`
lexes to the De Bruijn token printing of the translation — the tokens which the Classic printing
of `t` resolves to — and parses, in De Bruijn notation, to the same term as any rendering of any
admissible Classic printing of `t` -/
theorem C09_notations_agree_tree (cls : CharCls) (hcls : Cl.ClsOk cls) (hx : C11.HexOk cls)
    (lam : Nat) (hl : lam = 955 ∨ lam = 92) (t : Cl.NTerm)
    (hs : smallIdx (Cl.toDeBruijn t) = true)
    (arg fin : Bool) (cts : List CToken) (s : List Nat)
    (hp : Cl.PrintsN t arg fin cts) (hr : Cl.Renders cls cts s) :
    tokenizeDbr cls (Display.debug lam (Cl.toDeBruijn t)) = .ok (Cl.printD (Cl.toDeBruijn t) 0) ∧
    Cl.resolveAll (Cl.printN t 0) = some (Cl.printD (Cl.toDeBruijn t) 0) ∧
    parse cls s .Classic = parse cls (Display.debug lam (Cl.toDeBruijn t)) .DeBruijn ∧
    parse cls s .Classic = .ok (Cl.toDeBruijn t) := by
  have h1 := C11.lex_debug cls hx lam hl _ hs
  rw [C09.toks_eq_printD] at h1
  have h2 := parse_cla_prints cls hcls t arg fin cts s hp hr
  exact ⟨h1, resolve_print_toDB t 0, by rw [h2, C11_roundtrip cls hx lam hl _ hs], h2⟩

/-! ## 4. no truncated parse, no panic -/

/-- De Bruijn notation: a successful parse has derived the WHOLE token list of the input -/
theorem C09_no_truncation_dbr (cls : CharCls) (s : List Nat) (t : Term)
    (h : parse cls s .DeBruijn = .ok t) :
    tokenizeDbr cls s = .ok (Gr.tokensOf cls s) ∧ Gr.DExpr (Gr.tokensOf cls s) t := by
  obtain ⟨hv, hd⟩ := (parse_dbr_ok_iff cls s t).1 h
  exact ⟨(tokenizeDbr_spec cls s _).2 ⟨hv, rfl⟩, hd⟩

/-- Classic notation: the Rust conversion stops at an unmatched `)` (its output is then a proper
prefix of the input); such an input is an `Err`, not a parse of the prefix -/
theorem C09_cla_unmatched_rparen (cls : CharCls) (s : List Nat) (cts : List CToken)
    (h : tokenizeCla cls s = .ok cts) (hc : Cl.closesOk cts 0 = false) :
    ∃ e, parse cls s .Classic = .err e := by
  obtain ⟨ts, hts⟩ := C09_cla_resolve_total cts
  rw [C09_cla_err_iff cls s cts ts h hts]
  rintro ⟨t, ht⟩
  exact C09.unmatched_not_DExpr cts ts hts hc t ht

/-- Classic notation: a successful parse has derived a token list with exactly one token per named
token of the input, of the same kind (`Lambda`↔binder, parentheses↔parentheses, `Number`↔name):
nothing was cut off at an unmatched `)` -/
theorem C09_no_truncation_cla (cls : CharCls) (s : List Nat) (cts : List CToken) (t : Term)
    (hp : parse cls s .Classic = .ok t) (hc : tokenizeCla cls s = .ok cts) :
    ∃ ts, Cl.resolveAll cts = some ts ∧ ts.length = cts.length ∧
      ts.map Cl.shape = cts.map Cl.cshape ∧ Cl.closesOk cts 0 = true ∧ Gr.DExpr ts t := by
  obtain ⟨ts, hts⟩ := C09_cla_resolve_total cts
  have hd : Gr.DExpr ts t := (C09_cla_ok_iff cls s cts ts t hc hts).1 hp
  have hok : Cl.closesOk cts 0 = true := by
    cases hcl : Cl.closesOk cts 0 with
    | true => rfl
    | false => exact absurd hd (C09.unmatched_not_DExpr cts ts hts hcl t)
  obtain ⟨toks, h1, h2, h3⟩ := convert_length cts hok
  rw [convert_eq_resolve, hts] at h1
  cases h1
  exact ⟨ts, hts, h2, h3, hok, hd⟩

/-- C09, Classic notation, "succeeds exactly when the input is well-formed": whether a Classic
input parses depends only on the SHAPE of its named tokens (`Cl.cshape`: binder ↦ `λ`, parentheses,
name ↦ an index) — it parses iff that shape is a well-formed expression of the grammar -/
theorem C09_cla_wellformed_iff (cls : CharCls) (s : List Nat) (cts : List CToken)
    (h : tokenizeCla cls s = .ok cts) :
    (∃ t, parse cls s .Classic = .ok t) ↔ ∃ u, Gr.DExpr (cts.map Cl.cshape) u := by
  constructor
  · rintro ⟨t, ht⟩
    obtain ⟨ts, _, _, h3, _, h5⟩ := C09_no_truncation_cla cls s cts t ht h
    exact C09.DExpr_relabel h5 _ (by rw [← h3, C09.map_shape_shape])
  · rintro ⟨u, hu⟩
    have hok := C09.closesOk_of_balAux cts 0 hu.balanced
    obtain ⟨toks, h1, _, h3⟩ := convert_length cts hok
    rw [convert_eq_resolve] at h1
    obtain ⟨t, ht⟩ := C09.DExpr_relabel hu toks (by rw [C09.map_shape_cshape, h3])
    exact ⟨t, (C09_cla_ok_iff cls s cts toks t h h1).2 ht⟩

/-- for inputs composed of the documented lexical elements: `parse` succeeds exactly when the shape
of the named tokens is a well-formed expression -/
theorem C09_cla_rendered_wellformed_iff (cls : CharCls) (hcls : Cl.ClsOk cls) (cts : List CToken)
    (s : List Nat) (hr : Cl.Renders cls cts s) :
    (∃ t, parse cls s .Classic = .ok t) ↔ ∃ u, Gr.DExpr (cts.map Cl.cshape) u :=
  C09_cla_wellformed_iff cls s cts (tokenizeCla_render cls hcls cts s hr)

/-- the well-formed named-token lists are exactly the admissible printings of named terms (at
whole-expression position: `arg = false`, `fin = true`) -/
theorem C09_cla_wellformed_iff_printing (cts : List CToken) :
    (∃ u, Gr.DExpr (cts.map Cl.cshape) u) ↔ ∃ t, Cl.PrintsN t false true cts := by
  constructor
  · rintro ⟨u, hu⟩
    exact C09.prints_of_DExpr hu cts rfl
  · rintro ⟨t, ht⟩
    obtain ⟨dts, h1, h2⟩ := resolve_prints_toDB ht
    have hd : Gr.DExpr dts (Cl.toDeBruijn t) :=
      (parseTokens_iff _ _).1 ((C09.tokenStage_ok_iff _ _).1 (C09C.tokenStage_prints h2))
    have hok : Cl.closesOk cts 0 = true := by
      cases hcl : Cl.closesOk cts 0 with
      | true => rfl
      | false => exact absurd hd (C09.unmatched_not_DExpr cts dts h1 hcl _)
    obtain ⟨toks, h3, _, h4⟩ := convert_length cts hok
    rw [convert_eq_resolve, h1] at h3
    cases h3
    exact C09.DExpr_relabel hd _ (by rw [C09.map_shape_cshape, h4])

/-- C09, Classic notation, complete form.  For every input `s` composed of the documented lexical
elements (a rendering of named tokens `cts`):
* `parse` succeeds exactly when `cts` is an admissible printing of some named term, i.e.
  (`C09_cla_wellformed_iff_printing`) exactly when the input is well-formed;
* and then, for EVERY named term `nt` that `cts` is a printing of, the result is the standard
  De Bruijn translation of `nt` (so all such `nt` have the same translation) -/
theorem C09_cla_complete (cls : CharCls) (hcls : Cl.ClsOk cls) (cts : List CToken) (s : List Nat)
    (hr : Cl.Renders cls cts s) :
    ((∃ t, parse cls s .Classic = .ok t) ↔ ∃ nt, Cl.PrintsN nt false true cts) ∧
    (∀ nt, Cl.PrintsN nt false true cts → parse cls s .Classic = .ok (Cl.toDeBruijn nt)) :=
  ⟨(C09_cla_rendered_wellformed_iff cls hcls cts s hr).trans (C09_cla_wellformed_iff_printing cts),
   fun nt hp => parse_cla_prints cls hcls nt false true cts s hp hr⟩

/-- C09, no silently truncated parse, both notations: whenever `parse` succeeds, the WHOLE token
list of the input is derived in the grammar -/
theorem C09_no_truncation (cls : CharCls) (s : List Nat) (n : Notation) (t : Term)
    (h : parse cls s n = .ok t) :
    match n with
    | .DeBruijn => tokenizeDbr cls s = .ok (Gr.tokensOf cls s) ∧ Gr.DExpr (Gr.tokensOf cls s) t
    | .Classic => ∃ cts ts, tokenizeCla cls s = .ok cts ∧ Cl.resolveAll cts = some ts ∧
        ts.length = cts.length ∧ ts.map Cl.shape = cts.map Cl.cshape ∧ Gr.DExpr ts t := by
  cases n with
  | DeBruijn => exact C09_no_truncation_dbr cls s t h
  | Classic =>
    cases hc : tokenizeCla cls s with
    | error e => rw [C09_cla_lex_error cls s e hc] at h; cases h
    | ok cts =>
      obtain ⟨ts, h1, h2, h3, _, h4⟩ := C09_no_truncation_cla cls s cts t h hc
      exact ⟨cts, ts, rfl, h1, h2, h3, h4⟩

/-- C09: no string whatsoever makes `parse` panic -/
theorem C09_no_panic (cls : CharCls) (s : List Nat) (n : Notation) : parse cls s n ≠ .panic := by
  cases n with
  | Classic => exact parse_cla_no_panic cls s
  | DeBruijn => exact parse_dbr_no_panic cls s

/-- … so the outcome is always `Ok` or `Err` -/
theorem C09_ok_or_err (cls : CharCls) (s : List Nat) (n : Notation) :
    (∃ t, parse cls s n = .ok t) ∨ (∃ e, parse cls s n = .err e) := by
  cases h : parse cls s n with
  | ok t => exact .inl ⟨t, rfl⟩
  | err e => exact .inr ⟨e, rfl⟩
  | panic => exact absurd h (C09_no_panic cls s n)

/-! ## 5. non-vacuity: concrete inputs

Code points: `λ` 955, `\` 92, `(` 40, `)` 41, `.` 46, space 32, `#` 35, `0`..`9` 48..57,
`a` 97, `b` 98, `x` 120, `y` 121, `z` 122.  The classification is the ASCII (+ `λ`) one of
`LC/Proofs/Syntax/Classic.lean`. -/

namespace C09.Examples
open C09C.Examples (asciiCls asciiCls_ok nameEnd_of nameEnd_lambda wf_single wf_x wf_y wf_z renders₁
  renders₂ renders₆ renders₇)
open Parser.CToken Parser.Token Cl.NTerm

/-- ground evaluation of the token-level stage (`foldList` is compiled by well-founded recursion,
so this goes through its equation lemmas) -/
macro "c09_eval" : tactic =>
  `(tactic| simp [parseTokens, Cl.tokenStage, getAst, astLoop, foldExprs, foldList, foldTerms])

theorem asciiCls_hexOk : C11.HexOk asciiCls where
  digit := by decide

/-! ### De Bruijn notation -/

/-- `λλλ31(21)` -/
theorem ex_S : parse asciiCls [955, 955, 955, 51, 49, 40, 50, 49, 41] .DeBruijn
    = .ok (abs (abs (abs (app (app (var 3) (var 1)) (app (var 2) (var 1)))))) := by
  rw [C09_dbr_stages,
    show tokenizeDbr asciiCls [955, 955, 955, 51, 49, 40, 50, 49, 41] = .ok _ from rfl]
  c09_eval

/-- hence that string is well-formed and denotes the S combinator (`C09_dbr_ok_iff`, →) … -/
example : Gr.Denotes asciiCls [955, 955, 955, 51, 49, 40, 50, 49, 41]
    (abs (abs (abs (app (app (var 3) (var 1)) (app (var 2) (var 1)))))) :=
  (C09_dbr_ok_iff _ _ _).1 ex_S

/-- … and conversely a derivation in the grammar gives the parse (`C09_dbr_ok_iff`, ←):
`1λ2` ↦ `app (var 1) (abs (var 2))`, the abstraction being the last argument of the spine -/
example : parse asciiCls [49, 955, 50] .DeBruijn = .ok (app (var 1) (abs (var 2))) :=
  (C09_dbr_ok_iff _ _ _).2 ⟨by decide,
    Gr.DExpr.tailLam (ts := [Number 1]) (.one (.idx 1)) (.atoms (.one (.idx 2)))⟩

/-- the same by evaluation -/
example : parse asciiCls [49, 955, 50] .DeBruijn = .ok (app (var 1) (abs (var 2))) := by
  rw [C09_dbr_stages, show tokenizeDbr asciiCls [49, 955, 50] = .ok _ from rfl]; c09_eval

/-- ` \ \λ (3 1)((2) 1) `: white space, glyphs and redundant parentheses change nothing -/
example : parse asciiCls
      [32, 92, 32, 92, 955, 32, 40, 51, 32, 49, 41, 40, 40, 50, 41, 32, 49, 41, 32] .DeBruijn
    = .ok (abs (abs (abs (app (app (var 3) (var 1)) (app (var 2) (var 1)))))) := by
  rw [C09_dbr_stages, show tokenizeDbr asciiCls
      [32, 92, 32, 92, 955, 32, 40, 51, 32, 49, 41, 40, 40, 50, 41, 32, 49, 41, 32] = .ok _ from rfl]
  c09_eval

/-- `(λλλ31(21))` by `C09_redundant_parens_whole_str` -/
example : parse asciiCls (40 :: [955, 955, 955, 51, 49, 40, 50, 49, 41] ++ [41]) .DeBruijn
    = .ok (abs (abs (abs (app (app (var 3) (var 1)) (app (var 2) (var 1)))))) :=
  C09_redundant_parens_whole_str _ _ _ ex_S

/-- `λλλ3(1)(21)` by `C09_redundant_parens_atom_str` (parentheses around the atom `1`) -/
example : parse asciiCls ([955, 955, 955, 51] ++ (40 :: [49] ++ [41]) ++ [40, 50, 49, 41]) .DeBruijn
    = .ok (abs (abs (abs (app (app (var 3) (var 1)) (app (var 2) (var 1)))))) :=
  (C09_redundant_parens_atom_str asciiCls [955, 955, 955, 51] [49] [40, 50, 49, 41] (var 1) _
    (Gr.DAtom.idx 1)).2 ex_S

/-- `\λλ31(21)` by `C09_dbr_glyph_invariant` -/
example : parse asciiCls ([] ++ 92 :: [955, 955, 51, 49, 40, 50, 49, 41]) .DeBruijn
    = .ok (abs (abs (abs (app (app (var 3) (var 1)) (app (var 2) (var 1)))))) :=
  (C09_dbr_glyph_invariant asciiCls [] _).symm.trans ex_S

/-- `λ λλ31(21)` by `C09_dbr_whitespace_invariant` -/
example : parse asciiCls ([955] ++ 32 :: [955, 955, 51, 49, 40, 50, 49, 41]) .DeBruijn
    = .ok (abs (abs (abs (app (app (var 3) (var 1)) (app (var 2) (var 1)))))) :=
  (C09_dbr_whitespace_invariant asciiCls [955] _ 32 (by decide) (by decide) _).2 ex_S

/-- left-associative application and grouping: `1 2 3`, `1(2 3)` -/
example : parse asciiCls [49, 32, 50, 32, 51] .DeBruijn = .ok (app (app (var 1) (var 2)) (var 3)) := by
  rw [C09_dbr_stages, show tokenizeDbr asciiCls [49, 32, 50, 32, 51] = .ok _ from rfl]; c09_eval
example : parse asciiCls [49, 40, 50, 32, 51, 41] .DeBruijn = .ok (app (var 1) (app (var 2) (var 3))) := by
  rw [C09_dbr_stages, show tokenizeDbr asciiCls [49, 40, 50, 32, 51, 41] = .ok _ from rfl]; c09_eval

/-- `(1`: unclosed parenthesis -/
theorem ex_unclosed : parse asciiCls [40, 49] .DeBruijn = .err .InvalidExpression := by
  rw [C09_dbr_stages, show tokenizeDbr asciiCls [40, 49] = .ok _ from rfl]; c09_eval

/-- `1)2`: unmatched closing parenthesis — an `Err`, not a parse of the prefix `1` -/
theorem ex_unmatched : parse asciiCls [49, 41, 50] .DeBruijn = .err .InvalidExpression := by
  rw [C09_dbr_stages, show tokenizeDbr asciiCls [49, 41, 50] = .ok _ from rfl]; c09_eval

/-- so these strings are not well-formed (`C09_dbr_err_iff`) -/
example : ¬ ∃ t, Gr.Denotes asciiCls [40, 49] t := (C09_dbr_err_iff _ _).1 ⟨_, ex_unclosed⟩
example : ¬ ∃ t, Gr.Denotes asciiCls [49, 41, 50] t := (C09_dbr_err_iff _ _).1 ⟨_, ex_unmatched⟩

/-- the empty input, `()`, `λ`, `1λ`, `λ)`: empty expression / group / body -/
example : parse asciiCls [] .DeBruijn = .err .EmptyExpression := by
  rw [C09_dbr_stages, show tokenizeDbr asciiCls [] = .ok _ from rfl]; c09_eval
example : parse asciiCls [32, 32] .DeBruijn = .err .EmptyExpression := by
  rw [C09_dbr_stages, show tokenizeDbr asciiCls [32, 32] = .ok _ from rfl]; c09_eval
example : parse asciiCls [40, 41] .DeBruijn = .err .EmptyExpression := by
  rw [C09_dbr_stages, show tokenizeDbr asciiCls [40, 41] = .ok _ from rfl]; c09_eval
example : parse asciiCls [955] .DeBruijn = .err .EmptyExpression := by
  rw [C09_dbr_stages, show tokenizeDbr asciiCls [955] = .ok _ from rfl]; c09_eval
example : parse asciiCls [49, 955] .DeBruijn = .err .EmptyExpression := by
  rw [C09_dbr_stages, show tokenizeDbr asciiCls [49, 955] = .ok _ from rfl]; c09_eval
example : ∃ e, parseTokens ([Lparen] ++ Lambda :: Rparen :: []) = .error e :=
  (C09_empty_rejected [Lparen] []).2.2.1

/-- `λ1x2`: `x` (120) is not a token character; it is character number 2 -/
example : parse asciiCls ([955, 49] ++ 120 :: [50]) .DeBruijn = .err (.InvalidCharacter 2 120) :=
  C09_dbr_invalid_char asciiCls [955, 49] [50] 120 (by decide) (by decide)
example : parse asciiCls [955, 49, 120, 50] .DeBruijn = .err (.InvalidCharacter 2 120) := rfl

/-- no truncation: the whole token list `λ λ λ 3 1 ( 2 1 )` is derived -/
example : Gr.DExpr [Lambda, Lambda, Lambda, Number 3, Number 1, Lparen, Number 2, Number 1, Rparen]
    (abs (abs (abs (app (app (var 3) (var 1)) (app (var 2) (var 1)))))) :=
  (C09_no_truncation_dbr _ _ _ ex_S).2

/-! ### Classic notation -/

theorem wf_a : Cl.WfName asciiCls [97] :=
  wf_single 97 (by decide) (by decide) (by decide)
theorem wf_b : Cl.WfName asciiCls [98] :=
  wf_single 98 (by decide) (by decide) (by decide)

/-- the named term `λx.λy.x y z` -/
def t₁ : Cl.NTerm := nlam [120] (nlam [121] (napp (napp (nvar [120]) (nvar [121])) (nvar [122])))

/-- the named term `a λb.b a` = `a (λb.b a)` -/
def t₂ : Cl.NTerm := napp (nvar [97]) (nlam [98] (napp (nvar [98]) (nvar [97])))

/-- bound names count binders from the inside; the free `z` is numbered above the two binders -/
example : Cl.toDeBruijn t₁ = abs (abs (app (app (var 2) (var 1)) (var 3))) := by decide
/-- the free `a` is `1` at top level and `2` under the binder -/
example : Cl.toDeBruijn t₂ = app (var 1) (abs (app (var 1) (var 2))) := by decide
/-- shadowing, `λx.λx.x` ↦ `λλ1`: a name resolves to its innermost binder -/
example : Cl.toDeBruijn (nlam [120] (nlam [120] (nvar [120]))) = abs (abs (var 1)) := by decide
/-- free names in order of first appearance: `b a b` ↦ `1 2 1` -/
example : Cl.toDeBruijn (napp (napp (nvar [98]) (nvar [97])) (nvar [98]))
    = app (app (var 1) (var 2)) (var 1) := by decide

/-- `λx.λy.x y z` (`C09_cla_denotes` on the rendering `renders₁` of the crate's printing) -/
theorem ex_cla₁ : parse asciiCls [955, 120, 46, 955, 121, 46, 120, 32, 121, 32, 122] .Classic
    = .ok (abs (abs (app (app (var 2) (var 1)) (var 3)))) :=
  C09_cla_denotes_print asciiCls asciiCls_ok t₁ 0 _ renders₁

/-- `  \x. \y.x  y z ` (other glyph, other whitespace): same result, by the theorem and by
`C09_cla_whitespace_glyph_invariant` -/
example : parse asciiCls [32, 32, 92, 120, 46, 32, 92, 121, 46, 120, 32, 32, 121, 32, 122, 32] .Classic
    = .ok (abs (abs (app (app (var 2) (var 1)) (var 3)))) :=
  C09_cla_denotes_print asciiCls asciiCls_ok t₁ 0 _ renders₂
example : parse asciiCls [32, 32, 92, 120, 46, 32, 92, 121, 46, 120, 32, 32, 121, 32, 122, 32] .Classic
    = parse asciiCls [955, 120, 46, 955, 121, 46, 120, 32, 121, 32, 122] .Classic :=
  C09_cla_whitespace_glyph_invariant asciiCls asciiCls_ok _ _ _ renders₂ renders₁

/-- `x\y.y`: a backslash ends a variable name and opens a binder — the string lexes as `x`, `\y.`,
`y` and denotes `x (λy.y)` (by evaluation of the model, stage by stage) -/
theorem ex_backslash_ends_name :
    parse asciiCls [120, 92, 121, 46, 121] .Classic = .ok (app (var 1) (abs (var 1))) := by
  rw [parse_cla_spec, show tokenizeCla asciiCls [120, 92, 121, 46, 121]
    = .ok [CName [120], CLambda [121], CName [121]] from rfl]
  simp only [show convertClassicTokens [CName [120], CLambda [121], CName [121]]
    = some [Number 1, Lambda, Number 1] from by decide]
  c09_eval

/-- the same from the general theorem `C09_cla_denotes`: `x\y.y` is a rendering (`renders₆`) of an
admissible printing of the named term `x (λy.y)` -/
example : parse asciiCls [120, 92, 121, 46, 121] .Classic
    = .ok (Cl.toDeBruijn (napp (nvar [120]) (nlam [121] (nvar [121])))) :=
  C09_cla_denotes asciiCls asciiCls_ok _ false true _ _
    (.app (c₁ := [_]) (c₂ := [_, _]) .var (.lam .var)) renders₆

/-- `x  \y.y` (whitespace inserted) has the same outcome (`C09_cla_whitespace_before_backslash`) -/
example : parse asciiCls ([] ++ ([120] ++ ([32, 32] ++ 92 :: [121, 46, 121]))) .Classic
    = parse asciiCls ([] ++ ([120] ++ 92 :: [121, 46, 121])) .Classic :=
  C09_cla_whitespace_before_backslash asciiCls asciiCls_ok [] [CLambda [121], CName [121]]
    [] [120] [32, 32] [121, 46, 121] .nil (by intro c h; simp at h) wf_x (by decide)
    (.lam (g := 92) (n := [121]) (by decide) wf_y (.name (n := [121]) wf_y trivial .nil))

/-- the other glyph `λ`, although a letter, ends a variable name too (repair F11 of the crate):
`xλy.y` lexes as `x`, `λy.`, `y` — the same tokens as `x\y.y` — and denotes `x (λy.y)` (by evaluation
of the model, stage by stage) … -/
theorem ex_lambda_ends_name :
    parse asciiCls [120, 955, 121, 46, 121] .Classic = .ok (app (var 1) (abs (var 1))) := by
  rw [parse_cla_spec, show tokenizeCla asciiCls [120, 955, 121, 46, 121]
    = .ok [CName [120], CLambda [121], CName [121]] from rfl]
  simp only [show convertClassicTokens [CName [120], CLambda [121], CName [121]]
    = some [Number 1, Lambda, Number 1] from by decide]
  c09_eval

/-- … the same from the general theorem `C09_cla_denotes`: `xλy.y` is a rendering (`renders₇`) of
an admissible printing of the named term `x (λy.y)` … -/
example : parse asciiCls [120, 955, 121, 46, 121] .Classic
    = .ok (Cl.toDeBruijn (napp (nvar [120]) (nlam [121] (nvar [121])))) :=
  C09_cla_denotes asciiCls asciiCls_ok _ false true _ _
    (.app (c₁ := [_]) (c₂ := [_, _]) .var (.lam .var)) renders₇

/-- … and `xλy.y`, `x\y.y` are two renderings of the same named tokens, hence parse alike
(`C09_cla_whitespace_glyph_invariant`) -/
example : parse asciiCls [120, 955, 121, 46, 121] .Classic
    = parse asciiCls [120, 92, 121, 46, 121] .Classic :=
  C09_cla_whitespace_glyph_invariant asciiCls asciiCls_ok _ _ _ renders₇ renders₆

/-- `x  λy.y` (whitespace inserted) has the same outcome (`C09_cla_whitespace_before_glyph`) -/
example : parse asciiCls ([] ++ ([120] ++ ([32, 32] ++ 955 :: [121, 46, 121]))) .Classic
    = parse asciiCls ([] ++ ([120] ++ 955 :: [121, 46, 121])) .Classic :=
  C09_cla_whitespace_before_glyph asciiCls asciiCls_ok [] [CLambda [121], CName [121]]
    [] [120] [32, 32] [121, 46, 121] 955 (by decide) .nil (by intro c h; simp at h) wf_x (by decide)
    (.lam (g := 955) (n := [121]) (by decide) wf_y (.name (n := [121]) wf_y trivial .nil))

/-- `xλy` alone is the name `x` followed by the unterminated binder `λy`, whose body is empty
(before the repair it was ONE name, a free variable) -/
example : parse asciiCls [120, 955, 121] .Classic = .err .EmptyExpression := by
  rw [parse_cla_spec, show tokenizeCla asciiCls [120, 955, 121]
    = .ok [CName [120], CLambda [121]] from rfl]
  simp only [show convertClassicTokens [CName [120], CLambda [121]]
    = some [Number 1, Lambda] from by decide]
  c09_eval

/-- an empty binder name (repair F12 of the crate): `λ.x` is an error at the dot (before the repair
it parsed as `λ2`: a binder with the empty name, and `x` free) -/
theorem ex_empty_binder :
    parse asciiCls [955, 46, 120] .Classic = .err (.InvalidCharacter 1 46) := rfl

/-- junk directly after a name (by evaluation of the model): `x.y`, `x#`, `λx.x-` -/
theorem ex_junk_dot : parse asciiCls [120, 46, 121] .Classic = .err (.InvalidCharacter 1 46) := rfl
theorem ex_junk_hash : parse asciiCls [120, 35] .Classic = .err (.InvalidCharacter 1 35) := rfl
theorem ex_junk_minus :
    parse asciiCls [955, 120, 46, 120, 45] .Classic = .err (.InvalidCharacter 4 45) := rfl

/-- the same from the general theorem `C09_cla_junk_after_name`: `λx.x-` is the rendering `λx.` of
a binder (ending at top level, with its dot), the name `x`, and the character `-` (45) -/
example : parse asciiCls ([955, 120, 46] ++ [120] ++ 45 :: []) .Classic
    = .err (.InvalidCharacter (3 + 1) 45) :=
  C09_cla_junk_after_name asciiCls asciiCls_ok [CLambda [120]] [955, 120, 46] [120] 45 []
    (.lam (g := 955) (n := [120]) (by decide) wf_x .nil)
    (by intro c h; simp at h; subst h; decide) wf_x
    (by decide) (by decide) (by decide) (by decide) (by decide) (by decide)

/-- … and `x.y`: empty prefix, the name `x`, the dot -/
example : parse asciiCls ([] ++ [120] ++ 46 :: [121]) .Classic
    = .err (.InvalidCharacter (0 + 1) 46) :=
  C09_cla_junk_after_name asciiCls asciiCls_ok [] [] [120] 46 [121] .nil
    (by intro c h; simp at h) wf_x
    (by decide) (by decide) (by decide) (by decide) (by decide) (by decide)

/-- `x\1`: the binder opened by the backslash is validated; `1` is character number 2 -/
example : parse asciiCls ([120] ++ 92 :: ([] ++ 49 :: [])) .Classic
    = .err (.InvalidCharacter 2 49) :=
  C09_cla_invalid_char_binder_backslash asciiCls asciiCls_ok [CName [120]] [120] [] 49 []
    (.name (n := [120]) wf_x trivial .nil) (by intro a as h; cases h) (by decide) (by decide)

/-- `a λb.b a` is a rendering of its tokens … -/
theorem renders₃ : Cl.Renders asciiCls [CName [97], CLambda [98], CName [98], CName [97]]
    [97, 32, 955, 98, 46, 98, 32, 97] :=
  .name (n := [97]) wf_a (nameEnd_of (by decide)) <| .ws (by decide) <|
  .lam (g := 955) (n := [98]) (by decide) wf_b <|
  .name (n := [98]) wf_b (nameEnd_of (by decide)) <| .ws (by decide) <|
  .name (n := [97]) wf_a trivial .nil

/-- … which are an admissible printing of `t₂`: the abstraction stays bare in final position -/
theorem prints₃ : Cl.PrintsN t₂ false true [CName [97], CLambda [98], CName [98], CName [97]] :=
  .app (c₁ := [_]) (c₂ := [_, _, _]) .var (.lam (.app (c₁ := [_]) (c₂ := [_]) .var .var))

/-- `a λb.b a` ↦ `1 λ 1 2` (`C09_cla_denotes`) -/
theorem ex_cla₂ : parse asciiCls [97, 32, 955, 98, 46, 98, 32, 97] .Classic
    = .ok (app (var 1) (abs (app (var 1) (var 2)))) :=
  C09_cla_denotes asciiCls asciiCls_ok t₂ false true _ _ prints₃ renders₃

/-- the same by evaluation of the model, stage by stage -/
example : parse asciiCls [97, 32, 955, 98, 46, 98, 32, 97] .Classic
    = .ok (app (var 1) (abs (app (var 1) (var 2)))) := by
  rw [parse_cla_spec, show tokenizeCla asciiCls [97, 32, 955, 98, 46, 98, 32, 97]
    = .ok [CName [97], CLambda [98], CName [98], CName [97]] from rfl]
  simp only [show convertClassicTokens [CName [97], CLambda [98], CName [98], CName [97]]
    = some [Number 1, Lambda, Number 1, Number 2] from by decide]
  c09_eval

/-- `(a) (\b.((b) a))`: redundant parentheses (and the other glyph) change nothing -/
theorem renders₄ : Cl.Renders asciiCls
    [CLparen, CName [97], CRparen, CLparen, CLambda [98], CLparen, CLparen, CName [98], CRparen,
      CName [97], CRparen, CRparen]
    [40, 97, 41, 32, 40, 92, 98, 46, 40, 40, 98, 41, 32, 97, 41, 41] :=
  .lparen <| .name (n := [97]) wf_a (nameEnd_of (by decide)) <| .rparen <| .ws (by decide) <|
  .lparen <| .lam (g := 92) (n := [98]) (by decide) wf_b <| .lparen <| .lparen <|
  .name (n := [98]) wf_b (nameEnd_of (by decide)) <| .rparen <| .ws (by decide) <|
  .name (n := [97]) wf_a (nameEnd_of (by decide)) <| .rparen <| .rparen .nil

theorem prints₄ : Cl.PrintsN t₂ false true
    [CLparen, CName [97], CRparen, CLparen, CLambda [98], CLparen, CLparen, CName [98], CRparen,
      CName [97], CRparen, CRparen] :=
  .app (c₁ := [_, _, _]) (c₂ := [_, _, _, _, _, _, _, _, _]) (.paren (cts := [_]) .var)
    (.paren (cts := [_, _, _, _, _, _, _]) (.lam (.paren (cts := [_, _, _, _])
      (.app (c₁ := [_, _, _]) (c₂ := [_]) (.paren (cts := [_]) .var) .var))))

example : parse asciiCls [40, 97, 41, 32, 40, 92, 98, 46, 40, 40, 98, 41, 32, 97, 41, 41] .Classic
    = .ok (app (var 1) (abs (app (var 1) (var 2)))) :=
  C09_cla_denotes asciiCls asciiCls_ok t₂ false true _ _ prints₄ renders₄

/-- `C09_cla_tokens` / `C09_cla_ok_iff` / `C09_no_truncation_cla` on `a λb.b a`: the named tokens,
their resolution, and the derivation of the WHOLE resolved token list -/
example : Gr.DExpr [Number 1, Lambda, Number 1, Number 2] (app (var 1) (abs (app (var 1) (var 2)))) :=
  (C09_cla_ok_iff asciiCls [97, 32, 955, 98, 46, 98, 32, 97]
    [CName [97], CLambda [98], CName [98], CName [97]] [Number 1, Lambda, Number 1, Number 2] _
    rfl (by decide)).1 ex_cla₂
example : ∃ ts, Cl.resolveAll [CName [97], CLambda [98], CName [98], CName [97]] = some ts ∧
    ts.length = 4 ∧ Gr.DExpr ts (app (var 1) (abs (app (var 1) (var 2)))) := by
  obtain ⟨ts, h1, h2, _, _, h3⟩ := C09_no_truncation_cla asciiCls _
    [CName [97], CLambda [98], CName [98], CName [97]] _ ex_cla₂ rfl
  exact ⟨ts, h1, h2, h3⟩

/-- `λa.a) b`: an unmatched `)` in Classic notation.  The conversion stops after the `)` (its
output `λ 1 )` is a proper prefix), and the result is an `Err`, not the parse `λ1` of the prefix -/
theorem ex_cla_unmatched :
    parse asciiCls [955, 97, 46, 97, 41, 32, 98] .Classic = .err .InvalidExpression := by
  rw [parse_cla_spec, show tokenizeCla asciiCls [955, 97, 46, 97, 41, 32, 98]
    = .ok [CLambda [97], CName [97], CRparen, CName [98]] from rfl]
  simp only [show convertClassicTokens [CLambda [97], CName [97], CRparen, CName [98]]
    = some [Lambda, Number 1, Rparen] from by decide]
  c09_eval

/-- the same from the general theorem `C09_cla_unmatched_rparen` -/
example : ∃ e, parse asciiCls [955, 97, 46, 97, 41, 32, 98] .Classic = .err e :=
  C09_cla_unmatched_rparen asciiCls _ [CLambda [97], CName [97], CRparen, CName [98]] rfl (by decide)

/-- `(a`: unclosed parenthesis; `λa.`: empty body; `()`: empty group -/
example : parse asciiCls [40, 97] .Classic = .err .InvalidExpression := by
  rw [parse_cla_spec, show tokenizeCla asciiCls [40, 97] = .ok [CLparen, CName [97]] from rfl]
  simp only [show convertClassicTokens [CLparen, CName [97]] = some [Lparen, Number 1] from by decide]
  c09_eval
example : parse asciiCls [955, 97, 46] .Classic = .err .EmptyExpression := by
  rw [parse_cla_spec, show tokenizeCla asciiCls [955, 97, 46] = .ok [CLambda [97]] from rfl]
  simp only [show convertClassicTokens [CLambda [97]] = some [Lambda] from by decide]
  c09_eval
example : parse asciiCls [40, 41] .Classic = .err .EmptyExpression := by
  rw [parse_cla_spec, show tokenizeCla asciiCls [40, 41] = .ok [CLparen, CRparen] from rfl]
  simp only [show convertClassicTokens [CLparen, CRparen] = some [Lparen, Rparen] from by decide]
  c09_eval

/-- well-formedness depends on the token shapes only (`C09_cla_wellformed_iff`): `a λb.b a` has
the shape `0 λ 0 0` -/
example : ∃ u, Gr.DExpr [Number 0, Lambda, Number 0, Number 0] u :=
  (C09_cla_wellformed_iff asciiCls [97, 32, 955, 98, 46, 98, 32, 97]
    [CName [97], CLambda [98], CName [98], CName [97]] rfl).1 ⟨_, ex_cla₂⟩

/-- `C09_cla_complete` on `a λb.b a`: its tokens are a printing of `t₂`, so it parses … -/
example : ∃ t, parse asciiCls [97, 32, 955, 98, 46, 98, 32, 97] .Classic = .ok t :=
  (C09_cla_complete asciiCls asciiCls_ok _ _ renders₃).1.2 ⟨t₂, prints₃⟩

/-- … while the tokens of `λa.a) b` are not a printing of any named term -/
theorem renders₅ : Cl.Renders asciiCls [CLambda [97], CName [97], CRparen, CName [98]]
    [955, 97, 46, 97, 41, 32, 98] :=
  .lam (g := 955) (n := [97]) (by decide) wf_a <|
  .name (n := [97]) wf_a (nameEnd_of (by decide)) <| .rparen <| .ws (by decide) <|
  .name (n := [98]) wf_b trivial .nil

example : ¬ ∃ nt, Cl.PrintsN nt false true [CLambda [97], CName [97], CRparen, CName [98]] := by
  intro h
  obtain ⟨t, ht⟩ := (C09_cla_complete asciiCls asciiCls_ok _ _ renders₅).1.2 h
  rw [ex_cla_unmatched] at ht
  cases ht

/-- `x #x`: `#` (35) cannot start a token; it is character number 2 -/
example : parse asciiCls ([120, 32] ++ 35 :: [120]) .Classic = .err (.InvalidCharacter 2 35) :=
  C09_cla_invalid_char asciiCls asciiCls_ok [CName [120]] [120, 32] 35 [120]
    (.name (n := [120]) wf_x (nameEnd_of (by decide)) (.ws (by decide) .nil))
    (by intro c h; simp at h; subst h; decide)
    (by decide) (by decide) (by decide) (by decide) (by decide)
example : parse asciiCls [120, 32, 35, 120] .Classic = .err (.InvalidCharacter 2 35) := rfl

/-- `λa.λb a` (the crate's own test): the space cannot continue the binder `b`; character 5 -/
example : parse asciiCls ([955, 97, 46] ++ 955 :: ([98] ++ 32 :: [97])) .Classic
    = .err (.InvalidCharacter 5 32) :=
  C09_cla_invalid_char_binder asciiCls asciiCls_ok [CLambda [97]] [955, 97, 46] 955 [98] 32 [97]
    (.lam (g := 955) (n := [97]) (by decide) wf_a .nil)
    (by intro c h; simp at h; subst h; decide) (by decide)
    (by intro a as h; cases h; simp; decide) (by decide) (by decide)

/-! ### the two notations agree -/

/-- `λx.λy.x y z` (Classic) and `λλ213` (De Bruijn) are corresponding inputs (`C09_notations_agree`) -/
example : parse asciiCls [955, 120, 46, 955, 121, 46, 120, 32, 121, 32, 122] .Classic
    = parse asciiCls [955, 955, 50, 49, 51] .DeBruijn :=
  C09_notations_agree asciiCls _ _
    [CLambda [120], CLambda [121], CName [120], CName [121], CName [122]]
    [Lambda, Lambda, Number 2, Number 1, Number 3] rfl rfl (by decide)

/-- tree level: the Debug output `λλ213` of the translation of `t₁` parses (De Bruijn notation) to
the same term as the Classic rendering of `t₁` (`C09_notations_agree_tree`) -/
example : parse asciiCls [955, 120, 46, 955, 121, 46, 120, 32, 121, 32, 122] .Classic
    = parse asciiCls (Display.debug 955 (Cl.toDeBruijn t₁)) .DeBruijn :=
  (C09_notations_agree_tree asciiCls asciiCls_ok asciiCls_hexOk 955 (.inl rfl) t₁ (by decide)
    _ _ _ _ (C09C.printN_prints t₁ 0) renders₁).2.2.1
example : Display.debug 955 (Cl.toDeBruijn t₁) = [955, 955, 50, 49, 51] := by decide +kernel

/-- `a λb.b a` (Classic) and `1λ12` (De Bruijn), through `C09_notations_agree_strings` -/
example : parse asciiCls [97, 32, 955, 98, 46, 98, 32, 97] .Classic
      = .ok (Cl.toDeBruijn t₂) ∧
    parse asciiCls [49, 955, 49, 50] .DeBruijn = .ok (Cl.toDeBruijn t₂) :=
  C09_notations_agree_strings asciiCls asciiCls_ok t₂ false true false true _ _
    [Number 1, Lambda, Number 1, Number 2] _ prints₃ renders₃
    (.app (t₁ := [_]) (t₂ := [_, _, _]) .var (.lam (.app (t₁ := [_]) (t₂ := [_]) .var .var))) rfl

/-- no panic, whatever the input: here a lone `)` -/
example : parse asciiCls [41] .Classic = .err .InvalidExpression := by
  rw [parse_cla_spec, show tokenizeCla asciiCls [41] = .ok [CRparen] from rfl]
  simp only [show convertClassicTokens [CRparen] = some [Rparen] from by decide]
  c09_eval
example : parse asciiCls [41] .Classic ≠ .panic := C09_no_panic _ _ _

end C09.Examples

/-- the string `x\y.y`: the backslash ends the variable name `x` (repair F9 of the crate); before the repair the whole
input was one identifier and `parse` returned `Ok(Var(1))` -/
theorem C09_cla_backslash_ends_name :
    parse C09C.Examples.asciiCls [120, 92, 121, 46, 121] .Classic = .ok (app (var 1) (abs (var 1))) :=
  C09.Examples.ex_backslash_ends_name

/-- the string `xλy.y`: the glyph `λ` ends the variable name `x` too, although it is a letter (repair
F11 of the crate); before the repair `xλy` was one identifier and `parse` returned
`Err(InvalidCharacter((3, '.')))` -/
theorem C09_cla_lambda_ends_name :
    parse C09C.Examples.asciiCls [120, 955, 121, 46, 121] .Classic = .ok (app (var 1) (abs (var 1))) :=
  C09.Examples.ex_lambda_ends_name

/-- the string `λ.x`: a binder name cannot be empty (repair F12 of the crate); before the repair
`parse` returned `Ok(λ2)` -/
theorem C09_cla_empty_binder_dot :
    parse C09C.Examples.asciiCls [955, 46, 120] .Classic = .err (.InvalidCharacter 1 46) :=
  C09.Examples.ex_empty_binder

/-- the string `x.y`: the dot cannot continue the name `x` and cannot start a token (repair F10 of
the crate); before the repair `x.y` was one identifier and `parse` returned `Ok(Var(1))` -/
theorem C09_cla_junk_dot :
    parse C09C.Examples.asciiCls [120, 46, 121] .Classic = .err (.InvalidCharacter 1 46) :=
  C09.Examples.ex_junk_dot

/-- the string `x#` -/
theorem C09_cla_junk_hash :
    parse C09C.Examples.asciiCls [120, 35] .Classic = .err (.InvalidCharacter 1 35) :=
  C09.Examples.ex_junk_hash

/-- the string `λx.x-`; before the repair `parse` returned `Ok(λ2)`: the bound variable had silently
turned into a free one named `x-` -/
theorem C09_cla_junk_minus :
    parse C09C.Examples.asciiCls [955, 120, 46, 120, 45] .Classic
      = .err (.InvalidCharacter 4 45) :=
  C09.Examples.ex_junk_minus

end LC
