/-
C19 — accessors and the `app!`/`abs!` macros

"For every term, the consuming, borrowing and mutable accessors (unvar, unabs, unapp, lhs, rhs and
their _ref/_mut forms) return exactly the index, body or operator/operand the term was constructed
from - left and right never exchanged - when the variant matches, and the matching TermError
(NotVar, NotAbs, NotApp) otherwise, without altering the term; writes through the _mut forms change
only the addressed component. The app! and abs! macros equal left-nested app and n-fold abs."

In the model the consuming/borrowing accessors are pure functions of the term (so "without altering
the term" is built in); a mutable reference is the pair (`xMutGet`, `xMutPut`) of a read and a
write-back, and "change only the addressed component" is the explicit result of `xMutPut` on the
matching constructor together with the lens laws.
-/
import LC.Model.Term
import LC.Model.Display

namespace LC
open Term

/-- C19: on the matching variant the accessors return exactly the constructor arguments
(left stays left, right stays right) -/
theorem C19_get (n : Nat) (b l r : Term) :
    unvar (var n) = .ok n ∧ unabs (abs b) = .ok b ∧ unapp (app l r) = .ok (l, r) ∧
    lhs (app l r) = .ok l ∧ rhs (app l r) = .ok r :=
  ⟨rfl, rfl, rfl, rfl, rfl⟩

/-- C19: on every other variant the accessors return the matching `TermError` -/
theorem C19_err (n : Nat) (b l r : Term) :
    unvar (abs b) = .error .NotVar ∧ unvar (app l r) = .error .NotVar ∧
    unabs (var n) = .error .NotAbs ∧ unabs (app l r) = .error .NotAbs ∧
    unapp (var n) = .error .NotApp ∧ unapp (abs b) = .error .NotApp ∧
    lhs (var n) = .error .NotApp ∧ lhs (abs b) = .error .NotApp ∧
    rhs (var n) = .error .NotApp ∧ rhs (abs b) = .error .NotApp :=
  ⟨rfl, rfl, rfl, rfl, rfl, rfl, rfl, rfl, rfl, rfl⟩

/-- C19: the borrowing (`_ref`) accessors and reads through the `_mut` accessors see the same
components as the consuming ones -/
theorem C19_ref_mut_read :
    unvarRef = unvar ∧ unabsRef = unabs ∧ unappRef = unapp ∧ lhsRef = lhs ∧ rhsRef = rhs ∧
    unvarMutGet = unvar ∧ unabsMutGet = unabs ∧ unappMutGet = unapp ∧ lhsMutGet = lhs ∧
    rhsMutGet = rhs :=
  ⟨rfl, rfl, rfl, rfl, rfl, rfl, rfl, rfl, rfl, rfl⟩

/-- C19, writes on the matching variant: only the addressed component changes -/
theorem C19_put_ok (n v : Nat) (b l r w w₁ w₂ : Term) :
    unvarMutPut (var n) v = .ok (var v) ∧
    unabsMutPut (abs b) w = .ok (abs w) ∧
    unappMutPut (app l r) (w₁, w₂) = .ok (app w₁ w₂) ∧
    lhsMutPut (app l r) w = .ok (app w r) ∧
    rhsMutPut (app l r) w = .ok (app l w) :=
  ⟨rfl, rfl, rfl, rfl, rfl⟩

/-- C19, writes on a wrong variant: the matching error (and no term is produced) -/
theorem C19_put_err (n v : Nat) (b l r w : Term) (ww : Term × Term) :
    unvarMutPut (abs b) v = .error .NotVar ∧ unvarMutPut (app l r) v = .error .NotVar ∧
    unabsMutPut (var n) w = .error .NotAbs ∧ unabsMutPut (app l r) w = .error .NotAbs ∧
    unappMutPut (var n) ww = .error .NotApp ∧ unappMutPut (abs b) ww = .error .NotApp ∧
    lhsMutPut (var n) w = .error .NotApp ∧ lhsMutPut (abs b) w = .error .NotApp ∧
    rhsMutPut (var n) w = .error .NotApp ∧ rhsMutPut (abs b) w = .error .NotApp :=
  ⟨rfl, rfl, rfl, rfl, rfl, rfl, rfl, rfl, rfl, rfl⟩

/-- a write succeeds exactly when the read does (same variant test) -/
theorem C19_put_ok_iff (t w : Term) :
    ((∃ t', lhsMutPut t w = .ok t') ↔ ∃ x, lhs t = .ok x) ∧
    ((∃ t', rhsMutPut t w = .ok t') ↔ ∃ x, rhs t = .ok x) := by
  cases t <;> simp [lhsMutPut, rhsMutPut, lhs, rhs, unapp]

/-- C19, lens laws for `lhs_mut`: put-get, the other component is untouched, get-put, put-put -/
theorem C19_lhs_lens (t t' v : Term) (h : lhsMutPut t v = .ok t') :
    lhs t' = .ok v ∧ rhs t' = rhs t ∧
    (∀ x, lhs t = .ok x → lhsMutPut t x = .ok t) ∧
    (∀ w, lhsMutPut t' w = lhsMutPut t w) := by
  cases t with
  | var n => cases h
  | abs b => cases h
  | app l r =>
    cases h
    refine ⟨rfl, rfl, ?_, fun _ => rfl⟩
    intro x hx; cases hx; rfl

/-- C19, lens laws for `rhs_mut` -/
theorem C19_rhs_lens (t t' v : Term) (h : rhsMutPut t v = .ok t') :
    rhs t' = .ok v ∧ lhs t' = lhs t ∧
    (∀ x, rhs t = .ok x → rhsMutPut t x = .ok t) ∧
    (∀ w, rhsMutPut t' w = rhsMutPut t w) := by
  cases t with
  | var n => cases h
  | abs b => cases h
  | app l r =>
    cases h
    refine ⟨rfl, rfl, ?_, fun _ => rfl⟩
    intro x hx; cases hx; rfl

/-- C19, lens laws for `unvar_mut`, `unabs_mut`, `unapp_mut` (put-get and get-put) -/
theorem C19_un_lens (t t' : Term) :
    (∀ v, unvarMutPut t v = .ok t' → unvar t' = .ok v) ∧
    (∀ v, unabsMutPut t v = .ok t' → unabs t' = .ok v) ∧
    (∀ v, unappMutPut t v = .ok t' → unapp t' = .ok v) ∧
    (∀ x, unvar t = .ok x → unvarMutPut t x = .ok t) ∧
    (∀ x, unabs t = .ok x → unabsMutPut t x = .ok t) ∧
    (∀ x, unapp t = .ok x → unappMutPut t x = .ok t) := by
  refine ⟨?_, ?_, ?_, ?_, ?_, ?_⟩ <;> intro v h <;> cases t <;> cases h <;> rfl

/-- C19, all of the `_mut` write clauses together -/
theorem C19_put (n v : Nat) (b l r w w₁ w₂ : Term) (ww : Term × Term) :
    -- matching variant
    (unvarMutPut (var n) v = .ok (var v) ∧ unabsMutPut (abs b) w = .ok (abs w) ∧
      unappMutPut (app l r) (w₁, w₂) = .ok (app w₁ w₂) ∧
      lhsMutPut (app l r) w = .ok (app w r) ∧ rhsMutPut (app l r) w = .ok (app l w)) ∧
    -- wrong variant
    (unvarMutPut (abs b) v = .error .NotVar ∧ unvarMutPut (app l r) v = .error .NotVar ∧
      unabsMutPut (var n) w = .error .NotAbs ∧ unabsMutPut (app l r) w = .error .NotAbs ∧
      unappMutPut (var n) ww = .error .NotApp ∧ unappMutPut (abs b) ww = .error .NotApp ∧
      lhsMutPut (var n) w = .error .NotApp ∧ lhsMutPut (abs b) w = .error .NotApp ∧
      rhsMutPut (var n) w = .error .NotApp ∧ rhsMutPut (abs b) w = .error .NotApp) ∧
    -- lens laws for the two one-sided writes
    (∀ t t', lhsMutPut t w = .ok t' →
      lhs t' = .ok w ∧ rhs t' = rhs t ∧ (∀ x, lhs t = .ok x → lhsMutPut t x = .ok t) ∧
      (∀ w', lhsMutPut t' w' = lhsMutPut t w')) ∧
    (∀ t t', rhsMutPut t w = .ok t' →
      rhs t' = .ok w ∧ lhs t' = lhs t ∧ (∀ x, rhs t = .ok x → rhsMutPut t x = .ok t) ∧
      (∀ w', rhsMutPut t' w' = rhsMutPut t w')) :=
  ⟨C19_put_ok n v b l r w w₁ w₂, C19_put_err n v b l r w ww,
    fun t t' => C19_lhs_lens t t' w, fun t t' => C19_rhs_lens t t' w⟩

/-! ### macros -/

/-- C19, `app!(t, t1, …, tk)` is the left-nested application -/
theorem C19_appMany (t : Term) (ts : List Term) : appMany t ts = ts.foldl app t := rfl

/-- one more argument goes on the outside, to the right -/
theorem C19_appMany_snoc (t : Term) (ts : List Term) (u : Term) :
    appMany t (ts ++ [u]) = app (appMany t ts) u := by
  simp [appMany, List.foldl_append]

theorem C19_appMany_nil (t : Term) : appMany t [] = t := rfl

/-- `abs!` adds the abstractions on the outside (the loop of the macro wraps the term `n` times; the
model peels the counter from the inside, hence the small induction) -/
theorem C19_absN_succ (t : Term) : absN 0 t = t ∧ ∀ n, absN (n + 1) t = abs (absN n t) := by
  refine ⟨rfl, fun n => ?_⟩
  induction n generalizing t with
  | zero => rfl
  | succ n ih => exact ih (abs t)

/-- C19, `abs!(n, t)` is the n-fold abstraction
(`Nat.repeat f 0 a = a`, `Nat.repeat f (n+1) a = f (Nat.repeat f n a)`) -/
theorem C19_absN (n : Nat) (t : Term) : absN n t = Nat.repeat abs n t := by
  induction n with
  | zero => rfl
  | succ n ih => rw [(C19_absN_succ t).2 n, ih]; rfl

/-! ### non-vacuity -/

-- `app!(Var 4, app!(Var 1, Var 2, Var 3))`
example : appMany (var 4) [appMany (var 1) [var 2, var 3]] =
    app (var 4) (app (app (var 1) (var 2)) (var 3)) := rfl
-- `abs!(3, Var 1)`
example : absN 3 (var 1) = abs (abs (abs (var 1))) := rfl
example : absN 0 (var 1) = var 1 := rfl
-- left and right are not exchanged
example : lhs (app (var 1) (var 2)) = .ok (var 1) ∧ rhs (app (var 1) (var 2)) = .ok (var 2) :=
  ⟨rfl, rfl⟩
example : lhsMutPut (app (var 1) (var 2)) (var 7) = .ok (app (var 7) (var 2)) := rfl
example : rhsMutPut (app (var 1) (var 2)) (var 7) = .ok (app (var 1) (var 7)) := rfl
example : lhs (abs (var 1)) = .error .NotApp := rfl

/-! ### the error messages (string tables of `impl Display for TermError`; tied by the `errmsg` ops) -/

/-- the three `TermError` messages are pairwise different, so the message identifies the error -/
theorem C19_error_messages_distinct :
    Display.termErrorMsg .NotVar ≠ Display.termErrorMsg .NotAbs ∧
    Display.termErrorMsg .NotVar ≠ Display.termErrorMsg .NotApp ∧
    Display.termErrorMsg .NotAbs ≠ Display.termErrorMsg .NotApp := by decide

/-- `Display for Order` is injective: the seven order names are pairwise different -/
theorem C19_order_names_injective (o₁ o₂ : Order) (h : Display.orderName o₁ = Display.orderName o₂) : o₁ = o₂ := by
  cases o₁ <;> cases o₂ <;> first | rfl | (exfalso; revert h; decide)

end LC
