/-
C09, Classic notation on all strings — review remarks A2 and A1 closed.

A2.  `C09_cla_glyph_binder_binds_nothing` (C09All.lean) is the name inequality "a variable name never equals a binder
name that contains the glyph `λ`".  Here is the SEMANTIC statement, in terms of the specification's scoped name
resolution of `LC/Spec/ClassicSpec.lean` (`Cl.resolve` / `Cl.resolveAll` on named tokens, `Cl.toDB` / `Cl.toDeBruijn` on
named terms):

* `C09_cla_unreferenced_binder_rename`  (general, any tokens): renaming binders that no variable is named like, to names
                                        that no variable is named like, changes neither the resolved De Bruijn tokens
                                        nor the De Bruijn translation of the printed named term;
* `C09_cla_glyph_binder_unreferenced`   (residual class A): in the tokens of ANY string, the binders whose name contains
                                        `λ` are such binders — rename them to ANY names that are not variable names of
                                        the input (the other binders kept): same resolved tokens, the renamed tokens
                                        print the renamed term, same translation, and every string that renders the
                                        renamed tokens parses to the same term.  So no variable occurrence resolves to
                                        a binder whose name contains the glyph;
* `C09_cla_glyph_binder_rename_one`     the same for ONE glyph binder name `m` and one fresh name `m'`;
* `C09_cla_resolved_binder_glyphfree`   the direct form: whatever binders are in scope, the binder at the position the
                                        specification's lookup returns for a variable of the input is named exactly
                                        like the variable, hence has no `λ` in its name.

A1.  `C09_cla_lex_classes_exclusive`: the four classes of `C09_cla_lex_total_classification` are PAIRWISE contradictory
(so "exactly one of the following" is one theorem).
-/
import LC.Props.C09All
import LC.Proofs.Syntax.ClassicRename

namespace LC
open Term Parser Spec
open C09C.Examples (asciiCls asciiCls_ok wf_x wf_y)
open C09All.Examples
open Parser.CToken Parser.Token Cl.NTerm

/-! ## A2. a binder whose name contains the glyph is referenced by no variable occurrence -/

/-- C09 (general renaming lemma, any named tokens `cts`, any named term `nt` they print): let `f` rename binder
names such that every name is kept or is not the name of a variable token of `cts` and is sent to a name that is
not the name of a variable token either.  Then
(a) the specification's scoped resolution gives the same De Bruijn tokens for the renamed tokens;
(b) the renamed tokens are a printing of the renamed term (`Cl.renameB`: binders renamed, variables untouched);
(c) the renamed term has the same De Bruijn translation. -/
theorem C09_cla_unreferenced_binder_rename (cts : List CToken) (nt : Cl.NTerm) (arg fin : Bool)
    (hp : Cl.PrintsN nt arg fin cts) (f : List Nat → List Nat)
    (hf : ∀ n, f n = n ∨ (CToken.CName n ∉ cts ∧ CToken.CName (f n) ∉ cts)) :
    Cl.resolveAll (cts.map (Cl.renameTok f)) = Cl.resolveAll cts ∧
    Cl.PrintsN (Cl.renameB f nt) arg fin (cts.map (Cl.renameTok f)) ∧
    Cl.toDeBruijn (Cl.renameB f nt) = Cl.toDeBruijn nt := by
  have hf' : Cl.RenamesOutside f (fun n => CToken.CName n ∈ cts) := hf
  exact ⟨Cl.resolveAll_rename hf' cts (fun x hx => hx), Cl.printsN_rename f hp,
    Cl.toDeBruijn_renameB hf' nt (fun x hx => (Cl.printsN_varNames hp x).1 hx)⟩

/-- the hypothesis is needed: renaming a REFERENCED binder changes the translation (`λx.x` ↦ `λz.x`) -/
example : Cl.toDeBruijn (Cl.renameB (fun _ => [122]) (nlam [120] (nvar [120]))) = abs (var 2) ∧
    Cl.toDeBruijn (nlam [120] (nvar [120])) = abs (var 1) := by decide

/-- C09, residual class A, SEMANTIC form of "a binder whose name contains `λ` binds nothing".  Let `s` be a rendering
of complete tokens `cts` (`Cl.RendersB`: ANY string the lexer accepts that does not end inside a binder) which print
the named term `nt`.  Rename the binders whose name contains the glyph `λ` to ANY names that are not names of
variables of the input, keeping the other binder names.  Then
(a) the scoped resolution `Cl.resolveAll` returns the same De Bruijn tokens;
(b) the renamed tokens print the renamed term;
(c) the De Bruijn translation is unchanged;
(d) `parse` returns the same term on `s` and on every string that renders the renamed tokens. -/
theorem C09_cla_glyph_binder_unreferenced (cls : CharCls) (hcls : Cl.ClsOk cls) (cts : List CToken)
    (s : List Nat) (nt : Cl.NTerm) (arg fin : Bool)
    (hr : Cl.RendersB cls cts s) (hp : Cl.PrintsN nt arg fin cts) (f : List Nat → List Nat)
    (hkeep : ∀ n, cLambda ∉ n → f n = n)
    (hfresh : ∀ m, cLambda ∈ m → CToken.CName (f m) ∉ cts) :
    Cl.resolveAll (cts.map (Cl.renameTok f)) = Cl.resolveAll cts ∧
    Cl.PrintsN (Cl.renameB f nt) arg fin (cts.map (Cl.renameTok f)) ∧
    Cl.toDeBruijn (Cl.renameB f nt) = Cl.toDeBruijn nt ∧
    (parse cls s .Classic = .ok (Cl.toDeBruijn nt) ∧
      ∀ s', Cl.RendersB cls (cts.map (Cl.renameTok f)) s' →
        parse cls s' .Classic = .ok (Cl.toDeBruijn nt)) := by
  have hf : ∀ n, f n = n ∨ (CToken.CName n ∉ cts ∧ CToken.CName (f n) ∉ cts) := by
    intro n
    by_cases hl : cLambda ∈ n
    · exact .inr ⟨fun hn => C09A.rendersB_name_glyphfree hr n hn hl, hfresh n hl⟩
    · exact .inl (hkeep n hl)
  obtain ⟨h1, h2, h3⟩ := C09_cla_unreferenced_binder_rename cts nt arg fin hp f hf
  refine ⟨h1, h2, h3, C09_cla_denotes_rendersB cls hcls nt arg fin cts s hp hr, fun s' hr' => ?_⟩
  rw [← h3]
  exact C09_cla_denotes_rendersB cls hcls _ arg fin _ s' h2 hr'

/-- known finding 2, `λxλy.x`: the binder `xλy` renamed to `z` — `λz.x` — has the same resolved tokens `λ 2` and the
same translation `λ2`; renaming it to `x`, a variable name of the input, is excluded by `hfresh` (and would capture) -/
example :
    let f : List Nat → List Nat := fun n => if n = [120, 955, 121] then [122] else n
    Cl.resolveAll ([CLambda [120, 955, 121], CName [120]].map (Cl.renameTok f))
      = Cl.resolveAll [CLambda [120, 955, 121], CName [120]] ∧
    [CLambda [120, 955, 121], CName [120]].map (Cl.renameTok f) = [CLambda [122], CName [120]] ∧
    Cl.resolveAll [CLambda [120, 955, 121], CName [120]] = some [Lambda, Number 2] ∧
    Cl.toDeBruijn (Cl.renameB f (nlam [120, 955, 121] (nvar [120]))) = abs (var 2) := by
  intro f
  have h := C09_cla_glyph_binder_unreferenced asciiCls asciiCls_ok _ _ (nlam [120, 955, 121] (nvar [120]))
    false true rendersB_kf2 (.lam .var) f
    (fun n hn => by
      have : n ≠ [120, 955, 121] := by rintro rfl; exact hn (by decide)
      simp [f, this])
    (fun m hm => by
      by_cases hmm : m = [120, 955, 121]
      · simp [f, hmm]
      · have : m ≠ [120] := by rintro rfl; exact absurd hm (by decide)
        simp [f, hmm, this])
  exact ⟨h.1, by decide, by decide, by rw [h.2.2.1]; decide⟩

/-- clause (d) on the same input: `λxλy.x` and `λz.x` (a rendering of the renamed tokens) parse to the same term -/
example : parse asciiCls [955, 120, 955, 121, 46, 120] .Classic = .ok (abs (var 2)) ∧
    parse asciiCls [955, 122, 46, 120] .Classic = .ok (abs (var 2)) := by
  have h := C09_cla_glyph_binder_unreferenced asciiCls asciiCls_ok _ _ (nlam [120, 955, 121] (nvar [120]))
    false true rendersB_kf2 (.lam .var) (fun n => if n = [120, 955, 121] then [122] else n)
    (fun n hn => by
      have : n ≠ [120, 955, 121] := by rintro rfl; exact hn (by decide)
      simp [this])
    (fun m hm => by
      by_cases hmm : m = [120, 955, 121]
      · simp [hmm]
      · have : m ≠ [120] := by rintro rfl; exact absurd hm (by decide)
        simp [hmm, this])
  refine ⟨h.2.2.2.1, h.2.2.2.2 [955, 122, 46, 120] ?_⟩
  exact .lam (g := 955) (n := [122]) (by decide) ⟨122, [], rfl, by decide, by simp⟩
    (.name (n := [120]) wf_x trivial .nil)

/-- C09, residual class A, one binder: if the binder name `m` contains the glyph `λ` and `m'` is not the name of a
variable of the input, renaming the binders named `m` to `m'` (everything else kept) changes neither the resolved
tokens nor the translation -/
theorem C09_cla_glyph_binder_rename_one (cls : CharCls) (cts : List CToken) (s : List Nat)
    (nt : Cl.NTerm) (arg fin : Bool) (hr : Cl.RendersB cls cts s) (hp : Cl.PrintsN nt arg fin cts)
    (m m' : List Nat) (hm : cLambda ∈ m) (hm' : CToken.CName m' ∉ cts) :
    Cl.resolveAll (cts.map (Cl.renameTok (fun n => if n = m then m' else n))) = Cl.resolveAll cts ∧
    Cl.toDeBruijn (Cl.renameB (fun n => if n = m then m' else n) nt) = Cl.toDeBruijn nt := by
  have hf : ∀ n, (fun n => if n = m then m' else n) n = n ∨
      (CToken.CName n ∉ cts ∧ CToken.CName ((fun n => if n = m then m' else n) n) ∉ cts) := by
    intro n
    by_cases hn : n = m
    · subst hn
      exact .inr ⟨fun h => C09A.rendersB_name_glyphfree hr n h hm, by simpa using hm'⟩
    · exact .inl (by simp [hn])
  obtain ⟨h1, _, h3⟩ := C09_cla_unreferenced_binder_rename cts nt arg fin hp _ hf
  exact ⟨h1, h3⟩

/-- `\λ.x` (a binder named `λ`) against `\y.x` -/
example : Cl.toDeBruijn (Cl.renameB (fun n => if n = [955] then [121] else n) (nlam [955] (nvar [120])))
    = Cl.toDeBruijn (nlam [955] (nvar [120])) :=
  (C09_cla_glyph_binder_rename_one asciiCls [CLambda [955], CName [120]] [92, 955, 46, 120] _ false true
    (.lam (g := 92) (n := [955]) (by decide) bn_l (.name (n := [120]) wf_x trivial .nil)) (.lam .var)
    [955] [121] (by decide) (by decide)).2

/-- C09, residual class A, direct form.  The specification resolves a variable occurrence `n` against the binders
in scope `bound` (innermost first) by `bound.idxOf? n`.  For a variable of the tokens of ANY string (rendering of
complete tokens) and ANY list of binders in scope: if the lookup succeeds with position `p`, the binder at position
`p` is named exactly `n` and its name does not contain the glyph `λ`; so a binder whose name contains `λ` is never
the one a variable resolves to. -/
theorem C09_cla_resolved_binder_glyphfree (cls : CharCls) (cts : List CToken) (s : List Nat)
    (hr : Cl.RendersB cls cts s) (n : List Nat) (hn : CToken.CName n ∈ cts) (bound : List (List Nat))
    (p : Nat) (hp : bound.idxOf? n = some p) :
    ∃ m, bound[p]? = some m ∧ m = n ∧ cLambda ∉ m :=
  ⟨n, Cl.idxOf?_some_getElem? hp, rfl, C09A.rendersB_name_glyphfree hr n hn⟩

/-- in `λxλy.x`, the variable `x` looked up in the scope `[xλy, x]`: position 1, not the glyph binder at 0 -/
example : ∃ m, ([[120, 955, 121], [120]] : List (List Nat))[1]? = some m ∧ m = [120] ∧ cLambda ∉ m :=
  C09_cla_resolved_binder_glyphfree asciiCls _ _ rendersB_kf2 [120] (by simp) _ 1 (by decide)

/-! ## A1. the four classes of the converse lexer theorem are pairwise exclusive -/

/-- C09: the four alternatives of `C09_cla_lex_total_classification` (offending character / rendering / rendering with
a glyph in a binder name / input ends inside a binder) are PAIRWISE contradictory; with that theorem: every string
is in EXACTLY one class -/
theorem C09_cla_lex_classes_exclusive (cls : CharCls) (hcls : Cl.ClsOk cls) (s : List Nat) :
    let D1 := ∃ pre c post, s = pre ++ c :: post ∧ Cl.Offending cls pre c ∧
      tokenizeCla cls s = .error (.InvalidCharacter pre.length c)
    let D2 := ∃ toks, tokenizeCla cls s = .ok toks ∧ Cl.Renders cls toks s
    let D3 := ∃ toks, tokenizeCla cls s = .ok toks ∧ Cl.RendersB cls toks s ∧
      ∃ n, CToken.CLambda n ∈ toks ∧ cLambda ∈ n
    let D4 := ∃ toks, tokenizeCla cls s = .ok toks ∧ Cl.CutBinder cls toks s
    ¬ (D1 ∧ D2) ∧ ¬ (D1 ∧ D3) ∧ ¬ (D1 ∧ D4) ∧ ¬ (D2 ∧ D3) ∧ ¬ (D2 ∧ D4) ∧ ¬ (D3 ∧ D4) := by
  intro D1 D2 D3 D4
  refine ⟨?_, ?_, ?_, ?_, ?_, ?_⟩
  · rintro ⟨⟨_, _, _, _, _, he⟩, ⟨toks, hl, _⟩⟩
    rw [hl] at he; cases he
  · rintro ⟨⟨_, _, _, _, _, he⟩, ⟨toks, hl, _⟩⟩
    rw [hl] at he; cases he
  · rintro ⟨⟨_, _, _, _, _, he⟩, ⟨toks, hl, _⟩⟩
    rw [hl] at he; cases he
  · rintro ⟨⟨toks, hl, hr⟩, ⟨toks', hl', _, hg⟩⟩
    rw [hl] at hl'; cases hl'
    exact (C09_cla_lex_classes_disjoint cls hcls s toks toks).1 hr hg
  · rintro ⟨⟨toks, _, hr⟩, ⟨toks', _, hc⟩⟩
    exact (C09_cla_lex_classes_disjoint cls hcls s toks toks').2 (C09A.rendersB_of_renders hr) hc
  · rintro ⟨⟨toks, _, hr, _⟩, ⟨toks', _, hc⟩⟩
    exact (C09_cla_lex_classes_disjoint cls hcls s toks toks').2 hr hc

/-- non-vacuity: `λxλy.x` is in class 3 (`C09All.lean`), hence in none of the others — e.g. it has no offending
character -/
example : ¬ ∃ pre c post, [955, 120, 955, 121, 46, 120] = pre ++ c :: post ∧ Cl.Offending asciiCls pre c ∧
    tokenizeCla asciiCls [955, 120, 955, 121, 46, 120] = .error (.InvalidCharacter pre.length c) :=
  fun h => (C09_cla_lex_classes_exclusive asciiCls asciiCls_ok _).2.1
    ⟨h, [.CLambda [120, 955, 121], .CName [120]], rfl, rendersB_kf2, [120, 955, 121], by simp, by decide⟩

end LC
