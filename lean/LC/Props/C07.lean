/-
C07 — NOR and HNO reach every existing normal form; CBN and HSP the head forms

"If a term has a beta-normal form (some reduction sequence reaches it) then reduce with NOR or
HNO and limit 0 terminates with exactly that normal form, even when eager orders diverge on
the same term. Likewise CBN terminates whenever the term has a weak head normal form and HSP
whenever it has a head normal form."

Proof: standardisation (`Proofs/Standard.lean`, Kashima) gives that the small-step strategy
terminates (`nor_normalises`, `cbn_terminates`, `hsp_terminates`, `hno_normalises`); the
completeness direction of the refinement (`Proofs/Complete/*.lean`) gives that the Rust
traversal then returns, with exactly the strategy's result.  No bound on term size or on the
length of the reduction.  `∃ fuel` is "the recursion terminates": `fuel` only bounds the depth
of the call tree and results do not depend on it (`C04_fuel_irrelevant`).
-/
import LC.Proofs.Complete.All
import LC.Proofs.Refine.All
import LC.Proofs.HybridNormal

namespace LC
open Term Spec

/-- NOR with limit 0 returns exactly the normal form whenever one is reachable -/
theorem C07_nor (t N : Term) (h : Star t N) (hN : Normal N) :
    ∃ fuel c, reduce .NOR 0 fuel t = some (N, c) := by
  obtain ⟨k, it⟩ := nor_normalises h hN
  have hnone : stepNor N = none := (stepNor_none_iff N).2 ((isNormal_iff_normal N).2 hN)
  obtain ⟨fuel, hf⟩ := reduce_complete .NOR 0 k t N it (fun _ => hnone) (fun h => absurd rfl h)
  exact ⟨fuel, k, hf⟩

/-- HNO with limit 0 returns exactly the normal form whenever one is reachable -/
theorem C07_hno (t N : Term) (h : Star t N) (hN : Normal N) :
    ∃ fuel c, reduce .HNO 0 fuel t = some (N, c) := by
  obtain ⟨k, it⟩ := hno_normalises h hN
  have hnone : stepHno N = none := (stepHno_none_iff N).2 ((isNormal_iff_normal N).2 hN)
  obtain ⟨fuel, hf⟩ := reduce_complete .HNO 0 k t N it (fun _ => hnone) (fun h => absurd rfl h)
  exact ⟨fuel, k, hf⟩

/-- CBN with limit 0 terminates (in a weak head normal form) whenever some weak head normal
form is reachable -/
theorem C07_cbn (t w : Term) (h : Star t w) (hw : isWHNF w = true) :
    ∃ fuel w' c, reduce .CBN 0 fuel t = some (w', c) ∧ isWHNF w' = true := by
  obtain ⟨k, w', it, hn⟩ := cbn_terminates h hw
  obtain ⟨fuel, hf⟩ := reduce_complete .CBN 0 k t w' it (fun _ => hn) (fun h => absurd rfl h)
  exact ⟨fuel, w', k, hf, (stepCbn_none_iff w').1 hn⟩

/-- HSP with limit 0 terminates (in a head normal form) whenever some head normal form is
reachable -/
theorem C07_hsp (t h : Term) (hs : Star t h) (hh : isHNF h = true) :
    ∃ fuel h' c, reduce .HSP 0 fuel t = some (h', c) ∧ isHNF h' = true := by
  obtain ⟨k, h', it, hn⟩ := hsp_terminates hs hh
  obtain ⟨fuel, hf⟩ := reduce_complete .HSP 0 k t h' it (fun _ => hn) (fun h => absurd rfl h)
  exact ⟨fuel, h', k, hf, (stepHsp_none_iff h').1 hn⟩

/-! ### "even when eager orders diverge": `(λ.2) Ω` has the normal form `1`, NOR finds it,
while the applicative order never returns on it (for no amount of fuel). -/

def omega : Term := abs (app (var 1) (var 1))
def Omega : Term := app omega omega
def kOmega : Term := app (abs (var 2)) Omega

theorem Omega_step : stepApp Omega = some Omega := by decide

/-- a strategy that has an infinite run never reaches a normal form -/
theorem no_nf_of_loop {f : Term → Option Term} {t : Term} (hl : f t = some t) :
    ∀ k u, Iter f k t u → u = t := by
  intro k
  induction k with
  | zero => intro u h; cases h; rfl
  | succ k ih =>
    intro u h
    cases h with
    | succ hs h' => rw [hl] at hs; cases hs; exact ih u h'

theorem kOmega_stepApp : stepApp kOmega = some kOmega := by decide

/-- non-vacuity and the divergence clause: the premises of `C07_nor` hold for `(λ.2) Ω`
(normal form `var 1`), and APP with limit 0 returns for no fuel at all -/
theorem C07_eager_diverges :
    Star kOmega (var 1) ∧ Normal (var 1) ∧ ∀ fuel, reduce .APP 0 fuel kOmega = none := by
  refine ⟨?_, ?_, ?_⟩
  · have : Beta kOmega (contract (var 2) Omega) := Beta.redc _ _
    exact Star.one this
  · intro u hb; cases hb
  · intro fuel
    cases hr : reduce .APP 0 fuel kOmega with
    | none => rfl
    | some r =>
      obtain ⟨t', c⟩ := r
      have hs := reduce_sound .APP 0 fuel kOmega t' c hr
      have hl : stepOrd .APP kOmega = some kOmega := kOmega_stepApp
      have ht' : t' = kOmega := no_nf_of_loop hl c t' hs.1
      have := hs.2.2 (Or.inl rfl)
      rw [ht'] at this
      rw [hl] at this; cases this

example : ∃ fuel c, reduce .NOR 0 fuel kOmega = some (var 1, c) :=
  C07_nor kOmega (var 1) C07_eager_diverges.1 C07_eager_diverges.2.1

/-- the same for the other two eager orders: on `(λ.2) Ω` the hybrid applicative order and call-by-value loop as well
(both evaluate the argument `Ω` before contracting), so with limit 0 they return for no fuel at all — while NOR, HNO, CBN and
HSP all terminate on it (`C07_nor`, `C07_hno`, `C07_cbn`, `C07_hsp`; its normal form `var 1` is also its head normal form) -/
theorem C07_eager_diverges_hap_cbv :
    (∀ fuel, reduce .HAP 0 fuel kOmega = none) ∧ (∀ fuel, reduce .CBV 0 fuel kOmega = none) := by
  have key : ∀ o : Order, stepOrd o kOmega = some kOmega → ∀ fuel, reduce o 0 fuel kOmega = none := by
    intro o hl fuel
    cases hr : reduce o 0 fuel kOmega with
    | none => rfl
    | some r =>
      obtain ⟨t', c⟩ := r
      have hs := reduce_sound o 0 fuel kOmega t' c hr
      have ht' : t' = kOmega := no_nf_of_loop hl c t' hs.1
      have := hs.2.2 (Or.inl rfl)
      rw [ht'] at this
      rw [hl] at this; cases this
  exact ⟨key .HAP (by decide), key .CBV (by decide)⟩

example : (∃ fuel c, reduce .HNO 0 fuel kOmega = some (var 1, c)) ∧ (∃ fuel w c, reduce .CBN 0 fuel kOmega = some (w, c)) :=
  ⟨C07_hno kOmega (var 1) C07_eager_diverges.1 C07_eager_diverges.2.1,
   by
    obtain ⟨f, w, c, h, _⟩ := C07_cbn kOmega (var 1) C07_eager_diverges.1 (by decide)
    exact ⟨f, w, c, h⟩⟩

end LC
