/-
C13 — Church arithmetic and comparisons compute the arithmetic of the naturals

"For all naturals m and n, applying each Church-numeral operation (succ, pred, add, sub, mul, pow,
fac, min, max, shl, shr, div, quot, rem with non-zero divisor, is_zero, is_even, is_odd, lt, leq,
eq, neq, geq, gt) to the encodings of its arguments normalises to the encoding of the
mathematically expected number, pair or boolean, with subtraction and predecessor truncated at
zero. This holds under NOR and HNO always, under HAP as well (the recursive operations delay their
branches for that purpose), and under APP for the operations defined without a fixed-point
combinator."

Three layers (DESIGN §7 C13).  `Computes t n` (Proofs/Layer2.lean) packages, for ALL arguments:
  conv   : t ↠ n                                   (layer 1: by induction, Proofs/Num/Church*.lean)
  normal : n is a β-normal form
  nor/hno: reduce NOR / HNO with limit 0 return exactly n for some fuel, i.e. they TERMINATE (via C07)
  any    : whenever reduce under NOR, HNO, APP or HAP with limit 0 returns at all, it returns n
           (via C01, C03, C06) — so for the eager orders the RESULT is proved right for all arguments.
Layer 3 (bounded, labelled as such): termination of HAP (all operations) and APP (operations
defined without Z) on a finite grid, by evaluating the verified model reducer in the kernel.
The operations are the GENERATED constants `Gen.Church.*`, re-extracted from the Rust source on
every run, mentioned by name only.
-/
import LC.Proofs.Layer2
import LC.Proofs.Grid
import LC.Proofs.Num.ChurchB
import LC.Props.C12

namespace LC
open Term Spec Enc ChurchB

namespace C13
theorem normal_fromBool (b : Bool) : isNormal (fromBool b) = true := by cases b <;> decide
theorem normal_tuple2 {a b : Term} (ha : isNormal a = true) (hb : isNormal b = true) :
    isNormal (tuple2 a b) = true := by simp [tuple2, isNormal, isAbs, ha, hb]
end C13
open C13


/-! ### layers 1 and 2: for all arguments -/

theorem C13_succ (n : Nat) : Computes (app Gen.Church.succ (intoChurch n)) (intoChurch (n + 1)) :=
  computes_of_star (church_succ_correct n) (normal_intoChurch _)

theorem C13_pred (n : Nat) : Computes (app Gen.Church.pred (intoChurch n)) (intoChurch (n - 1)) :=
  computes_of_star (church_pred_correct n) (normal_intoChurch _)

theorem C13_is_zero (n : Nat) : Computes (app Gen.Church.is_zero (intoChurch n)) (fromBool (n == 0)) :=
  computes_of_star (church_is_zero_correct n) (normal_fromBool _)

theorem C13_is_even (n : Nat) : Computes (app Gen.Church.is_even (intoChurch n)) (fromBool (n % 2 == 0)) :=
  computes_of_star (church_is_even_correct n) (normal_fromBool _)

theorem C13_is_odd (n : Nat) : Computes (app Gen.Church.is_odd (intoChurch n)) (fromBool (n % 2 == 1)) :=
  computes_of_star (church_is_odd_correct n) (normal_fromBool _)

theorem C13_fac (n : Nat) : Computes (app Gen.Church.fac (intoChurch n)) (intoChurch (fact n)) :=
  computes_of_star (church_fac_correct n) (normal_intoChurch _)

theorem C13_add (m n : Nat) :
    Computes (app2 Gen.Church.add (intoChurch m) (intoChurch n)) (intoChurch (m + n)) :=
  computes_of_star (church_add_correct m n) (normal_intoChurch _)

theorem C13_sub (m n : Nat) :
    Computes (app2 Gen.Church.sub (intoChurch m) (intoChurch n)) (intoChurch (m - n)) :=
  computes_of_star (church_sub_correct m n) (normal_intoChurch _)

theorem C13_mul (m n : Nat) :
    Computes (app2 Gen.Church.mul (intoChurch m) (intoChurch n)) (intoChurch (m * n)) :=
  computes_of_star (church_mul_correct m n) (normal_intoChurch _)

theorem C13_pow (m n : Nat) :
    Computes (app2 Gen.Church.pow (intoChurch m) (intoChurch n)) (intoChurch (m ^ n)) :=
  computes_of_star (church_pow_correct m n) (normal_intoChurch _)

theorem C13_min (m n : Nat) :
    Computes (app2 Gen.Church.min (intoChurch m) (intoChurch n)) (intoChurch (min m n)) :=
  computes_of_star (church_min_correct m n) (normal_intoChurch _)

theorem C13_max (m n : Nat) :
    Computes (app2 Gen.Church.max (intoChurch m) (intoChurch n)) (intoChurch (max m n)) :=
  computes_of_star (church_max_correct m n) (normal_intoChurch _)

theorem C13_lt (m n : Nat) :
    Computes (app2 Gen.Church.lt (intoChurch m) (intoChurch n)) (fromBool (decide (m < n))) :=
  computes_of_star (church_lt_correct m n) (normal_fromBool _)

theorem C13_leq (m n : Nat) :
    Computes (app2 Gen.Church.leq (intoChurch m) (intoChurch n)) (fromBool (decide (m ≤ n))) :=
  computes_of_star (church_leq_correct m n) (normal_fromBool _)

theorem C13_eq (m n : Nat) :
    Computes (app2 Gen.Church.eq (intoChurch m) (intoChurch n)) (fromBool (decide (m = n))) :=
  computes_of_star (church_eq_correct m n) (normal_fromBool _)

theorem C13_neq (m n : Nat) :
    Computes (app2 Gen.Church.neq (intoChurch m) (intoChurch n)) (fromBool (decide (m ≠ n))) :=
  computes_of_star (church_neq_correct m n) (normal_fromBool _)

theorem C13_geq (m n : Nat) :
    Computes (app2 Gen.Church.geq (intoChurch m) (intoChurch n)) (fromBool (decide (m ≥ n))) :=
  computes_of_star (church_geq_correct m n) (normal_fromBool _)

theorem C13_gt (m n : Nat) :
    Computes (app2 Gen.Church.gt (intoChurch m) (intoChurch n)) (fromBool (decide (m > n))) :=
  computes_of_star (church_gt_correct m n) (normal_fromBool _)

theorem C13_shl (m n : Nat) :
    Computes (app2 Gen.Church.shl (intoChurch m) (intoChurch n)) (intoChurch (m * 2 ^ n)) :=
  computes_of_star (church_shl_correct m n) (normal_intoChurch _)

theorem C13_shr (m n : Nat) :
    Computes (app2 Gen.Church.shr (intoChurch m) (intoChurch n)) (intoChurch (m / 2 ^ n)) :=
  computes_of_star (church_shr_correct m n) (normal_intoChurch _)

theorem C13_quot (m n : Nat) (hn : n ≠ 0) :
    Computes (app2 Gen.Church.quot (intoChurch m) (intoChurch n)) (intoChurch (m / n)) :=
  computes_of_star (church_quot_correct m n hn) (normal_intoChurch _)

theorem C13_rem (m n : Nat) (hn : n ≠ 0) :
    Computes (app2 Gen.Church.rem (intoChurch m) (intoChurch n)) (intoChurch (m % n)) :=
  computes_of_star (church_rem_correct m n hn) (normal_intoChurch _)

theorem C13_div (m n : Nat) (hn : n ≠ 0) :
    Computes (app2 Gen.Church.div (intoChurch m) (intoChurch n)) (tuple2 (intoChurch (m / n)) (intoChurch (m % n))) :=
  computes_of_star (church_div_correct m n hn) (normal_tuple2 (normal_intoChurch _) (normal_intoChurch _))

/-- non-vacuity: the premises are met by concrete numerals, e.g. 7 / 2 -/
example : ∃ fuel c, reduce .NOR 0 fuel (app2 Gen.Church.div (intoChurch 7) (intoChurch 2))
    = some (tuple2 (intoChurch 3) (intoChurch 1), c) := (C13_div 7 2 (by decide)).nor

/-! ### layer 3 (BOUNDED): the eager orders terminate on the grid.
`Grid.runsTo o fuel t n = true` implies `∃ c, reduce o 0 fuel t = some (n, c)` (`Grid.runsTo_spec`). -/

def FUEL : Nat := 100000
def eager (zBased : Bool) : List Order := if zBased then [.HAP] else [.HAP, .APP]

set_option maxRecDepth 100000 in
theorem C13_grid_succ : (List.range 7).all (fun n => (eager false).all (fun o =>
    Grid.runsTo o FUEL (app Gen.Church.succ (intoChurch n)) (intoChurch (n + 1)))) = true := by decide +kernel

set_option maxRecDepth 100000 in
theorem C13_grid_pred : (List.range 7).all (fun n => (eager false).all (fun o =>
    Grid.runsTo o FUEL (app Gen.Church.pred (intoChurch n)) (intoChurch (n - 1)))) = true := by decide +kernel

set_option maxRecDepth 100000 in
theorem C13_grid_is_zero : (List.range 7).all (fun n => (eager false).all (fun o =>
    Grid.runsTo o FUEL (app Gen.Church.is_zero (intoChurch n)) (fromBool (n == 0)))) = true := by decide +kernel

set_option maxRecDepth 100000 in
theorem C13_grid_is_even : (List.range 7).all (fun n => (eager false).all (fun o =>
    Grid.runsTo o FUEL (app Gen.Church.is_even (intoChurch n)) (fromBool (n % 2 == 0)))) = true := by decide +kernel

set_option maxRecDepth 100000 in
theorem C13_grid_is_odd : (List.range 7).all (fun n => (eager false).all (fun o =>
    Grid.runsTo o FUEL (app Gen.Church.is_odd (intoChurch n)) (fromBool (n % 2 == 1)))) = true := by decide +kernel

set_option maxRecDepth 100000 in
theorem C13_grid_fac : (List.range 5).all (fun n => (eager false).all (fun o =>
    Grid.runsTo o FUEL (app Gen.Church.fac (intoChurch n)) (intoChurch (fact n)))) = true := by decide +kernel

set_option maxRecDepth 100000 in
theorem C13_grid_add : (Grid.range2 4 4).all (fun (m, n) => (eager false).all (fun o =>
    Grid.runsTo o FUEL (app2 Gen.Church.add (intoChurch m) (intoChurch n)) (intoChurch (m + n)))) = true := by decide +kernel

set_option maxRecDepth 100000 in
theorem C13_grid_sub : (Grid.range2 4 4).all (fun (m, n) => (eager false).all (fun o =>
    Grid.runsTo o FUEL (app2 Gen.Church.sub (intoChurch m) (intoChurch n)) (intoChurch (m - n)))) = true := by decide +kernel

set_option maxRecDepth 100000 in
theorem C13_grid_mul : (Grid.range2 4 4).all (fun (m, n) => (eager false).all (fun o =>
    Grid.runsTo o FUEL (app2 Gen.Church.mul (intoChurch m) (intoChurch n)) (intoChurch (m * n)))) = true := by decide +kernel

set_option maxRecDepth 100000 in
theorem C13_grid_pow : (Grid.range2 3 3).all (fun (m, n) => (eager false).all (fun o =>
    Grid.runsTo o FUEL (app2 Gen.Church.pow (intoChurch m) (intoChurch n)) (intoChurch (m ^ n)))) = true := by decide +kernel

set_option maxRecDepth 100000 in
theorem C13_grid_min : (Grid.range2 4 4).all (fun (m, n) => (eager false).all (fun o =>
    Grid.runsTo o FUEL (app2 Gen.Church.min (intoChurch m) (intoChurch n)) (intoChurch (min m n)))) = true := by decide +kernel

set_option maxRecDepth 100000 in
theorem C13_grid_max : (Grid.range2 4 4).all (fun (m, n) => (eager false).all (fun o =>
    Grid.runsTo o FUEL (app2 Gen.Church.max (intoChurch m) (intoChurch n)) (intoChurch (max m n)))) = true := by decide +kernel

set_option maxRecDepth 100000 in
theorem C13_grid_lt : (Grid.range2 4 4).all (fun (m, n) => (eager false).all (fun o =>
    Grid.runsTo o FUEL (app2 Gen.Church.lt (intoChurch m) (intoChurch n)) (fromBool (decide (m < n))))) = true := by decide +kernel

set_option maxRecDepth 100000 in
theorem C13_grid_leq : (Grid.range2 4 4).all (fun (m, n) => (eager false).all (fun o =>
    Grid.runsTo o FUEL (app2 Gen.Church.leq (intoChurch m) (intoChurch n)) (fromBool (decide (m ≤ n))))) = true := by decide +kernel

set_option maxRecDepth 100000 in
theorem C13_grid_eq : (Grid.range2 4 4).all (fun (m, n) => (eager false).all (fun o =>
    Grid.runsTo o FUEL (app2 Gen.Church.eq (intoChurch m) (intoChurch n)) (fromBool (decide (m = n))))) = true := by decide +kernel

set_option maxRecDepth 100000 in
theorem C13_grid_neq : (Grid.range2 4 4).all (fun (m, n) => (eager false).all (fun o =>
    Grid.runsTo o FUEL (app2 Gen.Church.neq (intoChurch m) (intoChurch n)) (fromBool (decide (m ≠ n))))) = true := by decide +kernel

set_option maxRecDepth 100000 in
theorem C13_grid_geq : (Grid.range2 4 4).all (fun (m, n) => (eager false).all (fun o =>
    Grid.runsTo o FUEL (app2 Gen.Church.geq (intoChurch m) (intoChurch n)) (fromBool (decide (m ≥ n))))) = true := by decide +kernel

set_option maxRecDepth 100000 in
theorem C13_grid_gt : (Grid.range2 4 4).all (fun (m, n) => (eager false).all (fun o =>
    Grid.runsTo o FUEL (app2 Gen.Church.gt (intoChurch m) (intoChurch n)) (fromBool (decide (m > n))))) = true := by decide +kernel

set_option maxRecDepth 100000 in
theorem C13_grid_shl : (Grid.range2 3 3).all (fun (m, n) => (eager false).all (fun o =>
    Grid.runsTo o FUEL (app2 Gen.Church.shl (intoChurch m) (intoChurch n)) (intoChurch (m * 2 ^ n)))) = true := by decide +kernel

set_option maxRecDepth 100000 in
theorem C13_grid_shr : (Grid.range2 3 3).all (fun (m, n) => (eager true).all (fun o =>
    Grid.runsTo o FUEL (app2 Gen.Church.shr (intoChurch m) (intoChurch n)) (intoChurch (m / 2 ^ n)))) = true := by decide +kernel

set_option maxRecDepth 100000 in
theorem C13_grid_quot : (Grid.range2 4 4).all (fun (m, n) => n == 0 || (eager true).all (fun o =>
    Grid.runsTo o FUEL (app2 Gen.Church.quot (intoChurch m) (intoChurch n)) (intoChurch (m / n)))) = true := by decide +kernel

set_option maxRecDepth 100000 in
theorem C13_grid_rem : (Grid.range2 4 4).all (fun (m, n) => n == 0 || (eager true).all (fun o =>
    Grid.runsTo o FUEL (app2 Gen.Church.rem (intoChurch m) (intoChurch n)) (intoChurch (m % n)))) = true := by decide +kernel

set_option maxRecDepth 100000 in
theorem C13_grid_div : (Grid.range2 4 4).all (fun (m, n) => n == 0 || (eager true).all (fun o =>
    Grid.runsTo o FUEL (app2 Gen.Church.div (intoChurch m) (intoChurch n)) (tuple2 (intoChurch (m / n)) (intoChurch (m % n))))) = true := by decide +kernel

end LC
