/-
C13 — Church arithmetic and comparisons compute the arithmetic of the naturals

"For all naturals m and n, applying each Church-numeral operation (succ, pred, add, sub, mul, pow,
fac, min, max, shl, shr, div, quot, rem with non-zero divisor, is_zero, is_even, is_odd, lt, leq,
eq, neq, geq, gt) to the encodings of its arguments normalises to the encoding of the
mathematically expected number, pair or boolean, with subtraction and predecessor truncated at
zero. This holds under NOR and HNO always, under HAP as well (the recursive operations delay their
branches for that purpose), and under APP for the operations defined without a fixed-point
combinator."

Three layers (DESIGN §7 C13).  `Computes t n` (Proofs/Layer2.lean) packages, for ALL arguments:
  conv   : t ↠ n                                   (layer 1: by induction, Proofs/Num/Church*.lean)
  normal : n is a β-normal form
  nor/hno: reduce NOR / HNO with limit 0 return exactly n for some fuel, i.e. they TERMINATE (via C07)
  any    : whenever reduce under NOR, HNO, APP or HAP with limit 0 returns at all, it returns n
           (via C01, C03, C06) — so for the eager orders the RESULT is proved right for all arguments.
Layer 3 — **now unbounded too**: for ALL arguments, `reduce HAP 0` RETURNS the expected encoding for all 23
operations (`C13_<op>_hap`) and `reduce APP 0` does so for the 19 operations defined without a fixed-point
combinator (`C13_<op>_app`).  Proof: big-step semantics `EvalHap`/`EvalApp` mirroring the eager traversals
(`Proofs/Eager/BigStep.lean`, adequate for the model reducer), one derivation per operation following the
eager evaluation order (closures in operator position, normalisation under binders), by induction on the
numerals; `fac` under APP through a general theorem: APP terminates on every simply typed term.  The four
Z-based operations are shown to DIVERGE under APP for all arguments (`C13_z_based_diverge_under_app`), which
is why the documentation excludes them.  A small kernel-evaluated grid is kept as a cross-check of the
statements (`C13_grid_*`, labelled bounded); it no longer carries any claim.
The operations are the GENERATED constants `Gen.Church.*`, re-extracted from the Rust source on
every run, mentioned by name only.
-/
import LC.Proofs.Layer2
import LC.Proofs.Grid
import LC.Proofs.Num.ChurchB
import LC.Proofs.Eager.ChurchHapA
import LC.Proofs.Eager.ChurchHapB
import LC.Proofs.Eager.ChurchAppA
import LC.Proofs.Eager.ChurchAppB
import LC.Props.C12

namespace LC
open Term Spec Enc ChurchB

namespace C13
theorem normal_fromBool (b : Bool) : isNormal (fromBool b) = true := by cases b <;> decide
theorem normal_tuple2 {a b : Term} (ha : isNormal a = true) (hb : isNormal b = true) :
    isNormal (tuple2 a b) = true := by simp [tuple2, isNormal, isAbs, ha, hb]
end C13
open C13


/-! ### layers 1 and 2: for all arguments -/

theorem C13_succ (n : Nat) : Computes (app Gen.Church.succ (intoChurch n)) (intoChurch (n + 1)) :=
  computes_of_star (church_succ_correct n) (normal_intoChurch _)

theorem C13_pred (n : Nat) : Computes (app Gen.Church.pred (intoChurch n)) (intoChurch (n - 1)) :=
  computes_of_star (church_pred_correct n) (normal_intoChurch _)

theorem C13_is_zero (n : Nat) : Computes (app Gen.Church.is_zero (intoChurch n)) (fromBool (n == 0)) :=
  computes_of_star (church_is_zero_correct n) (normal_fromBool _)

theorem C13_is_even (n : Nat) : Computes (app Gen.Church.is_even (intoChurch n)) (fromBool (n % 2 == 0)) :=
  computes_of_star (church_is_even_correct n) (normal_fromBool _)

theorem C13_is_odd (n : Nat) : Computes (app Gen.Church.is_odd (intoChurch n)) (fromBool (n % 2 == 1)) :=
  computes_of_star (church_is_odd_correct n) (normal_fromBool _)

theorem C13_fac (n : Nat) : Computes (app Gen.Church.fac (intoChurch n)) (intoChurch (fact n)) :=
  computes_of_star (church_fac_correct n) (normal_intoChurch _)

theorem C13_add (m n : Nat) :
    Computes (app2 Gen.Church.add (intoChurch m) (intoChurch n)) (intoChurch (m + n)) :=
  computes_of_star (church_add_correct m n) (normal_intoChurch _)

theorem C13_sub (m n : Nat) :
    Computes (app2 Gen.Church.sub (intoChurch m) (intoChurch n)) (intoChurch (m - n)) :=
  computes_of_star (church_sub_correct m n) (normal_intoChurch _)

theorem C13_mul (m n : Nat) :
    Computes (app2 Gen.Church.mul (intoChurch m) (intoChurch n)) (intoChurch (m * n)) :=
  computes_of_star (church_mul_correct m n) (normal_intoChurch _)

theorem C13_pow (m n : Nat) :
    Computes (app2 Gen.Church.pow (intoChurch m) (intoChurch n)) (intoChurch (m ^ n)) :=
  computes_of_star (church_pow_correct m n) (normal_intoChurch _)

theorem C13_min (m n : Nat) :
    Computes (app2 Gen.Church.min (intoChurch m) (intoChurch n)) (intoChurch (min m n)) :=
  computes_of_star (church_min_correct m n) (normal_intoChurch _)

theorem C13_max (m n : Nat) :
    Computes (app2 Gen.Church.max (intoChurch m) (intoChurch n)) (intoChurch (max m n)) :=
  computes_of_star (church_max_correct m n) (normal_intoChurch _)

theorem C13_lt (m n : Nat) :
    Computes (app2 Gen.Church.lt (intoChurch m) (intoChurch n)) (fromBool (decide (m < n))) :=
  computes_of_star (church_lt_correct m n) (normal_fromBool _)

theorem C13_leq (m n : Nat) :
    Computes (app2 Gen.Church.leq (intoChurch m) (intoChurch n)) (fromBool (decide (m ≤ n))) :=
  computes_of_star (church_leq_correct m n) (normal_fromBool _)

theorem C13_eq (m n : Nat) :
    Computes (app2 Gen.Church.eq (intoChurch m) (intoChurch n)) (fromBool (decide (m = n))) :=
  computes_of_star (church_eq_correct m n) (normal_fromBool _)

theorem C13_neq (m n : Nat) :
    Computes (app2 Gen.Church.neq (intoChurch m) (intoChurch n)) (fromBool (decide (m ≠ n))) :=
  computes_of_star (church_neq_correct m n) (normal_fromBool _)

theorem C13_geq (m n : Nat) :
    Computes (app2 Gen.Church.geq (intoChurch m) (intoChurch n)) (fromBool (decide (m ≥ n))) :=
  computes_of_star (church_geq_correct m n) (normal_fromBool _)

theorem C13_gt (m n : Nat) :
    Computes (app2 Gen.Church.gt (intoChurch m) (intoChurch n)) (fromBool (decide (m > n))) :=
  computes_of_star (church_gt_correct m n) (normal_fromBool _)

theorem C13_shl (m n : Nat) :
    Computes (app2 Gen.Church.shl (intoChurch m) (intoChurch n)) (intoChurch (m * 2 ^ n)) :=
  computes_of_star (church_shl_correct m n) (normal_intoChurch _)

theorem C13_shr (m n : Nat) :
    Computes (app2 Gen.Church.shr (intoChurch m) (intoChurch n)) (intoChurch (m / 2 ^ n)) :=
  computes_of_star (church_shr_correct m n) (normal_intoChurch _)

theorem C13_quot (m n : Nat) (hn : n ≠ 0) :
    Computes (app2 Gen.Church.quot (intoChurch m) (intoChurch n)) (intoChurch (m / n)) :=
  computes_of_star (church_quot_correct m n hn) (normal_intoChurch _)

theorem C13_rem (m n : Nat) (hn : n ≠ 0) :
    Computes (app2 Gen.Church.rem (intoChurch m) (intoChurch n)) (intoChurch (m % n)) :=
  computes_of_star (church_rem_correct m n hn) (normal_intoChurch _)

theorem C13_div (m n : Nat) (hn : n ≠ 0) :
    Computes (app2 Gen.Church.div (intoChurch m) (intoChurch n)) (tuple2 (intoChurch (m / n)) (intoChurch (m % n))) :=
  computes_of_star (church_div_correct m n hn) (normal_tuple2 (normal_intoChurch _) (normal_intoChurch _))

/-- non-vacuity: the premises are met by concrete numerals, e.g. 7 / 2 -/
example : ∃ fuel c, reduce .NOR 0 fuel (app2 Gen.Church.div (intoChurch 7) (intoChurch 2))
    = some (tuple2 (intoChurch 3) (intoChurch 1), c) := (C13_div 7 2 (by decide)).nor

/-! ### layer 3, unbounded: the eager orders terminate with the expected result, for all arguments -/

theorem C13_succ_hap (n : Nat) :
    ∃ fuel c, reduce .HAP 0 fuel (app Gen.Church.succ (intoChurch n)) = some (intoChurch (n + 1), c) := by
  have h := (church_succ_hap n).reduce
  first | exact h | simpa using h

theorem C13_succ_app (n : Nat) :
    ∃ fuel c, reduce .APP 0 fuel (app Gen.Church.succ (intoChurch n)) = some (intoChurch (n + 1), c) := by
  have h := (church_succ_app n).reduce
  first | exact h | simpa using h

theorem C13_pred_hap (n : Nat) :
    ∃ fuel c, reduce .HAP 0 fuel (app Gen.Church.pred (intoChurch n)) = some (intoChurch (n - 1), c) := by
  have h := (church_pred_hap n).reduce
  first | exact h | simpa using h

theorem C13_pred_app (n : Nat) :
    ∃ fuel c, reduce .APP 0 fuel (app Gen.Church.pred (intoChurch n)) = some (intoChurch (n - 1), c) := by
  have h := (church_pred_app n).reduce
  first | exact h | simpa using h

theorem C13_is_zero_hap (n : Nat) :
    ∃ fuel c, reduce .HAP 0 fuel (app Gen.Church.is_zero (intoChurch n)) = some (fromBool (n == 0), c) := by
  have h := (church_is_zero_hap n).reduce
  first | exact h | simpa using h

theorem C13_is_zero_app (n : Nat) :
    ∃ fuel c, reduce .APP 0 fuel (app Gen.Church.is_zero (intoChurch n)) = some (fromBool (n == 0), c) := by
  have h := (church_is_zero_app n).reduce
  first | exact h | simpa using h

theorem C13_is_even_hap (n : Nat) :
    ∃ fuel c, reduce .HAP 0 fuel (app Gen.Church.is_even (intoChurch n)) = some (fromBool (n % 2 == 0), c) := by
  have h := (church_is_even_hap n).reduce
  first | exact h | simpa using h

theorem C13_is_even_app (n : Nat) :
    ∃ fuel c, reduce .APP 0 fuel (app Gen.Church.is_even (intoChurch n)) = some (fromBool (n % 2 == 0), c) := by
  have h := (church_is_even_app n).reduce
  first | exact h | simpa using h

theorem C13_is_odd_hap (n : Nat) :
    ∃ fuel c, reduce .HAP 0 fuel (app Gen.Church.is_odd (intoChurch n)) = some (fromBool (n % 2 == 1), c) := by
  have h := (church_is_odd_hap n).reduce
  first | exact h | simpa using h

theorem C13_is_odd_app (n : Nat) :
    ∃ fuel c, reduce .APP 0 fuel (app Gen.Church.is_odd (intoChurch n)) = some (fromBool (n % 2 == 1), c) := by
  have h := (church_is_odd_app n).reduce
  first | exact h | simpa using h

theorem C13_fac_hap (n : Nat) :
    ∃ fuel c, reduce .HAP 0 fuel (app Gen.Church.fac (intoChurch n)) = some (intoChurch (fact n), c) := by
  have h := (church_fac_hap n).reduce
  first | exact h | simpa using h

theorem C13_fac_app (n : Nat) :
    ∃ fuel c, reduce .APP 0 fuel (app Gen.Church.fac (intoChurch n)) = some (intoChurch (fact n), c) := by
  have h := (church_fac_app n).reduce
  first | exact h | simpa using h

theorem C13_add_hap (m n : Nat) :
    ∃ fuel c, reduce .HAP 0 fuel (app2 Gen.Church.add (intoChurch m) (intoChurch n)) = some (intoChurch (m + n), c) := by
  have h := (church_add_hap m n).reduce
  first | exact h | simpa using h

theorem C13_add_app (m n : Nat) :
    ∃ fuel c, reduce .APP 0 fuel (app2 Gen.Church.add (intoChurch m) (intoChurch n)) = some (intoChurch (m + n), c) := by
  have h := (church_add_app m n).reduce
  first | exact h | simpa using h

theorem C13_sub_hap (m n : Nat) :
    ∃ fuel c, reduce .HAP 0 fuel (app2 Gen.Church.sub (intoChurch m) (intoChurch n)) = some (intoChurch (m - n), c) := by
  have h := (church_sub_hap m n).reduce
  first | exact h | simpa using h

theorem C13_sub_app (m n : Nat) :
    ∃ fuel c, reduce .APP 0 fuel (app2 Gen.Church.sub (intoChurch m) (intoChurch n)) = some (intoChurch (m - n), c) := by
  have h := (church_sub_app m n).reduce
  first | exact h | simpa using h

theorem C13_mul_hap (m n : Nat) :
    ∃ fuel c, reduce .HAP 0 fuel (app2 Gen.Church.mul (intoChurch m) (intoChurch n)) = some (intoChurch (m * n), c) := by
  have h := (church_mul_hap m n).reduce
  first | exact h | simpa using h

theorem C13_mul_app (m n : Nat) :
    ∃ fuel c, reduce .APP 0 fuel (app2 Gen.Church.mul (intoChurch m) (intoChurch n)) = some (intoChurch (m * n), c) := by
  have h := (church_mul_app m n).reduce
  first | exact h | simpa using h

theorem C13_pow_hap (m n : Nat) :
    ∃ fuel c, reduce .HAP 0 fuel (app2 Gen.Church.pow (intoChurch m) (intoChurch n)) = some (intoChurch (m ^ n), c) := by
  have h := (church_pow_hap m n).reduce
  first | exact h | simpa using h

theorem C13_pow_app (m n : Nat) :
    ∃ fuel c, reduce .APP 0 fuel (app2 Gen.Church.pow (intoChurch m) (intoChurch n)) = some (intoChurch (m ^ n), c) := by
  have h := (church_pow_app m n).reduce
  first | exact h | simpa using h

theorem C13_min_hap (m n : Nat) :
    ∃ fuel c, reduce .HAP 0 fuel (app2 Gen.Church.min (intoChurch m) (intoChurch n)) = some (intoChurch (min m n), c) := by
  have h := (church_min_hap m n).reduce
  first | exact h | simpa using h

theorem C13_min_app (m n : Nat) :
    ∃ fuel c, reduce .APP 0 fuel (app2 Gen.Church.min (intoChurch m) (intoChurch n)) = some (intoChurch (min m n), c) := by
  have h := (church_min_app m n).reduce
  first | exact h | simpa using h

theorem C13_max_hap (m n : Nat) :
    ∃ fuel c, reduce .HAP 0 fuel (app2 Gen.Church.max (intoChurch m) (intoChurch n)) = some (intoChurch (max m n), c) := by
  have h := (church_max_hap m n).reduce
  first | exact h | simpa using h

theorem C13_max_app (m n : Nat) :
    ∃ fuel c, reduce .APP 0 fuel (app2 Gen.Church.max (intoChurch m) (intoChurch n)) = some (intoChurch (max m n), c) := by
  have h := (church_max_app m n).reduce
  first | exact h | simpa using h

theorem C13_lt_hap (m n : Nat) :
    ∃ fuel c, reduce .HAP 0 fuel (app2 Gen.Church.lt (intoChurch m) (intoChurch n)) = some (fromBool (decide (m < n)), c) := by
  have h := (church_lt_hap m n).reduce
  first | exact h | simpa using h

theorem C13_lt_app (m n : Nat) :
    ∃ fuel c, reduce .APP 0 fuel (app2 Gen.Church.lt (intoChurch m) (intoChurch n)) = some (fromBool (decide (m < n)), c) := by
  have h := (church_lt_app m n).reduce
  first | exact h | simpa using h

theorem C13_leq_hap (m n : Nat) :
    ∃ fuel c, reduce .HAP 0 fuel (app2 Gen.Church.leq (intoChurch m) (intoChurch n)) = some (fromBool (decide (m ≤ n)), c) := by
  have h := (church_leq_hap m n).reduce
  first | exact h | simpa using h

theorem C13_leq_app (m n : Nat) :
    ∃ fuel c, reduce .APP 0 fuel (app2 Gen.Church.leq (intoChurch m) (intoChurch n)) = some (fromBool (decide (m ≤ n)), c) := by
  have h := (church_leq_app m n).reduce
  first | exact h | simpa using h

theorem C13_eq_hap (m n : Nat) :
    ∃ fuel c, reduce .HAP 0 fuel (app2 Gen.Church.eq (intoChurch m) (intoChurch n)) = some (fromBool (decide (m = n)), c) := by
  have h := (church_eq_hap m n).reduce
  first | exact h | simpa using h

theorem C13_eq_app (m n : Nat) :
    ∃ fuel c, reduce .APP 0 fuel (app2 Gen.Church.eq (intoChurch m) (intoChurch n)) = some (fromBool (decide (m = n)), c) := by
  have h := (church_eq_app m n).reduce
  first | exact h | simpa using h

theorem C13_neq_hap (m n : Nat) :
    ∃ fuel c, reduce .HAP 0 fuel (app2 Gen.Church.neq (intoChurch m) (intoChurch n)) = some (fromBool (decide (m ≠ n)), c) := by
  have h := (church_neq_hap m n).reduce
  first | exact h | simpa using h

theorem C13_neq_app (m n : Nat) :
    ∃ fuel c, reduce .APP 0 fuel (app2 Gen.Church.neq (intoChurch m) (intoChurch n)) = some (fromBool (decide (m ≠ n)), c) := by
  have h := (church_neq_app m n).reduce
  first | exact h | simpa using h

theorem C13_geq_hap (m n : Nat) :
    ∃ fuel c, reduce .HAP 0 fuel (app2 Gen.Church.geq (intoChurch m) (intoChurch n)) = some (fromBool (decide (m ≥ n)), c) := by
  have h := (church_geq_hap m n).reduce
  first | exact h | simpa using h

theorem C13_geq_app (m n : Nat) :
    ∃ fuel c, reduce .APP 0 fuel (app2 Gen.Church.geq (intoChurch m) (intoChurch n)) = some (fromBool (decide (m ≥ n)), c) := by
  have h := (church_geq_app m n).reduce
  first | exact h | simpa using h

theorem C13_gt_hap (m n : Nat) :
    ∃ fuel c, reduce .HAP 0 fuel (app2 Gen.Church.gt (intoChurch m) (intoChurch n)) = some (fromBool (decide (m > n)), c) := by
  have h := (church_gt_hap m n).reduce
  first | exact h | simpa using h

theorem C13_gt_app (m n : Nat) :
    ∃ fuel c, reduce .APP 0 fuel (app2 Gen.Church.gt (intoChurch m) (intoChurch n)) = some (fromBool (decide (m > n)), c) := by
  have h := (church_gt_app m n).reduce
  first | exact h | simpa using h

theorem C13_shl_hap (m n : Nat) :
    ∃ fuel c, reduce .HAP 0 fuel (app2 Gen.Church.shl (intoChurch m) (intoChurch n)) = some (intoChurch (m * 2 ^ n), c) := by
  have h := (church_shl_hap m n).reduce
  first | exact h | simpa using h

theorem C13_shl_app (m n : Nat) :
    ∃ fuel c, reduce .APP 0 fuel (app2 Gen.Church.shl (intoChurch m) (intoChurch n)) = some (intoChurch (m * 2 ^ n), c) := by
  have h := (church_shl_app m n).reduce
  first | exact h | simpa using h

theorem C13_shr_hap (m n : Nat) :
    ∃ fuel c, reduce .HAP 0 fuel (app2 Gen.Church.shr (intoChurch m) (intoChurch n)) = some (intoChurch (m / 2 ^ n), c) := by
  have h := (church_shr_hap m n).reduce
  first | exact h | simpa using h

theorem C13_quot_hap (m n : Nat) (hn : n ≠ 0) :
    ∃ fuel c, reduce .HAP 0 fuel (app2 Gen.Church.quot (intoChurch m) (intoChurch n)) = some (intoChurch (m / n), c) := by
  obtain ⟨k, rfl⟩ : ∃ k, n = k + 1 := ⟨n - 1, by omega⟩
  have h := (church_quot_hap m k).reduce
  first | exact h | simpa using h

theorem C13_rem_hap (m n : Nat) (hn : n ≠ 0) :
    ∃ fuel c, reduce .HAP 0 fuel (app2 Gen.Church.rem (intoChurch m) (intoChurch n)) = some (intoChurch (m % n), c) := by
  obtain ⟨k, rfl⟩ : ∃ k, n = k + 1 := ⟨n - 1, by omega⟩
  have h := (church_rem_hap m k).reduce
  first | exact h | simpa using h

theorem C13_div_hap (m n : Nat) (hn : n ≠ 0) :
    ∃ fuel c, reduce .HAP 0 fuel (app2 Gen.Church.div (intoChurch m) (intoChurch n)) = some (tuple2 (intoChurch (m / n)) (intoChurch (m % n)), c) := by
  obtain ⟨k, rfl⟩ : ∃ k, n = k + 1 := ⟨n - 1, by omega⟩
  have h := (church_div_hap m k).reduce
  first | exact h | simpa using h

/-- the four Z-based operations do not terminate under APP, for ANY argument terms and any fuel: the operator
`Z F` is normalised under its binders and unfolds forever (which is why the property and the documentation
exclude them under APP) -/
theorem C13_z_based_diverge_under_app (a b : Term) (fuel : Nat) :
    reduce .APP 0 fuel (app2 Gen.Church.quot a b) = none ∧ reduce .APP 0 fuel (app2 Gen.Church.rem a b) = none ∧
    reduce .APP 0 fuel (app2 Gen.Church.div a b) = none ∧ reduce .APP 0 fuel (app2 Gen.Church.shr a b) = none :=
  ⟨church_quot_app_diverges_all a b fuel, church_rem_app_diverges_all a b fuel,
   church_div_app_diverges_all a b fuel, church_shr_app_diverges_all a b fuel⟩

/-- non-vacuity: HAP on 7 / 2 -/
example : ∃ fuel c, reduce .HAP 0 fuel (app2 Gen.Church.div (intoChurch 7) (intoChurch 2))
    = some (tuple2 (intoChurch 3) (intoChurch 1), c) := C13_div_hap 7 2 (by decide)

/-! ### cross-check grid (BOUNDED; carries no claim any more): kernel evaluation of the model reducer.
`Grid.runsTo o fuel t n = true` implies `∃ c, reduce o 0 fuel t = some (n, c)` (`Grid.runsTo_spec`). -/

def FUEL : Nat := 100000
def eager (zBased : Bool) : List Order := if zBased then [.HAP] else [.HAP, .APP]

set_option maxRecDepth 100000 in
theorem C13_grid_succ : (List.range 4).all (fun n => (eager false).all (fun o =>
    Grid.runsTo o FUEL (app Gen.Church.succ (intoChurch n)) (intoChurch (n + 1)))) = true := by decide +kernel

set_option maxRecDepth 100000 in
theorem C13_grid_pred : (List.range 4).all (fun n => (eager false).all (fun o =>
    Grid.runsTo o FUEL (app Gen.Church.pred (intoChurch n)) (intoChurch (n - 1)))) = true := by decide +kernel

set_option maxRecDepth 100000 in
theorem C13_grid_is_zero : (List.range 4).all (fun n => (eager false).all (fun o =>
    Grid.runsTo o FUEL (app Gen.Church.is_zero (intoChurch n)) (fromBool (n == 0)))) = true := by decide +kernel

set_option maxRecDepth 100000 in
theorem C13_grid_is_even : (List.range 4).all (fun n => (eager false).all (fun o =>
    Grid.runsTo o FUEL (app Gen.Church.is_even (intoChurch n)) (fromBool (n % 2 == 0)))) = true := by decide +kernel

set_option maxRecDepth 100000 in
theorem C13_grid_is_odd : (List.range 4).all (fun n => (eager false).all (fun o =>
    Grid.runsTo o FUEL (app Gen.Church.is_odd (intoChurch n)) (fromBool (n % 2 == 1)))) = true := by decide +kernel

set_option maxRecDepth 100000 in
theorem C13_grid_fac : (List.range 4).all (fun n => (eager false).all (fun o =>
    Grid.runsTo o FUEL (app Gen.Church.fac (intoChurch n)) (intoChurch (fact n)))) = true := by decide +kernel

set_option maxRecDepth 100000 in
theorem C13_grid_add : (Grid.range2 2 2).all (fun (m, n) => (eager false).all (fun o =>
    Grid.runsTo o FUEL (app2 Gen.Church.add (intoChurch m) (intoChurch n)) (intoChurch (m + n)))) = true := by decide +kernel

set_option maxRecDepth 100000 in
theorem C13_grid_sub : (Grid.range2 2 2).all (fun (m, n) => (eager false).all (fun o =>
    Grid.runsTo o FUEL (app2 Gen.Church.sub (intoChurch m) (intoChurch n)) (intoChurch (m - n)))) = true := by decide +kernel

set_option maxRecDepth 100000 in
theorem C13_grid_mul : (Grid.range2 2 2).all (fun (m, n) => (eager false).all (fun o =>
    Grid.runsTo o FUEL (app2 Gen.Church.mul (intoChurch m) (intoChurch n)) (intoChurch (m * n)))) = true := by decide +kernel

set_option maxRecDepth 100000 in
theorem C13_grid_pow : (Grid.range2 2 2).all (fun (m, n) => (eager false).all (fun o =>
    Grid.runsTo o FUEL (app2 Gen.Church.pow (intoChurch m) (intoChurch n)) (intoChurch (m ^ n)))) = true := by decide +kernel

set_option maxRecDepth 100000 in
theorem C13_grid_min : (Grid.range2 2 2).all (fun (m, n) => (eager false).all (fun o =>
    Grid.runsTo o FUEL (app2 Gen.Church.min (intoChurch m) (intoChurch n)) (intoChurch (min m n)))) = true := by decide +kernel

set_option maxRecDepth 100000 in
theorem C13_grid_max : (Grid.range2 2 2).all (fun (m, n) => (eager false).all (fun o =>
    Grid.runsTo o FUEL (app2 Gen.Church.max (intoChurch m) (intoChurch n)) (intoChurch (max m n)))) = true := by decide +kernel

set_option maxRecDepth 100000 in
theorem C13_grid_lt : (Grid.range2 2 2).all (fun (m, n) => (eager false).all (fun o =>
    Grid.runsTo o FUEL (app2 Gen.Church.lt (intoChurch m) (intoChurch n)) (fromBool (decide (m < n))))) = true := by decide +kernel

set_option maxRecDepth 100000 in
theorem C13_grid_leq : (Grid.range2 2 2).all (fun (m, n) => (eager false).all (fun o =>
    Grid.runsTo o FUEL (app2 Gen.Church.leq (intoChurch m) (intoChurch n)) (fromBool (decide (m ≤ n))))) = true := by decide +kernel

set_option maxRecDepth 100000 in
theorem C13_grid_eq : (Grid.range2 2 2).all (fun (m, n) => (eager false).all (fun o =>
    Grid.runsTo o FUEL (app2 Gen.Church.eq (intoChurch m) (intoChurch n)) (fromBool (decide (m = n))))) = true := by decide +kernel

set_option maxRecDepth 100000 in
theorem C13_grid_neq : (Grid.range2 2 2).all (fun (m, n) => (eager false).all (fun o =>
    Grid.runsTo o FUEL (app2 Gen.Church.neq (intoChurch m) (intoChurch n)) (fromBool (decide (m ≠ n))))) = true := by decide +kernel

set_option maxRecDepth 100000 in
theorem C13_grid_geq : (Grid.range2 2 2).all (fun (m, n) => (eager false).all (fun o =>
    Grid.runsTo o FUEL (app2 Gen.Church.geq (intoChurch m) (intoChurch n)) (fromBool (decide (m ≥ n))))) = true := by decide +kernel

set_option maxRecDepth 100000 in
theorem C13_grid_gt : (Grid.range2 2 2).all (fun (m, n) => (eager false).all (fun o =>
    Grid.runsTo o FUEL (app2 Gen.Church.gt (intoChurch m) (intoChurch n)) (fromBool (decide (m > n))))) = true := by decide +kernel

set_option maxRecDepth 100000 in
theorem C13_grid_shl : (Grid.range2 2 2).all (fun (m, n) => (eager false).all (fun o =>
    Grid.runsTo o FUEL (app2 Gen.Church.shl (intoChurch m) (intoChurch n)) (intoChurch (m * 2 ^ n)))) = true := by decide +kernel

set_option maxRecDepth 100000 in
theorem C13_grid_shr : (Grid.range2 2 2).all (fun (m, n) => (eager true).all (fun o =>
    Grid.runsTo o FUEL (app2 Gen.Church.shr (intoChurch m) (intoChurch n)) (intoChurch (m / 2 ^ n)))) = true := by decide +kernel

set_option maxRecDepth 100000 in
theorem C13_grid_quot : (Grid.range2 2 2).all (fun (m, n) => n == 0 || (eager true).all (fun o =>
    Grid.runsTo o FUEL (app2 Gen.Church.quot (intoChurch m) (intoChurch n)) (intoChurch (m / n)))) = true := by decide +kernel

set_option maxRecDepth 100000 in
theorem C13_grid_rem : (Grid.range2 2 2).all (fun (m, n) => n == 0 || (eager true).all (fun o =>
    Grid.runsTo o FUEL (app2 Gen.Church.rem (intoChurch m) (intoChurch n)) (intoChurch (m % n)))) = true := by decide +kernel

set_option maxRecDepth 100000 in
theorem C13_grid_div : (Grid.range2 2 2).all (fun (m, n) => n == 0 || (eager true).all (fun o =>
    Grid.runsTo o FUEL (app2 Gen.Church.div (intoChurch m) (intoChurch n)) (tuple2 (intoChurch (m / n)) (intoChurch (m % n))))) = true := by decide +kernel

end LC
