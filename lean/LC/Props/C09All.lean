/-
C09 (companion module) — the Classic notation on ALL strings: the converse lexer theorem

The Classic theorems of `LC/Props/C09.lean` are stated for input strings that are RENDERINGS of named
tokens (`Cl.Renders`: the documented lexical elements).  The property quantifies over all strings.
This file closes the gap (DESIGN §16c, row "(t2) Classic 'exactly when' is relative to renderings"):
for every character classification satisfying `Cl.ClsOk` in which the dot is not alphanumeric
(`hdot`; both are checked for Rust's classification on every code point by the harness) and for
EVERY string `s`, exactly one of the following holds (`C09_cla_lex_total_classification`,
`C09_cla_lex_classes_disjoint`):

1. the lexer fails: `s = pre ++ c :: post` where `c` is OFFENDING after `pre` (`Cl.Offending`: at a
   token boundary / as first / as later character of a binder name), and the result is
   `InvalidCharacter pre.length c`; there is only one such position (`C09_cla_offending_unique`);
2. `s` is a rendering (`Cl.Renders`) of the tokens the lexer returns: the domain of `LC/Props/C09.lean`;
3. RESIDUAL CLASS A (known finding 2, DESIGN §8b): `s` is a rendering of COMPLETE tokens except that
   some binder name contains the glyph `λ` (`Cl.RendersB` and not `Cl.GlyphFree`): `λxλy.x`, `\λ.x`.
   `parse` treats the tokens like any others: it succeeds iff they are a printing of a named term
   `nt`, with result `Cl.toDeBruijn nt`; the binder in question binds nothing
   (`C09_cla_glyph_binder_binds_nothing`);
4. RESIDUAL CLASS B: the input ends inside a binder (`Cl.CutBinder`: `… λ`, `… λxy`, no dot).  The
   lexer pushes the unterminated binder; `parse` is ALWAYS an error: `InvalidExpression` if the
   parentheses are unbalanced, `EmptyExpression` otherwise (`C09_cla_cut_binder`).

Hence theorems about all strings: `C09_cla_all_strings` (`parse … = .ok t ↔ …`),
`C09_cla_err_all_strings` (each error characterised exactly), `C09_cla_invalid_char_iff`,
`C09_cla_lex_ok_iff`, `C09_cla_lex_error_iff`; token level `C09_token_level_error` (which error);
De Bruijn notation `C09_dbr_err_all_strings` (`C09_dbr_ok_iff` was already about all strings).

Specification: `LC/Spec/ClassicAllSpec.lean`; proofs: `LC/Proofs/Syntax/ClassicAll.lean`.
-/
import LC.Props.C09
import LC.Proofs.Syntax.ClassicAll

namespace LC
open Term Parser Spec

/-! ## helper lemmas -/

namespace C09All

/-- the parenthesis balance of the resolved tokens is that of the named tokens (also when the
conversion stops at an unmatched `)`: both are then unbalanced) -/
theorem balAux_resolve {cts : List CToken} {ts : List Token} (h : Cl.resolveAll cts = some ts) :
    C09D.balAux 0 ts = C09D.balAux 0 (cts.map Cl.cshape) := by
  obtain ⟨toks, h1, h2⟩ := convert_structure cts
  rw [convert_eq_resolve, h] at h1
  cases h1
  rw [← C09.balAux_shape, h2]
  cases hc : Cl.closesOk cts 0 with
  | true => rw [C09C.scopedPrefix_of_closesOk cts 0 hc, List.take_length]
  | false =>
    rw [C09.balAux_truncated cts 0 hc]
    cases hb : C09D.balAux 0 (cts.map Cl.cshape) with
    | false => rfl
    | true => rw [C09.closesOk_of_balAux cts 0 hb] at hc; cases hc

/-- the error of `parse` after a successful lexer run -/
theorem parse_err_eq {cls : CharCls} {s : List Nat} {cts : List CToken} {e : ParseError}
    (hl : tokenizeCla cls s = .ok cts) (h : parse cls s .Classic = .err e) :
    e = if C09D.balAux 0 (cts.map Cl.cshape) = true then .EmptyExpression
        else .InvalidExpression := by
  obtain ⟨ts, h1, h2⟩ := C09_cla_tokens cls s cts hl
  rw [h2] at h
  cases hp : parseTokens ts with
  | ok t => rw [hp] at h; cases h
  | error e' =>
    rw [hp] at h
    cases h
    rw [← balAux_resolve h1]
    exact C09A.parseTokens_error_eq hp

/-- a printing of a named term, lexed from ANY string, parses to the translation of the term -/
theorem parse_of_lex_prints {cls : CharCls} {s : List Nat} {cts : List CToken} {nt : Cl.NTerm}
    {arg fin : Bool} (hl : tokenizeCla cls s = .ok cts) (hp : Cl.PrintsN nt arg fin cts) :
    parse cls s .Classic = .ok (Cl.toDeBruijn nt) := by
  obtain ⟨dts, hd, hpd⟩ := resolve_prints_toDB hp
  rw [parse_cla_spec, hl]
  simp only [convert_eq_resolve, hd, C09C.tokenStage_prints hpd]

/-- tokens that end with an unterminated binder are not well-formed -/
theorem cut_not_DExpr {cls : CharCls} {cts : List CToken} {s : List Nat}
    (h : Cl.CutBinder cls cts s) (u : Term) : ¬ Gr.DExpr (cts.map Cl.cshape) u := by
  obtain ⟨cts₀, pre, g, nm, _, rfl, _⟩ := h
  rw [List.map_append]
  exact (not_DExpr_empty (cts₀.map Cl.cshape) [] u).2.2

theorem glyphFree_iff (cts : List CToken) :
    Cl.GlyphFree cts ↔ ¬ ∃ n, CToken.CLambda n ∈ cts ∧ cLambda ∈ n :=
  ⟨fun h ⟨n, hn, hl⟩ => h n hn hl, fun h n hn hl => h ⟨n, hn, hl⟩⟩

end C09All

/-! ## facts used in the examples

Code points: `λ` 955, `\` 92, `(` 40, `)` 41, `.` 46, space 32, `#` 35, `1` 49, `2` 50, `x` 120, `y` 121.
The classification is the ASCII (+ `λ`) one of `LC/Proofs/Syntax/Classic.lean`. -/

namespace C09All.Examples
open C09C.Examples (asciiCls asciiCls_ok wf_x wf_y)
open Parser.CToken Parser.Token Cl.NTerm

theorem asciiCls_dot : asciiCls.isAlnum cDot = false := by decide

theorem bn_x : Cl.BName asciiCls [120] := ⟨120, [], rfl, by decide, by simp⟩
theorem bn_xly : Cl.BName asciiCls [120, 955, 121] := ⟨120, [955, 121], rfl, by decide, by decide⟩
theorem bn_l : Cl.BName asciiCls [955] := ⟨955, [], rfl, by decide, by simp⟩

/-- KNOWN FINDING 2, `λxλy.x`: ONE binder named `xλy`, body the free variable `x` … -/
theorem rendersB_kf2 : Cl.RendersB asciiCls [CLambda [120, 955, 121], CName [120]]
    [955, 120, 955, 121, 46, 120] :=
  .lam (g := 955) (n := [120, 955, 121]) (by decide) bn_xly (.name (n := [120]) wf_x trivial .nil)

/-- `x #`: after the rendering `x␣` of the name `x`, the character `#` cannot start a token -/
theorem off_x_hash : Cl.Offending asciiCls [120, 32] 35 :=
  .inl ⟨[CName [120]], .name (n := [120]) wf_x (.inl (by decide)) (.ws (by decide) .nil),
    .inr (by decide), by decide, by decide, by decide, by decide, by decide⟩

/-- THE HYPOTHESIS `hdot` IS NEEDED: in a classification that satisfies `Cl.ClsOk` but calls the dot
alphanumeric, `x.y` lexes as ONE variable name, which is not a rendering of any tokens (a
well-formed name contains no dot) and belongs to neither residual class -/
def dotCls : CharCls where
  isWs := asciiCls.isWs
  isAlpha := asciiCls.isAlpha
  isAlnum c := asciiCls.isAlnum c || c == 46
  digit16 := asciiCls.digit16

theorem dotCls_ok : Cl.ClsOk dotCls := by
  obtain ⟨h1, h2, h3⟩ := asciiCls_ok
  refine ⟨h1, fun c h => ?_, fun c h => ?_⟩
  · show (asciiCls.isAlnum c || c == 46) = true
    rw [h2 c h]; rfl
  · have h' : asciiCls.isAlnum c = true ∨ c = 46 := by
      simpa [dotCls] using h
    rcases h' with h' | rfl
    · exact h3 c h'
    · exact ⟨by decide, by decide, by decide, by decide⟩

/-- under `dotCls` the string `x.y` is neither a rendering of complete tokens nor cut off inside a
binder — although the lexer accepts it (as ONE variable name) -/
theorem dot_not_lexes (cts : List CToken) :
    ¬ (Cl.RendersB dotCls cts [120, 46, 121] ∨ Cl.CutBinder dotCls cts [120, 46, 121]) := by
  intro h
  have h1 := C09A.lex_lexes dotCls_ok h
  rw [show tokenizeCla dotCls [120, 46, 121] = .ok [CName [120, 46, 121]] from rfl] at h1
  cases h1
  have hwf : ∀ {cts s}, Cl.RendersB dotCls cts s → ∀ n, cts = [CName n] → Cl.WfName dotCls n := by
    intro cts s h
    induction h with
    | nil => intro n hn; cases hn
    | ws _ _ ih => exact ih
    | lparen _ _ => intro n hn; cases hn
    | rparen _ _ => intro n hn; cases hn
    | lam _ _ _ _ => intro n hn; cases hn
    | name hn _ _ _ => intro n h; cases h; exact hn
  rcases h with h | ⟨cts₀, _, _, nm, _, hc, _⟩
  · exact (hwf h _ rfl).2.1 46 (by simp) rfl
  · cases cts₀ with
    | nil => cases hc
    | cons a l => cases l <;> simp at hc

end C09All.Examples

open C09C.Examples (asciiCls asciiCls_ok wf_x wf_y)
open C09All.Examples
open Parser.CToken Parser.Token Cl.NTerm

/-! ## 1. the Classic lexer on all strings -/

/-- the renderings of `LC/Props/C09.lean` are the renderings of complete tokens (`Cl.RendersB`: a
binder name is whatever the lexer reads as one, a letter followed by alphanumeric characters) in
which no binder name contains the glyph `λ` -/
theorem C09_cla_renders_iff (cls : CharCls) (hcls : Cl.ClsOk cls)
    (hdot : cls.isAlnum cDot = false) (cts : List CToken) (s : List Nat) :
    Cl.Renders cls cts s ↔ Cl.RendersB cls cts s ∧ Cl.GlyphFree cts :=
  C09A.renders_iff hcls hdot cts s

/-- known finding 2: `λxλy.x` is a rendering of complete tokens (`rendersB_kf2`: ONE binder, named
`xλy`) but NOT a rendering in the sense of `Cl.Renders`, of any tokens -/
example (cts : List CToken) : ¬ Cl.Renders asciiCls cts [955, 120, 955, 121, 46, 120] := by
  intro h
  have h1 := tokenizeCla_render asciiCls asciiCls_ok cts _ h
  have h2 := C09A.lex_rendersB asciiCls_ok rendersB_kf2
  rw [h1] at h2
  cases h2
  exact C09A.glyphFree_of_renders h [120, 955, 121] (by simp) (by decide)

/-- what a binder name is for the lexer, next to `Cl.WfName`: a well-formed name is a binder name
that does not contain the glyph `λ` -/
theorem C09_cla_wfName_iff_bName (cls : CharCls) (hcls : Cl.ClsOk cls)
    (hdot : cls.isAlnum cDot = false) (n : List Nat) :
    Cl.WfName cls n ↔ Cl.BName cls n ∧ cLambda ∉ n :=
  C09A.wfName_iff_bName hcls hdot n

/-- `xλy` is a binder name for the lexer, but not a well-formed name -/
example : Cl.BName asciiCls [120, 955, 121] ∧ ¬ Cl.WfName asciiCls [120, 955, 121] :=
  ⟨bn_xly, fun h => ((C09_cla_wfName_iff_bName _ asciiCls_ok asciiCls_dot _).1 h).2 (by decide)⟩

/-- C09, CONVERSE LEXER THEOREM.  For EVERY string `s`:
* the lexer fails with `InvalidCharacter i c`, where `i` is the length of a prefix `pre` after which
  the character `c` is offending (`Cl.Offending`: `pre` renders complete tokens and `c` can neither
  start a token nor continue the variable name `pre` may end in; or `pre` is such a rendering
  followed by a glyph and `c` is not a letter; or by a glyph and a non-empty beginning of a binder
  name, and `c` is neither the dot nor alphanumeric); or
* the lexer returns tokens of which `s` is a rendering in the sense of `Cl.Renders`; or
* (residual class A, known finding 2) it returns complete tokens of which `s` is a rendering except
  that some binder name contains the glyph `λ`; or
* (residual class B) the input ends inside a binder, which the lexer pushes unterminated. -/
theorem C09_cla_lex_total_classification (cls : CharCls) (hcls : Cl.ClsOk cls)
    (hdot : cls.isAlnum cDot = false) (s : List Nat) :
    (∃ pre c post, s = pre ++ c :: post ∧ Cl.Offending cls pre c ∧
      tokenizeCla cls s = .error (.InvalidCharacter pre.length c)) ∨
    (∃ toks, tokenizeCla cls s = .ok toks ∧ Cl.Renders cls toks s) ∨
    (∃ toks, tokenizeCla cls s = .ok toks ∧ Cl.RendersB cls toks s ∧
      ∃ n, CToken.CLambda n ∈ toks ∧ cLambda ∈ n) ∨
    (∃ toks, tokenizeCla cls s = .ok toks ∧ Cl.CutBinder cls toks s) := by
  rcases C09A.lex_total hcls hdot s with h | ⟨cts, hr | hc, hl⟩
  · exact .inl h
  · by_cases hg : ∃ n, CToken.CLambda n ∈ cts ∧ cLambda ∈ n
    · exact .inr (.inr (.inl ⟨cts, hl, hr, hg⟩))
    · exact .inr (.inl ⟨cts, hl,
        C09A.renders_of_rendersB hcls hdot hr ((C09All.glyphFree_iff cts).2 hg)⟩)
  · exact .inr (.inr (.inr ⟨cts, hl, hc⟩))

/-- THE HYPOTHESIS `hdot` IS NEEDED (for `C09_cla_lex_total_classification` and everything derived
from it): with `dotCls` — `Cl.ClsOk` holds, the dot is alphanumeric — the string `x.y` lexes as ONE
variable name; it is not a rendering of any tokens and belongs to neither residual class -/
example : tokenizeCla dotCls [120, 46, 121] = .ok [CName [120, 46, 121]] := rfl
example (cts : List CToken) :
    ¬ (Cl.RendersB dotCls cts [120, 46, 121] ∨ Cl.CutBinder dotCls cts [120, 46, 121]) :=
  dot_not_lexes cts
example (cts : List CToken) : ¬ Cl.Renders dotCls cts [120, 46, 121] :=
  fun h => dot_not_lexes cts (.inl (C09A.rendersB_of_renders h))

example : ∃ toks, tokenizeCla asciiCls [955, 120, 955, 121, 46, 120] = .ok toks ∧
    Cl.RendersB asciiCls toks [955, 120, 955, 121, 46, 120] ∧
    ∃ n, CToken.CLambda n ∈ toks ∧ cLambda ∈ n :=
  ⟨[.CLambda [120, 955, 121], .CName [120]], rfl,
    .lam (g := 955) (n := [120, 955, 121]) (by decide) ⟨120, [955, 121], rfl, by decide, by decide⟩
      (.name (n := [120]) wf_x trivial .nil),
    [120, 955, 121], by simp, by decide⟩

/-- the four classes are mutually exclusive: the lexer is a function (error / tokens), a rendering
has no `λ` in a binder name, and a string is not both a rendering of complete tokens and cut off
inside a binder -/
theorem C09_cla_lex_classes_disjoint (cls : CharCls) (hcls : Cl.ClsOk cls) (s : List Nat)
    (toks toks' : List CToken) :
    (Cl.Renders cls toks s → ¬ ∃ n, CToken.CLambda n ∈ toks ∧ cLambda ∈ n) ∧
    (Cl.RendersB cls toks s → ¬ Cl.CutBinder cls toks' s) :=
  ⟨fun h => (C09All.glyphFree_iff toks).1 (C09A.glyphFree_of_renders h),
   fun h h' => C09A.rendersB_not_cut hcls h h'⟩

example : ¬ Cl.CutBinder asciiCls [.CLambda [120]] [955, 120, 46] :=
  (C09_cla_lex_classes_disjoint _ asciiCls_ok _ [.CLambda [120]] _).2
    (.lam (g := 955) (n := [120]) (by decide) ⟨120, [], rfl, by decide, by simp⟩ .nil)

/-- the lexer succeeds exactly on the renderings of complete tokens (binder names as the lexer reads
them) and on the inputs that end inside a binder, and returns those tokens -/
theorem C09_cla_lex_ok_iff (cls : CharCls) (hcls : Cl.ClsOk cls) (hdot : cls.isAlnum cDot = false)
    (s : List Nat) (toks : List CToken) :
    tokenizeCla cls s = .ok toks ↔ Cl.RendersB cls toks s ∨ Cl.CutBinder cls toks s :=
  C09A.lex_ok_iff hcls hdot s toks

/-- `x λy`: the input ends inside the binder `λy` -/
example : tokenizeCla asciiCls [120, 32, 955, 121] = .ok [.CName [120], .CLambda [121]] :=
  (C09_cla_lex_ok_iff _ asciiCls_ok (by decide) _ _).2
    (.inr ⟨[.CName [120]], [120, 32], 955, [121], rfl, rfl,
      .name (n := [120]) wf_x (.inl (by decide)) (.ws (by decide) .nil), by decide,
      .inr ⟨121, [], rfl, by decide, by simp⟩⟩)

/-- the lexer fails exactly when the string has an offending position, and reports that character
with its character index -/
theorem C09_cla_lex_error_iff (cls : CharCls) (hcls : Cl.ClsOk cls)
    (hdot : cls.isAlnum cDot = false) (s : List Nat) (e : ParseError) :
    tokenizeCla cls s = .error e ↔
      ∃ pre c post, s = pre ++ c :: post ∧ Cl.Offending cls pre c ∧
        e = .InvalidCharacter pre.length c :=
  C09A.lex_error_iff hcls hdot s e

/-- `λx#`: `#` (35) is offending as a later character of a binder name -/
example : tokenizeCla asciiCls ([955, 120] ++ 35 :: []) = .error (.InvalidCharacter 2 35) :=
  (C09_cla_lex_error_iff _ asciiCls_ok (by decide) _ _).2
    ⟨[955, 120], 35, [], rfl,
      .inr (.inr ⟨[], [], 955, [120], rfl, .nil, by decide, ⟨120, [], rfl, by decide, by simp⟩,
        by decide, by decide⟩), rfl⟩

/-- an offending position is reported whatever follows it … -/
theorem C09_cla_offending_reported (cls : CharCls) (hcls : Cl.ClsOk cls) (pre : List Nat) (c : Nat)
    (post : List Nat) (h : Cl.Offending cls pre c) :
    tokenizeCla cls (pre ++ c :: post) = .error (.InvalidCharacter pre.length c) ∧
    parse cls (pre ++ c :: post) .Classic = .err (.InvalidCharacter pre.length c) :=
  ⟨C09A.lex_offending hcls h post, C09_cla_lex_error cls _ _ (C09A.lex_offending hcls h post)⟩

/-- `x #…`: `#` is offending at a token boundary (after whitespace) -/
example : parse asciiCls ([120, 32] ++ 35 :: [121]) .Classic
    = .err (.InvalidCharacter 2 35) :=
  (C09_cla_offending_reported _ asciiCls_ok [120, 32] 35 [121]
    (.inl ⟨[.CName [120]],
      .name (n := [120]) wf_x (.inl (by decide)) (.ws (by decide) .nil),
      .inr (by decide), by decide, by decide, by decide, by decide, by decide⟩)).2

/-- … and it is THE FIRST one: a string has at most one offending position (nothing after it is
looked at) -/
theorem C09_cla_offending_unique (cls : CharCls) (hcls : Cl.ClsOk cls)
    (pre pre' post post' : List Nat) (c c' : Nat)
    (h : Cl.Offending cls pre c) (h' : Cl.Offending cls pre' c')
    (hs : pre ++ c :: post = pre' ++ c' :: post') : pre = pre' ∧ c = c' ∧ post = post' := by
  have h1 := C09A.lex_offending hcls h post
  have h2 := C09A.lex_offending hcls h' post'
  rw [hs, h2] at h1
  simp only [Except.error.injEq, ParseError.InvalidCharacter.injEq] at h1
  obtain ⟨hp, hq⟩ := List.append_inj hs h1.1.symm
  obtain ⟨hc, hq⟩ := List.cons.inj hq
  exact ⟨hp, hc, hq⟩

example : ([120, 32] : List Nat) = [120, 32] ∧ (35 : Nat) = 35 ∧ ([121] : List Nat) = [121] :=
  C09_cla_offending_unique asciiCls asciiCls_ok [120, 32] [120, 32] [121] [121] 35 35
    off_x_hash off_x_hash rfl

/-- in the tokens of any string, no variable is named like a binder whose name contains the glyph
`λ` (a variable name never contains it): such a binder binds nothing -/
theorem C09_cla_glyph_binder_binds_nothing (cls : CharCls) (toks : List CToken) (s : List Nat)
    (h : Cl.RendersB cls toks s) (m n : List Nat) (hm : CToken.CLambda m ∈ toks)
    (hl : cLambda ∈ m) (hn : CToken.CName n ∈ toks) : n ≠ m := by
  rintro rfl
  exact C09A.rendersB_name_glyphfree h n hn hl

/-- in `λxλy.x` the variable `x` is not bound by the binder `xλy` -/
example : ([120] : List Nat) ≠ [120, 955, 121] :=
  C09_cla_glyph_binder_binds_nothing asciiCls _ _ rendersB_kf2 _ _ (by simp) (by decide) (by simp)

/-! ## 2. `parse` in Classic notation on all strings -/

/-- C09, Classic notation, ALL STRINGS, success.  `parse` succeeds with `t` exactly when
* `s` is a rendering (`Cl.Renders`: the documented lexical elements) of named tokens that are an
  admissible printing of a named term `nt`, and `t` is the standard De Bruijn translation of `nt`
  (the domain and the statement of `C09_cla_complete`); or
* (residual class A, known finding 2) the same with a binder name that contains the glyph `λ`: `s` is
  a rendering of complete tokens `cts` (`Cl.RendersB`), some binder name of `cts` contains `λ`, `cts` is
  an admissible printing of a named term `nt` (in which that binder binds nothing), and `t` is the
  translation of `nt`.
No other string parses: not those with an offending character, and not those that end inside a
binder (residual class B). -/
theorem C09_cla_all_strings (cls : CharCls) (hcls : Cl.ClsOk cls) (hdot : cls.isAlnum cDot = false)
    (s : List Nat) (t : Term) :
    parse cls s .Classic = .ok t ↔
      (∃ cts nt, Cl.Renders cls cts s ∧ Cl.PrintsN nt false true cts ∧ t = Cl.toDeBruijn nt) ∨
      (∃ cts nt, Cl.RendersB cls cts s ∧ (∃ n, CToken.CLambda n ∈ cts ∧ cLambda ∈ n) ∧
        Cl.PrintsN nt false true cts ∧ t = Cl.toDeBruijn nt) := by
  constructor
  · intro h
    rcases C09_cla_lex_total_classification cls hcls hdot s with
      ⟨_, _, _, _, _, hl⟩ | ⟨cts, hl, hr⟩ | ⟨cts, hl, hr, hg⟩ | ⟨cts, hl, hc⟩
    · rw [C09_cla_lex_error cls s _ hl] at h; cases h
    · obtain ⟨nt, hp⟩ := (C09_cla_wellformed_iff_printing cts).1
        ((C09_cla_wellformed_iff cls s cts hl).1 ⟨t, h⟩)
      rw [C09All.parse_of_lex_prints hl hp] at h
      cases h
      exact .inl ⟨cts, nt, hr, hp, rfl⟩
    · obtain ⟨nt, hp⟩ := (C09_cla_wellformed_iff_printing cts).1
        ((C09_cla_wellformed_iff cls s cts hl).1 ⟨t, h⟩)
      rw [C09All.parse_of_lex_prints hl hp] at h
      cases h
      exact .inr ⟨cts, nt, hr, hg, hp, rfl⟩
    · obtain ⟨u, hu⟩ := (C09_cla_wellformed_iff cls s cts hl).1 ⟨t, h⟩
      exact absurd hu (C09All.cut_not_DExpr hc u)
  · rintro (⟨cts, nt, hr, hp, rfl⟩ | ⟨cts, nt, hr, _, hp, rfl⟩)
    · exact C09All.parse_of_lex_prints (tokenizeCla_render cls hcls cts s hr) hp
    · exact C09All.parse_of_lex_prints (C09A.lex_rendersB hcls hr) hp

/-- known finding 2, `λxλy.x` (residual class A): it parses to `λ2`, the translation of the named
term `λ(xλy). x`, in which the binder binds nothing -/
example : parse asciiCls [955, 120, 955, 121, 46, 120] .Classic = .ok (abs (var 2)) :=
  (C09_cla_all_strings asciiCls asciiCls_ok asciiCls_dot _ _).2
    (.inr ⟨_, nlam [120, 955, 121] (nvar [120]), rendersB_kf2, ⟨[120, 955, 121], by simp, by decide⟩,
      .lam .var, by decide⟩)

/-- the second witness of known finding 2, `\λ.x`: a binder named `λ`; result `λ2` -/
example : parse asciiCls [92, 955, 46, 120] .Classic = .ok (abs (var 2)) :=
  (C09_cla_all_strings asciiCls asciiCls_ok asciiCls_dot _ _).2
    (.inr ⟨_, nlam [955] (nvar [120]),
      .lam (g := 92) (n := [955]) (by decide) bn_l (.name (n := [120]) wf_x trivial .nil),
      ⟨[955], by simp, by decide⟩, .lam .var, by decide⟩)

/-- `C09_cla_all_strings`, first clause, on a rendering: `λx.x` -/
example : parse asciiCls [955, 120, 46, 120] .Classic = .ok (abs (var 1)) :=
  (C09_cla_all_strings asciiCls asciiCls_ok asciiCls_dot _ _).2
    (.inl ⟨_, nlam [120] (nvar [120]),
      .lam (g := 955) (n := [120]) (by decide) wf_x (.name (n := [120]) wf_x trivial .nil),
      .lam .var, by decide⟩)

/-- the same in one clause: `parse` succeeds with `t` exactly when `s` is a rendering of complete
tokens (binder names as the lexer reads them) that are an admissible printing of a named term whose
translation is `t` -/
theorem C09_cla_all_strings_rendersB (cls : CharCls) (hcls : Cl.ClsOk cls)
    (hdot : cls.isAlnum cDot = false) (s : List Nat) (t : Term) :
    parse cls s .Classic = .ok t ↔
      ∃ cts nt, Cl.RendersB cls cts s ∧ Cl.PrintsN nt false true cts ∧ t = Cl.toDeBruijn nt := by
  rw [C09_cla_all_strings cls hcls hdot]
  constructor
  · rintro (⟨cts, nt, hr, hp, rfl⟩ | ⟨cts, nt, hr, _, hp, rfl⟩)
    · exact ⟨cts, nt, C09A.rendersB_of_renders hr, hp, rfl⟩
    · exact ⟨cts, nt, hr, hp, rfl⟩
  · rintro ⟨cts, nt, hr, hp, rfl⟩
    by_cases hg : ∃ n, CToken.CLambda n ∈ cts ∧ cLambda ∈ n
    · exact .inr ⟨cts, nt, hr, hg, hp, rfl⟩
    · exact .inl ⟨cts, nt,
        C09A.renders_of_rendersB hcls hdot hr ((C09All.glyphFree_iff cts).2 hg), hp, rfl⟩

example : parse asciiCls [955, 120, 955, 121, 46, 120] .Classic = .ok (abs (var 2)) :=
  (C09_cla_all_strings_rendersB asciiCls asciiCls_ok asciiCls_dot _ _).2
    ⟨_, nlam [120, 955, 121] (nvar [120]), rendersB_kf2, .lam .var, by decide⟩

/-- the result on residual class A: any rendering of complete tokens that are a printing of a named
term parses to its translation, whatever the binder names -/
theorem C09_cla_denotes_rendersB (cls : CharCls) (hcls : Cl.ClsOk cls) (nt : Cl.NTerm)
    (arg fin : Bool) (cts : List CToken) (s : List Nat)
    (hp : Cl.PrintsN nt arg fin cts) (hr : Cl.RendersB cls cts s) :
    parse cls s .Classic = .ok (Cl.toDeBruijn nt) :=
  C09All.parse_of_lex_prints (C09A.lex_rendersB hcls hr) hp

example : parse asciiCls [955, 120, 955, 121, 46, 120] .Classic
    = .ok (Cl.toDeBruijn (nlam [120, 955, 121] (nvar [120]))) :=
  C09_cla_denotes_rendersB asciiCls asciiCls_ok _ false true _ _ (.lam .var) rendersB_kf2

/-- the result on residual class B: an input that ends inside a binder is always an error —
`InvalidExpression` if the parentheses (of the whole input) are unbalanced, `EmptyExpression`
otherwise (the unterminated binder is an abstraction without body) -/
theorem C09_cla_cut_binder (cls : CharCls) (hcls : Cl.ClsOk cls) (cts : List CToken) (s : List Nat)
    (h : Cl.CutBinder cls cts s) :
    tokenizeCla cls s = .ok cts ∧
    parse cls s .Classic =
      .err (if C09D.balAux 0 (cts.map Cl.cshape) = true then .EmptyExpression
            else .InvalidExpression) := by
  have hl := C09A.lex_cutBinder hcls h
  refine ⟨hl, ?_⟩
  cases hp : parse cls s .Classic with
  | ok t =>
    obtain ⟨u, hu⟩ := (C09_cla_wellformed_iff cls s cts hl).1 ⟨t, hp⟩
    exact absurd hu (C09All.cut_not_DExpr h u)
  | err e => rw [C09All.parse_err_eq hl hp]
  | panic => exact absurd hp (C09_no_panic cls s .Classic)

/-- the crate's own test: `λλλ` is `EmptyExpression` — the input ends inside a binder whose name
is `λλ` (residual class B; with the backslash, `\\\` is `InvalidCharacter 1 '\'`) -/
example : parse asciiCls [955, 955, 955] .Classic = .err .EmptyExpression :=
  (C09_cla_cut_binder asciiCls asciiCls_ok [CLambda [955, 955]] [955, 955, 955]
    ⟨[], [], 955, [955, 955], rfl, rfl, .nil, by decide,
      .inr ⟨955, [955], rfl, by decide, by decide⟩⟩).2
example : parse asciiCls [92, 92, 92] .Classic = .err (.InvalidCharacter 1 92) := rfl

/-- residual class B: `λx` and `λ` (an unterminated binder; balanced, hence `EmptyExpression`) … -/
example : parse asciiCls [955, 120] .Classic = .err .EmptyExpression :=
  (C09_cla_cut_binder asciiCls asciiCls_ok [CLambda [120]] [955, 120]
    ⟨[], [], 955, [120], rfl, rfl, .nil, by decide, .inr bn_x⟩).2
example : parse asciiCls [955] .Classic = .err .EmptyExpression :=
  (C09_cla_cut_binder asciiCls asciiCls_ok [CLambda []] [955]
    ⟨[], [], 955, [], rfl, rfl, .nil, by decide, .inl rfl⟩).2

/-- … and `(λx`: unbalanced, hence `InvalidExpression` -/
example : parse asciiCls [40, 955, 120] .Classic = .err .InvalidExpression :=
  (C09_cla_cut_binder asciiCls asciiCls_ok [CLparen, CLambda [120]] [40, 955, 120]
    ⟨[CLparen], [40], 955, [120], rfl, rfl, .lparen .nil, by decide, .inr bn_x⟩).2

/-- C09, Classic notation, ALL STRINGS, errors.  `parse` returns
* `InvalidCharacter i c` exactly when `c` is the character at index `i` and is offending after the
  first `i` characters;
* `InvalidExpression` exactly when the string lexes (`Cl.RendersB` or `Cl.CutBinder`) to tokens whose
  parentheses are unbalanced;
* `EmptyExpression` exactly when it lexes to tokens with balanced parentheses which are not a
  well-formed expression (an empty input, group or abstraction body). -/
theorem C09_cla_err_all_strings (cls : CharCls) (hcls : Cl.ClsOk cls)
    (hdot : cls.isAlnum cDot = false) (s : List Nat) (e : ParseError) :
    parse cls s .Classic = .err e ↔
      (∃ pre c post, s = pre ++ c :: post ∧ Cl.Offending cls pre c ∧
        e = .InvalidCharacter pre.length c) ∨
      (∃ cts, (Cl.RendersB cls cts s ∨ Cl.CutBinder cls cts s) ∧
        C09D.balAux 0 (cts.map Cl.cshape) = false ∧ e = .InvalidExpression) ∨
      (∃ cts, (Cl.RendersB cls cts s ∨ Cl.CutBinder cls cts s) ∧
        C09D.balAux 0 (cts.map Cl.cshape) = true ∧ (¬ ∃ u, Gr.DExpr (cts.map Cl.cshape) u) ∧
        e = .EmptyExpression) := by
  constructor
  · intro h
    cases hl : tokenizeCla cls s with
    | error e' =>
      rw [C09_cla_lex_error cls s e' hl] at h
      cases h
      exact .inl ((C09A.lex_error_iff hcls hdot s _).1 hl)
    | ok cts =>
      have hlex := (C09A.lex_ok_iff hcls hdot s cts).1 hl
      have he := C09All.parse_err_eq hl h
      cases hb : C09D.balAux 0 (cts.map Cl.cshape) with
      | false =>
        simp only [hb, Bool.false_eq_true, if_false] at he
        exact .inr (.inl ⟨cts, hlex, hb, he⟩)
      | true =>
        simp only [hb, if_true] at he
        refine .inr (.inr ⟨cts, hlex, hb, ?_, he⟩)
        rw [← C09_cla_wellformed_iff cls s cts hl]
        rintro ⟨t, ht⟩
        rw [ht] at h; cases h
  · rintro (⟨pre, c, post, rfl, ho, rfl⟩ | ⟨cts, hlex, hb, rfl⟩ | ⟨cts, hlex, hb, hn, rfl⟩)
    · exact C09_cla_lex_error cls _ _ (C09A.lex_offending hcls ho post)
    · have hl := C09A.lex_lexes hcls hlex
      cases hp : parse cls s .Classic with
      | ok t =>
        obtain ⟨u, hu⟩ := (C09_cla_wellformed_iff cls s cts hl).1 ⟨t, hp⟩
        rw [hu.balanced] at hb; cases hb
      | err e =>
        have := C09All.parse_err_eq hl hp
        simp only [hb, Bool.false_eq_true, if_false] at this
        rw [this]
      | panic => exact absurd hp (C09_no_panic cls s .Classic)
    · have hl := C09A.lex_lexes hcls hlex
      cases hp : parse cls s .Classic with
      | ok t => exact absurd ((C09_cla_wellformed_iff cls s cts hl).1 ⟨t, hp⟩) hn
      | err e =>
        have := C09All.parse_err_eq hl hp
        simp only [hb, if_true] at this
        rw [this]
      | panic => exact absurd hp (C09_no_panic cls s .Classic)

/-- `C09_cla_err_all_strings`, second clause: `x)` lexes to tokens with unbalanced parentheses -/
example : parse asciiCls [120, 41] .Classic = .err .InvalidExpression :=
  (C09_cla_err_all_strings asciiCls asciiCls_ok asciiCls_dot _ _).2
    (.inr (.inl ⟨[CName [120], CRparen],
      .inl (.name (n := [120]) wf_x (.inl (by decide)) (.rparen .nil)), by decide, rfl⟩))

/-- "A character that cannot start any token is reported as `InvalidCharacter` with that character
and its character index", for all strings and exactly: `parse` returns `InvalidCharacter i c` iff
`c` is the character number `i` of the input and is offending after the first `i` characters -/
theorem C09_cla_invalid_char_iff (cls : CharCls) (hcls : Cl.ClsOk cls)
    (hdot : cls.isAlnum cDot = false) (s : List Nat) (i c : Nat) :
    parse cls s .Classic = .err (.InvalidCharacter i c) ↔
      ∃ pre post, s = pre ++ c :: post ∧ i = pre.length ∧ Cl.Offending cls pre c := by
  rw [C09_cla_err_all_strings cls hcls hdot]
  constructor
  · rintro (⟨pre, c', post, rfl, ho, he⟩ | ⟨_, _, _, he⟩ | ⟨_, _, _, _, he⟩)
    · cases he; exact ⟨pre, post, rfl, rfl, ho⟩
    · cases he
    · cases he
  · rintro ⟨pre, post, rfl, rfl, ho⟩
    exact .inl ⟨pre, c, post, rfl, ho, rfl⟩

/-- first kind of offending position, directly after a variable name: `x#` -/
example : parse asciiCls ([120] ++ 35 :: []) .Classic = .err (.InvalidCharacter 1 35) :=
  (C09_cla_invalid_char_iff asciiCls asciiCls_ok asciiCls_dot _ _ _).2
    ⟨[120], [], rfl, rfl, .inl ⟨[CName [120]], .name (n := [120]) wf_x trivial .nil,
      .inr (by decide), by decide, by decide, by decide, by decide, by decide⟩⟩

/-- second kind, the empty binder name `λ.x` (repair F12): the dot is not a letter -/
example : parse asciiCls ([955] ++ 46 :: [120]) .Classic = .err (.InvalidCharacter 1 46) :=
  (C09_cla_invalid_char_iff asciiCls asciiCls_ok asciiCls_dot _ _ _).2
    ⟨[955], [120], rfl, rfl, .inr (.inl ⟨[], [], 955, rfl, .nil, by decide, by decide⟩)⟩

/-- third kind, a later character of a binder name: `\x\y.x` — known finding 2 (`λxλy.x`, which
parses, see above) written with the other glyph — is a lexical error at the second backslash -/
example :
    parse asciiCls ([92, 120] ++ 92 :: [121, 46, 120]) .Classic = .err (.InvalidCharacter 2 92) :=
  (C09_cla_invalid_char_iff asciiCls asciiCls_ok asciiCls_dot _ _ _).2
    ⟨[92, 120], [121, 46, 120], rfl, rfl,
      .inr (.inr ⟨[], [], 92, [120], rfl, .nil, by decide, bn_x, by decide, by decide⟩)⟩

/-- second kind again: `\\.x` — the second witness of known finding 2 (`\λ.x`, which parses) written
with the other glyph — is an error at the second backslash -/
example : parse asciiCls ([92] ++ 92 :: [46, 120]) .Classic = .err (.InvalidCharacter 1 92) :=
  (C09_cla_invalid_char_iff asciiCls asciiCls_ok asciiCls_dot _ _ _).2
    ⟨[92], [46, 120], rfl, rfl, .inr (.inl ⟨[], [], 92, rfl, .nil, by decide, by decide⟩)⟩

/-! ## 3. token level and De Bruijn notation: which error -/

/-- token level (both notations): the error of the token-to-term stage is `InvalidExpression` iff
the parentheses are unbalanced and `EmptyExpression` iff they are balanced but the token list is
not a well-formed expression; it is never `InvalidCharacter` -/
theorem C09_token_level_error (ts : List Token) :
    (parseTokens ts = .error .InvalidExpression ↔ C09D.balAux 0 ts = false) ∧
    (parseTokens ts = .error .EmptyExpression ↔
      C09D.balAux 0 ts = true ∧ ¬ ∃ t, Gr.DExpr ts t) ∧
    (∀ i c, parseTokens ts ≠ .error (.InvalidCharacter i c)) := by
  refine ⟨C09A.parseTokens_invalidExpression_iff ts, C09A.parseTokens_emptyExpression_iff ts, ?_⟩
  intro i c h
  have := C09A.parseTokens_error_eq h
  split at this <;> cases this

example : parseTokens [.Lparen, .Lambda] = .error .InvalidExpression :=
  (C09_token_level_error _).1.2 (by decide)

/-- De Bruijn notation, ALL STRINGS, errors (the success half, `C09_dbr_ok_iff`, is about all
strings already).  `parse` returns
* `InvalidCharacter i c` exactly when `c` is the FIRST character that is neither a token character
  nor white space, and `i` its character index;
* `InvalidExpression` exactly when all characters are valid and the parentheses are unbalanced;
* `EmptyExpression` exactly when all characters are valid, the parentheses are balanced and the
  tokens are not a well-formed expression. -/
theorem C09_dbr_err_all_strings (cls : CharCls) (s : List Nat) (e : ParseError) :
    parse cls s .DeBruijn = .err e ↔
      (∃ pre c post, s = pre ++ c :: post ∧ (∀ c' ∈ pre, Gr.ValidChar cls c') ∧
        ¬ Gr.ValidChar cls c ∧ e = .InvalidCharacter pre.length c) ∨
      ((∀ c ∈ s, Gr.ValidChar cls c) ∧ C09D.balAux 0 (Gr.tokensOf cls s) = false ∧
        e = .InvalidExpression) ∨
      ((∀ c ∈ s, Gr.ValidChar cls c) ∧ C09D.balAux 0 (Gr.tokensOf cls s) = true ∧
        (¬ ∃ t, Gr.DExpr (Gr.tokensOf cls s) t) ∧ e = .EmptyExpression) := by
  rw [C09_dbr_stages]
  cases hl : tokenizeDbr cls s with
  | error e' =>
    obtain ⟨pre, c, post, rfl, h1, h2, rfl⟩ := tokenizeDbr_error cls s e' hl
    have hnv : ¬ ∀ c' ∈ pre ++ c :: post, Gr.ValidChar cls c' := fun h => h2 (h c (by simp))
    constructor
    · intro h
      simp only [Outcome.err.injEq] at h
      exact .inl ⟨pre, c, post, rfl, h1, h2, h.symm⟩
    · rintro (⟨pre', c', post', hs, h1', h2', rfl⟩ | ⟨hv, _⟩ | ⟨hv, _⟩)
      · have := tokenizeDbr_invalid cls _ pre'.length c' pre' post' hs rfl h1' h2'
        rw [hl, Except.error.injEq] at this
        rw [this]
      · exact absurd hv hnv
      · exact absurd hv hnv
  | ok ts =>
    obtain ⟨hv, rfl⟩ := (tokenizeDbr_spec cls s ts).1 hl
    have hts : List.filterMap (Gr.tokenOf cls) s = Gr.tokensOf cls s := rfl
    rw [hts]
    dsimp only
    obtain ⟨h1, h2, h3⟩ := C09_token_level_error (Gr.tokensOf cls s)
    constructor
    · intro h
      cases hp : parseTokens (Gr.tokensOf cls s) with
      | ok t => rw [hp] at h; cases h
      | error e' =>
        rw [hp] at h
        simp only [Outcome.err.injEq] at h
        subst h
        have he := C09A.parseTokens_error_eq hp
        cases hb : C09D.balAux 0 (Gr.tokensOf cls s) with
        | false =>
          simp only [hb, Bool.false_eq_true, if_false] at he
          exact .inr (.inl ⟨hv, rfl, he⟩)
        | true =>
          simp only [hb, if_true] at he
          subst he
          exact .inr (.inr ⟨hv, rfl, (h2.1 hp).2, rfl⟩)
    · rintro (⟨pre, c, post, hs, _, h2', _⟩ | ⟨_, hb, rfl⟩ | ⟨_, hb, hn, rfl⟩)
      · exact absurd (hv c (by rw [hs]; simp)) h2'
      · rw [h1.2 hb]
      · rw [h2.2 ⟨hb, hn⟩]

/-- `C09_dbr_err_all_strings`: `1)2` (all characters valid, unbalanced), `()` (balanced, not
well-formed) and `1#` (an invalid character) -/
example : parse asciiCls [49, 41, 50] .DeBruijn = .err .InvalidExpression :=
  (C09_dbr_err_all_strings asciiCls _ _).2 (.inr (.inl ⟨by decide, by decide, rfl⟩))
example : parse asciiCls ([49] ++ 35 :: []) .DeBruijn = .err (.InvalidCharacter 1 35) :=
  (C09_dbr_err_all_strings asciiCls _ _).2
    (.inl ⟨[49], 35, [], rfl, by decide, by decide, rfl⟩)
example : parse asciiCls [40, 41] .DeBruijn = .err .EmptyExpression :=
  (C09_dbr_err_all_strings asciiCls _ _).2
    (.inr (.inr ⟨by decide, by decide, fun ⟨t, ht⟩ => (not_DExpr_empty [] [] t).1 ht, rfl⟩))

end LC
