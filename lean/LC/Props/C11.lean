/-
C11 — De Bruijn-notation Debug output parses back to the identical term

"For every term (open or closed) whose indices lie in 1..=15, parsing the Debug output in
DeBruijn notation yields exactly the original term. The output follows the documented compact
format: one upper-case hexadecimal digit per index, the configured lambda glyph, no whitespace,
and parentheses only around abstractions in operator or operand position and applications in
operand position."
-/
import LC.Model.Parser
import LC.Model.Display

namespace LC
open Term Parser Display

/-- all indices in 1..=15 -/
def smallIdx : Term → Bool
  | var i => decide (1 ≤ i) && decide (i ≤ 15)
  | abs b => smallIdx b
  | app l r => smallIdx l && smallIdx r

namespace C11

/-- what the classification must satisfy (a fact about Rust's `char::to_digit(16)` that is checked
for ALL code points by the harness at start-up): `to_digit(16)` of the sixteen upper-case
hex-digit characters is their value.  Nothing else is needed: the lexer tests the lambda glyphs
and the parentheses BEFORE it asks for the digit value, and never asks for whitespace on a
character that is a digit. -/
structure HexOk (cls : CharCls) : Prop where
  digit : ∀ d, d < 16 → cls.digit16 (hexDigit d) = some d

/-! ### 1. lexing -/

def parenT (ts : List Token) (c : Bool) : List Token :=
  if c then Token.Lparen :: (ts ++ [Token.Rparen]) else ts

/-- the token-level printer -/
def toks : Term → Nat → List Token
  | var i, _ => [Token.Number i]
  | abs b, ctx => parenT (Token.Lambda :: toks b 0) (decide (ctx > 1))
  | app l r, ctx => parenT (toks l 2 ++ toks r 3) (ctx == 3)

theorem hexUpper_small (i : Nat) (h1 : 1 ≤ i) (h2 : i ≤ 15) : hexUpper i = [hexDigit i] := by
  have h0 : i ≠ 0 := by omega
  have hd : i / 16 = 0 := by omega
  have hm : i % 16 = i := by omega
  unfold hexUpper
  rw [if_neg h0, hexLoop, dif_neg h0, hd, hm, hexLoop, dif_pos rfl]

theorem hexDigit_range (d : Nat) (h : d < 16) :
    (48 ≤ hexDigit d ∧ hexDigit d ≤ 57) ∨ (65 ≤ hexDigit d ∧ hexDigit d ≤ 70) := by
  unfold hexDigit; split <;> omega

theorem map_ok {ε α β : Type} (f : α → β) (r : α) :
    f <$> (Except.ok r : Except ε α) = Except.ok (f r) := rfl

theorem lex_lam (cls : CharCls) (c : Nat) (hc : isLam c = true) (rest : List Nat) (r : List Token)
    (h : ∀ j, tokenizeDbrAux cls j rest = .ok r) (i : Nat) :
    tokenizeDbrAux cls i (c :: rest) = .ok (Token.Lambda :: r) := by
  simp [tokenizeDbrAux, hc, h (i + 1), map_ok]

theorem lex_lparen (cls : CharCls) (rest : List Nat) (r : List Token)
    (h : ∀ j, tokenizeDbrAux cls j rest = .ok r) (i : Nat) :
    tokenizeDbrAux cls i (40 :: rest) = .ok (Token.Lparen :: r) := by
  simp [tokenizeDbrAux, isLam, cBackslash, cLambda, cLparen, h (i + 1), map_ok]

theorem lex_rparen (cls : CharCls) (rest : List Nat) (r : List Token)
    (h : ∀ j, tokenizeDbrAux cls j rest = .ok r) (i : Nat) :
    tokenizeDbrAux cls i (41 :: rest) = .ok (Token.Rparen :: r) := by
  simp [tokenizeDbrAux, isLam, cBackslash, cLambda, cLparen, cRparen, h (i + 1), map_ok]

theorem lex_digit (cls : CharCls) (hx : HexOk cls) (d : Nat) (hd : d < 16) (rest : List Nat)
    (r : List Token) (h : ∀ j, tokenizeDbrAux cls j rest = .ok r) (i : Nat) :
    tokenizeDbrAux cls i (hexDigit d :: rest) = .ok (Token.Number d :: r) := by
  have hr := hexDigit_range d hd
  have h1 : isLam (hexDigit d) = false := by
    simp [isLam, cBackslash, cLambda]; omega
  have h2 : (hexDigit d == cLparen) = false := by simp [cLparen]; omega
  have h3 : (hexDigit d == cRparen) = false := by simp [cRparen]; omega
  simp [tokenizeDbrAux, h1, h2, h3, hx.digit d hd, h (i + 1), map_ok]

theorem lex_show (cls : CharCls) (hx : HexOk cls) (lam : Nat) (hl : lam = 955 ∨ lam = 92)
    (t : Term) : ∀ (ctx : Nat) (rest : List Nat) (r : List Token), smallIdx t = true →
      (∀ j, tokenizeDbrAux cls j rest = .ok r) →
      ∀ i, tokenizeDbrAux cls i (showDbr lam t ctx ++ rest) = .ok (toks t ctx ++ r) := by
  have hlam : isLam lam = true := by
    rcases hl with h | h <;> subst h <;> decide
  induction t with
  | var n =>
    intro ctx rest r hs h i
    simp only [smallIdx, Bool.and_eq_true, decide_eq_true_eq] at hs
    obtain ⟨n, rfl⟩ : ∃ m, n = m + 1 := ⟨n - 1, by omega⟩
    simp only [showDbr, toks]
    rw [hexUpper_small _ hs.1 hs.2]
    exact lex_digit cls hx _ (by omega) rest r h i
  | abs b ih =>
    intro ctx rest r hs h i
    simp only [smallIdx] at hs
    simp only [showDbr, toks, parenIf, parenT]
    by_cases hc : ctx > 1
    · simp only [hc, decide_true, if_true, List.cons_append, List.append_assoc]
      apply lex_lparen
      apply lex_lam cls lam hlam
      apply ih 0 _ _ hs
      exact lex_rparen cls rest r h
    · simp only [hc, decide_false, List.cons_append]
      apply lex_lam cls lam hlam
      exact ih 0 rest r hs h
  | app l r' ihl ihr =>
    intro ctx rest r hs h i
    simp only [smallIdx, Bool.and_eq_true] at hs
    simp only [showDbr, toks, parenIf, parenT]
    cases hc : ctx == 3
    · simp only [Bool.false_eq_true, if_false, List.append_assoc]
      apply ihl 2 _ _ hs.1
      exact ihr 3 rest r hs.2 h
    · simp only [if_true, List.cons_append, List.append_assoc]
      apply lex_lparen
      apply ihl 2 _ _ hs.1
      apply ihr 3 _ _ hs.2
      exact lex_rparen cls rest r h

theorem lex_debug (cls : CharCls) (hx : HexOk cls) (lam : Nat) (hl : lam = 955 ∨ lam = 92)
    (t : Term) (h : smallIdx t = true) :
    tokenizeDbr cls (debug lam t) = .ok (toks t 0) := by
  have := lex_show cls hx lam hl t 0 [] [] h (fun _ => rfl) 0
  simpa [tokenizeDbr, debug] using this

/-! ### 2. token level: `get_ast` -/

/-- the expression items contributed by `t` printed in context `ctx` -/
def exprs : Term → Nat → List Expression
  | var i, _ => [.Variable i]
  | abs b, ctx =>
    if ctx > 1 then [.Sequence (.Abstraction :: exprs b 0)] else .Abstraction :: exprs b 0
  | app l r, ctx =>
    if ctx == 3 then [.Sequence (exprs l 2 ++ exprs r 3)] else exprs l 2 ++ exprs r 3

theorem astLoop_toks (t : Term) : ∀ (ctx : Nat) (rest : List Token) (cur : List Expression)
    (st : List (List Expression)),
    astLoop (toks t ctx ++ rest) cur st = astLoop rest ((exprs t ctx).reverse ++ cur) st := by
  induction t with
  | var n => intro ctx rest cur st; simp [toks, exprs, astLoop]
  | abs b ih =>
    intro ctx rest cur st
    by_cases hc : ctx > 1
    · simp [toks, exprs, parenT, hc, astLoop, ih]
    · simp [toks, exprs, parenT, hc, astLoop, ih]
  | app l r ihl ihr =>
    intro ctx rest cur st
    cases hc : ctx == 3
    · simp [toks, exprs, parenT, hc, ihl, ihr]
    · simp [toks, exprs, parenT, hc, astLoop, ihl, ihr]

theorem toks_ne_nil (t : Term) (ctx : Nat) : toks t ctx ≠ [] := by
  cases t with
  | var n => simp [toks]
  | abs b => simp only [toks, parenT]; split <;> simp
  | app l r =>
    have := toks_ne_nil l 2
    simp only [toks, parenT]; split <;> simp [this]

theorem getAst_toks (t : Term) : getAst (toks t 0) = .ok (.Sequence (exprs t 0)) := by
  have h := astLoop_toks t 0 [] [] []
  have hne := toks_ne_nil t 0
  simp only [List.append_nil] at h
  unfold getAst
  cases htk : toks t 0 with
  | nil => exact absurd htk hne
  | cons a as =>
    rw [htk] at h
    simp [h, astLoop]

/-! ### 3. folding -/

/-- the terms of the left-nested application spine -/
def spine : Term → List Term
  | app l r => spine l ++ [r]
  | t => [t]

theorem foldTerms_spine (t : Term) : ∀ ts, foldTerms (spine t ++ ts) = .ok (ts.foldl app t) := by
  induction t with
  | var n => intro ts; simp [spine, foldTerms]
  | abs b _ => intro ts; simp [spine, foldTerms]
  | app l r ihl _ => intro ts; simp [spine, ihl]

theorem foldTerms_spine' (t : Term) : foldTerms (spine t) = .ok t := by
  simpa using foldTerms_spine t []

theorem foldList_nil : foldList [] = .ok [] := by simp [foldList]

theorem foldList_abs (rest : List Expression) (ts : List Term) (b : Term)
    (h : foldList rest = .ok ts) (hb : foldTerms ts = .ok b) :
    foldList (.Abstraction :: rest) = .ok [abs b] := by
  simp [foldList, h, hb]

theorem foldList_var (i : Nat) (rest : List Expression) (ts : List Term)
    (h : foldList rest = .ok ts) : foldList (.Variable i :: rest) = .ok (var i :: ts) := by
  simp [foldList, h]

theorem foldList_seq (es rest : List Expression) (us ts : List Term) (t : Term)
    (hes : foldList es = .ok us) (ht : foldTerms us = .ok t) (h : foldList rest = .ok ts) :
    foldList (.Sequence es :: rest) = .ok (t :: ts) := by
  simp [foldList, hes, ht, h]

/-- the three positions at once: operand (one term), operator (the spine is spliced into the
enclosing group), top level / body (the group is exactly the spine; a bare `Abstraction` marker is
the last item of its group, so "extends as far right as possible" reads it back correctly) -/
theorem foldList_exprs (t : Term) :
    (∀ more ts, foldList more = .ok ts → foldList (exprs t 3 ++ more) = .ok (t :: ts)) ∧
    (∀ more ts, foldList more = .ok ts → foldList (exprs t 2 ++ more) = .ok (spine t ++ ts)) ∧
    foldList (exprs t 0) = .ok (spine t) := by
  induction t with
  | var n =>
    refine ⟨?_, ?_, ?_⟩
    · intro more ts h; simpa [exprs] using foldList_var n more ts h
    · intro more ts h; simpa [exprs, spine] using foldList_var n more ts h
    · simpa [exprs, spine] using foldList_var n [] [] foldList_nil
  | abs b ih =>
    obtain ⟨_, _, ih0⟩ := ih
    have hb : foldList (.Abstraction :: exprs b 0) = .ok [abs b] :=
      foldList_abs _ _ b ih0 (foldTerms_spine' b)
    have hf : foldTerms [abs b] = .ok (abs b) := by simp [foldTerms]
    refine ⟨?_, ?_, ?_⟩
    · intro more ts h
      simpa [exprs] using foldList_seq _ more _ ts _ hb hf h
    · intro more ts h
      simpa [exprs, spine] using foldList_seq _ more _ ts _ hb hf h
    · simpa [exprs, spine] using hb
  | app l r ihl ihr =>
    obtain ⟨_, ihl2, _⟩ := ihl
    obtain ⟨ihr3, _, _⟩ := ihr
    have hin : foldList (exprs l 2 ++ exprs r 3) = .ok (spine l ++ [r]) := by
      have h1 := ihr3 [] [] foldList_nil
      rw [List.append_nil] at h1
      exact ihl2 _ _ h1
    have hf : foldTerms (spine l ++ [r]) = .ok (app l r) := by
      simpa using foldTerms_spine l [r]
    refine ⟨?_, ?_, ?_⟩
    · intro more ts h
      simpa [exprs] using foldList_seq _ more _ ts _ hin hf h
    · intro more ts h
      have h1 := ihl2 _ _ (ihr3 more ts h)
      simpa [exprs, spine] using h1
    · simpa [exprs, spine] using hin

theorem foldExprs_exprs (t : Term) : foldExprs (exprs t 0) = .ok t := by
  unfold foldExprs
  rw [(foldList_exprs t).2.2]
  exact foldTerms_spine' t

end C11

/-! ### 4. the round trip -/

/-- C11: the Debug output of a term with indices in 1..=15 parses back (De Bruijn notation) to
exactly that term -/
theorem C11_roundtrip (cls : CharCls) (hc : C11.HexOk cls) (lam : Nat) (hl : lam = 955 ∨ lam = 92)
    (t : Term) (h : smallIdx t = true) :
    parse cls (debug lam t) .DeBruijn = .ok t := by
  unfold parse
  have h1 : tokenizeDbr cls (debug lam t) = .ok (C11.toks t 0) := C11.lex_debug cls hc lam hl t h
  simp only [h1, C11.map_ok, C11.getAst_toks, C11.foldExprs_exprs]

/-! ### 5. the documented compact format -/

/-- the documented compact format, as an independent grammar-directed printer.
`pos`: 0 = top level / body of an abstraction, 1 = operator, 2 = operand.  One (upper-case) hex
digit per index, the lambda glyph, no whitespace; parentheses iff
(abstraction ∧ pos ≠ 0) ∨ (application ∧ pos = 2). -/
def printDbr (lam : Nat) : (pos : Nat) → Term → List Nat
  | _, var i => [hexDigit i]
  | pos, abs b =>
    if pos ≠ 0 then [40] ++ (lam :: printDbr lam 0 b) ++ [41] else lam :: printDbr lam 0 b
  | pos, app l r =>
    if pos = 2 then [40] ++ (printDbr lam 1 l ++ printDbr lam 2 r) ++ [41]
    else printDbr lam 1 l ++ printDbr lam 2 r

namespace C11

theorem showDbr_eq_printDbr (lam : Nat) (t : Term) (h : smallIdx t = true) :
    showDbr lam t 0 = printDbr lam 0 t ∧ showDbr lam t 2 = printDbr lam 1 t ∧
    showDbr lam t 3 = printDbr lam 2 t := by
  induction t with
  | var n =>
    simp only [smallIdx, Bool.and_eq_true, decide_eq_true_eq] at h
    obtain ⟨n, rfl⟩ : ∃ m, n = m + 1 := ⟨n - 1, by omega⟩
    simp [showDbr, printDbr, hexUpper_small _ h.1 h.2]
  | abs b ih =>
    simp only [smallIdx] at h
    simp [showDbr, printDbr, parenIf, (ih h).1]
  | app l r ihl ihr =>
    simp only [smallIdx, Bool.and_eq_true] at h
    simp [showDbr, printDbr, parenIf, (ihl h.1).2.1, (ihr h.2).2.2]

/-- number of variable occurrences -/
def numVars : Term → Nat
  | var _ => 1
  | abs b => numVars b
  | app l r => numVars l + numVars r

/-- number of abstractions -/
def numAbs : Term → Nat
  | var _ => 0
  | abs b => numAbs b + 1
  | app l r => numAbs l + numAbs r

/-- number of parenthesised subterms of `t` printed in position `pos`: abstractions that are an
operator or operand, applications that are an operand -/
def numParens : Nat → Term → Nat
  | _, var _ => 0
  | pos, abs b => (if pos ≠ 0 then 1 else 0) + numParens 0 b
  | pos, app l r => (if pos = 2 then 1 else 0) + numParens 1 l + numParens 2 r

/-- the indices in left-to-right order -/
def indices : Term → List Nat
  | var i => [i]
  | abs b => indices b
  | app l r => indices l ++ indices r

/-- the characters of the compact format -/
def FormatChar (lam c : Nat) : Prop :=
  c = lam ∨ c = 40 ∨ c = 41 ∨ ∃ d, 1 ≤ d ∧ d ≤ 15 ∧ c = hexDigit d

theorem mem_paren {c : Nat} {xs : List Nat} (h : c ∈ [40] ++ xs ++ [41]) :
    c = 40 ∨ c ∈ xs ∨ c = 41 := by
  simpa using h

theorem printDbr_chars (lam : Nat) (t : Term) (h : smallIdx t = true) :
    ∀ pos c, c ∈ printDbr lam pos t → FormatChar lam c := by
  induction t with
  | var n =>
    intro pos c hc
    simp only [smallIdx, Bool.and_eq_true, decide_eq_true_eq] at h
    simp only [printDbr, List.mem_singleton] at hc
    exact .inr (.inr (.inr ⟨n, h.1, h.2, hc⟩))
  | abs b ih =>
    intro pos c hc
    simp only [smallIdx] at h
    have hin : c ∈ lam :: printDbr lam 0 b → FormatChar lam c := by
      intro hc
      rcases List.mem_cons.1 hc with hc | hc
      · exact .inl hc
      · exact ih h 0 c hc
    simp only [printDbr] at hc
    split at hc
    · rcases mem_paren hc with hc | hc | hc
      · exact .inr (.inl hc)
      · exact hin hc
      · exact .inr (.inr (.inl hc))
    · exact hin hc
  | app l r ihl ihr =>
    intro pos c hc
    simp only [smallIdx, Bool.and_eq_true] at h
    have hin : c ∈ printDbr lam 1 l ++ printDbr lam 2 r → FormatChar lam c := by
      intro hc
      rcases List.mem_append.1 hc with hc | hc
      · exact ihl h.1 1 c hc
      · exact ihr h.2 2 c hc
    simp only [printDbr] at hc
    split at hc
    · rcases mem_paren hc with hc | hc | hc
      · exact .inr (.inl hc)
      · exact hin hc
      · exact .inr (.inr (.inl hc))
    · exact hin hc

theorem printDbr_length (lam : Nat) (t : Term) :
    ∀ pos, (printDbr lam pos t).length = numVars t + numAbs t + 2 * numParens pos t := by
  induction t with
  | var n => intro pos; simp [printDbr, numVars, numAbs, numParens]
  | abs b ih =>
    intro pos
    simp only [printDbr, numVars, numAbs, numParens]
    split <;> simp [ih 0] <;> omega
  | app l r ihl ihr =>
    intro pos
    simp only [printDbr, numVars, numAbs, numParens]
    split <;> simp [ihl 1, ihr 2] <;> omega

/-- a glyph or parenthesis (as opposed to an index digit) -/
def isPunct (lam c : Nat) : Bool := c == lam || c == 40 || c == 41

theorem isPunct_hexDigit (lam : Nat) (hl : lam = 955 ∨ lam = 92) (d : Nat) (hd : d < 16) :
    isPunct lam (hexDigit d) = false := by
  have hr := hexDigit_range d hd
  simp [isPunct]
  omega

theorem printDbr_digits (lam : Nat) (hl : lam = 955 ∨ lam = 92) (t : Term)
    (h : smallIdx t = true) :
    ∀ pos, (printDbr lam pos t).filter (fun c => !isPunct lam c) = (indices t).map hexDigit := by
  have hlam : isPunct lam lam = true := by simp [isPunct]
  have h40 : isPunct lam 40 = true := by simp [isPunct]
  have h41 : isPunct lam 41 = true := by simp [isPunct]
  induction t with
  | var n =>
    intro pos
    simp only [smallIdx, Bool.and_eq_true, decide_eq_true_eq] at h
    simp [printDbr, indices, isPunct_hexDigit lam hl n (by omega)]
  | abs b ih =>
    intro pos
    simp only [smallIdx] at h
    simp only [printDbr, indices]
    split <;> simp [hlam, h40, h41, ih h 0]
  | app l r ihl ihr =>
    intro pos
    simp only [smallIdx, Bool.and_eq_true] at h
    simp only [printDbr, indices]
    split <;> simp [h40, h41, ihl h.1 1, ihr h.2 2]

end C11

/-- C11, format: the Debug output is the documented compact format -/
theorem C11_format (lam : Nat) (t : Term) (h : smallIdx t = true) :
    debug lam t = printDbr lam 0 t :=
  (C11.showDbr_eq_printDbr lam t h).1

/-- C11, no whitespace: every code point of the output is the lambda glyph, a parenthesis or one
of the fifteen upper-case hexadecimal digits `1`..`9`, `A`..`F` -/
theorem C11_no_whitespace (lam : Nat) (t : Term) (h : smallIdx t = true) (c : Nat)
    (hc : c ∈ debug lam t) :
    c = lam ∨ c = 40 ∨ c = 41 ∨ ∃ d, 1 ≤ d ∧ d ≤ 15 ∧ c = hexDigit d := by
  rw [C11_format lam t h] at hc
  exact C11.printDbr_chars lam t h 0 c hc

/-- the same in terms of code points: `λ`/`\`, `(`, `)`, `'1'..'9'`, `'A'..'F'` — in particular none
of the ASCII / Unicode whitespace characters -/
theorem C11_charset (lam : Nat) (t : Term) (h : smallIdx t = true) (c : Nat)
    (hc : c ∈ debug lam t) :
    c = lam ∨ c = 40 ∨ c = 41 ∨ (49 ≤ c ∧ c ≤ 57) ∨ (65 ≤ c ∧ c ≤ 70) := by
  rcases C11_no_whitespace lam t h c hc with h | h | h | ⟨d, h1, h2, rfl⟩
  · exact .inl h
  · exact .inr (.inl h)
  · exact .inr (.inr (.inl h))
  · right; right; right
    unfold hexDigit; split <;> omega

/-- the code points with the Unicode property `White_Space` (= Rust's `char::is_whitespace`) -/
def unicodeWhiteSpace : List Nat :=
  [9, 10, 11, 12, 13, 32, 133, 160, 5760, 8192, 8193, 8194, 8195, 8196, 8197, 8198, 8199, 8200,
    8201, 8202, 8232, 8233, 8239, 8287, 12288]

/-- … so the output contains no whitespace character -/
theorem C11_no_unicode_whitespace (lam : Nat) (hl : lam = 955 ∨ lam = 92) (t : Term)
    (h : smallIdx t = true) (c : Nat) (hc : c ∈ debug lam t) : c ∉ unicodeWhiteSpace := by
  have h := C11_charset lam t h c hc
  simp only [unicodeWhiteSpace, List.mem_cons, List.not_mem_nil, or_false]
  omega

/-- C11, one digit per index: the output has one character per variable occurrence, one per
abstraction and two per parenthesised subterm … -/
theorem C11_one_digit_per_index (lam : Nat) (t : Term) (h : smallIdx t = true) :
    (debug lam t).length = C11.numVars t + C11.numAbs t + 2 * C11.numParens 0 t := by
  rw [C11_format lam t h]; exact C11.printDbr_length lam t 0

/-- … and the characters that are neither the glyph nor a parenthesis are exactly the hex digits
of the indices, in left-to-right order -/
theorem C11_digits (lam : Nat) (hl : lam = 955 ∨ lam = 92) (t : Term) (h : smallIdx t = true) :
    (debug lam t).filter (fun c => !C11.isPunct lam c) = (C11.indices t).map hexDigit := by
  rw [C11_format lam t h]; exact C11.printDbr_digits lam hl t h 0

/-! ### 6. non-vacuity: a concrete ASCII classification -/

namespace C11

/-- ASCII-only classification: hex digits `0-9`, `A-F`, `a-f` with their values; whitespace
space / tab / LF / CR; letters `a-z`, `A-Z` -/
def asciiCls : CharCls where
  isWs c := c == 32 || c == 9 || c == 10 || c == 13
  isAlpha c := (decide (97 ≤ c) && decide (c ≤ 122)) || (decide (65 ≤ c) && decide (c ≤ 90))
  isAlnum c := (decide (97 ≤ c) && decide (c ≤ 122)) || (decide (65 ≤ c) && decide (c ≤ 90)) ||
    (decide (48 ≤ c) && decide (c ≤ 57))
  digit16 c :=
    if 48 ≤ c ∧ c ≤ 57 then some (c - 48)
    else if 65 ≤ c ∧ c ≤ 70 then some (c - 55)
    else if 97 ≤ c ∧ c ≤ 102 then some (c - 87)
    else none

theorem asciiCls_hexOk : HexOk asciiCls where
  digit := by
    intro d hd
    simp only [asciiCls, hexDigit]
    split <;> split <;> first | omega | (simp; done) | (simp; omega)

/-- `parse` in De Bruijn notation, stage by stage (for ground examples: `foldList` is compiled by
well-founded recursion, so `decide` cannot evaluate `parse` in one go) -/
theorem parse_stages (cls : CharCls) (s : List Nat) (tk : List Token) (es : List Expression)
    (t : Term) (h1 : tokenizeDbr cls s = .ok tk) (h2 : getAst tk = .ok (.Sequence es))
    (h3 : foldExprs es = .ok t) : parse cls s .DeBruijn = .ok t := by
  simp [parse, h1, h2, h3, map_ok]

/-- a test term: indices 1, 2, 10..15, abstractions and applications in all three positions -/
def sample : Term :=
  abs (app (app (app (abs (app (var 1) (var 10))) (var 11)) (app (var 12) (abs (abs (var 13)))))
    (abs (app (app (var 14) (app (var 15) (var 2))) (abs (var 1)))))

/-- `λ(λ1A)B(C(λλD))(λE(F2)(λ1))` -/
def sampleOut (lam : Nat) : List Nat :=
  [lam, 40, lam, 49, 65, 41, 66, 40, 67, 40, lam, lam, 68, 41, 41, 40, lam, 69, 40, 70, 50, 41,
    40, lam, 49, 41, 41]

theorem debug_sample_lambda : debug 955 sample = sampleOut 955 := by decide +kernel
theorem debug_sample_backslash : debug 92 sample = sampleOut 92 := by decide +kernel

/-- ground evaluation of the parser model (no use of the general theorem) -/
example : parse asciiCls (debug 955 sample) .DeBruijn = .ok sample := by
  rw [debug_sample_lambda]
  refine parse_stages _ _ (toks sample 0) (exprs sample 0) _ (by rfl) (by rfl) ?_
  simp [foldExprs, foldList, foldTerms, sample, exprs]

example : parse asciiCls (debug 92 sample) .DeBruijn = .ok sample := by
  rw [debug_sample_backslash]
  refine parse_stages _ _ (toks sample 0) (exprs sample 0) _ (by rfl) (by rfl) ?_
  simp [foldExprs, foldList, foldTerms, sample, exprs]

/-- the general theorem instantiated (non-vacuity of `HexOk`) -/
example : parse asciiCls (debug 955 sample) .DeBruijn = .ok sample :=
  C11_roundtrip asciiCls asciiCls_hexOk 955 (.inl rfl) sample (by decide)

/-- the restriction to indices ≤ 15 is necessary: 16 prints as `10`, which reads back as the
application of index 1 to index 0 … -/
example : parse asciiCls (debug 955 (var 16)) .DeBruijn = .ok (app (var 1) (var 0)) := by
  have hd : debug 955 (var 16) = [49, 48] := by decide +kernel
  rw [hd]
  refine parse_stages _ _ [.Number 1, .Number 0] [.Variable 1, .Variable 0] _ (by rfl) (by rfl) ?_
  simp [foldExprs, foldList, foldTerms]

/-- … and so is the restriction to indices ≥ 1: index 0 prints as `undefined` -/
example : parse asciiCls (debug 955 (var 0)) .DeBruijn = .err (.InvalidCharacter 0 117) := by
  have hd : debug 955 (var 0) = [117, 110, 100, 101, 102, 105, 110, 101, 100] := by decide +kernel
  rw [hd]; rfl

end C11

end LC
