/-
C04 — The limit is a hard bound and a limited run is a prefix of the unlimited run

"With a non-zero limit reduce never performs more contractions than the limit, and the returned
count is the number it did perform. Reduction is a deterministic function of (term, order):
reduce(o, n) followed by reduce(o, m) leaves the same term and the same total count as
reduce(o, n+m), and limit 0 equals repeating reduce(o, 1) until it returns 0."

Everything is derived from `reduce_sound` (the result is the `c`-th iterate of the deterministic
small-step function `stepOrd o`, within the limit, and strategy-normal if limit is left) and from
the uniqueness / composition of bounded runs (`RL.BRun`, `RL.URun`).
-/
import LC.Proofs.ReduceLemmas
import LC.Proofs.Complete.All

namespace LC
open Term Spec

/-- C04: a non-zero limit is a hard bound on the count -/
theorem C04_bound (o : Order) (L fuel : Nat) (t t' : Term) (c : Nat) (hL : L ≠ 0)
    (h : reduce o L fuel t = some (t', c)) : c ≤ L :=
  (reduce_sound o L fuel t t' c h).2.1 hL

/-- C04: the count is the number of strategy steps performed; the result is that iterate -/
theorem C04_is_iter (o : Order) (L fuel : Nat) (t t' : Term) (c : Nat)
    (h : reduce o L fuel t = some (t', c)) : Iter (stepOrd o) c t t' :=
  (reduce_sound o L fuel t t' c h).1

/-- ω₃-like growing term `(λx. x x x)(λx. x x x)`: the limit really cuts the run -/
example : reduce .NOR 3 20 (app (abs (app (app (var 1) (var 1)) (var 1))) (abs (app (app (var 1) (var 1)) (var 1))))
    = some (app (app (app (app (abs (app (app (var 1) (var 1)) (var 1))) (abs (app (app (var 1) (var 1)) (var 1))))
        (abs (app (app (var 1) (var 1)) (var 1)))) (abs (app (app (var 1) (var 1)) (var 1))))
        (abs (app (app (var 1) (var 1)) (var 1))), 3) := by decide

/-- C04: `reduce(o, n)` then `reduce(o, m)` is `reduce(o, n + m)` — same term, same total count -/
theorem C04_compose (o : Order) (n m f₁ f₂ f₃ : Nat) (t t₁ t₂ t₃ : Term) (c₁ c₂ c₃ : Nat)
    (hn : n ≠ 0) (hm : m ≠ 0)
    (h₁ : reduce o n f₁ t = some (t₁, c₁)) (h₂ : reduce o m f₂ t₁ = some (t₂, c₂))
    (h₃ : reduce o (n + m) f₃ t = some (t₃, c₃)) :
    t₃ = t₂ ∧ c₃ = c₁ + c₂ :=
  ((RL.reduce_brun hn h₁).comp (RL.reduce_brun hm h₂)).unique (RL.reduce_brun (by omega) h₃)

example :
    reduce .APP 1 10 (app (abs (var 1)) (app (abs (var 1)) (app (abs (var 1)) (var 7))))
      = some (app (abs (var 1)) (app (abs (var 1)) (var 7)), 1) ∧
    reduce .APP 2 10 (app (abs (var 1)) (app (abs (var 1)) (var 7))) = some (var 7, 2) ∧
    reduce .APP 3 10 (app (abs (var 1)) (app (abs (var 1)) (app (abs (var 1)) (var 7))))
      = some (var 7, 3) := by decide

/-- C04: a limited run followed by an unlimited run is the unlimited run -/
theorem C04_compose_unlimited (o : Order) (n f₁ f₂ f₃ : Nat) (t t₁ t₂ t₃ : Term) (c₁ c₂ c₃ : Nat)
    (hn : n ≠ 0)
    (h₁ : reduce o n f₁ t = some (t₁, c₁)) (h₂ : reduce o 0 f₂ t₁ = some (t₂, c₂))
    (h₃ : reduce o 0 f₃ t = some (t₃, c₃)) :
    t₃ = t₂ ∧ c₃ = c₁ + c₂ :=
  ((RL.reduce_brun hn h₁).comp_urun (RL.reduce_urun h₂)).unique (RL.reduce_urun h₃)

/-- C04: a limited run is a prefix of the unlimited run: the unlimited run makes at least as
many steps, and its first `c` steps lead to the limited result -/
theorem C04_prefix (o : Order) (L f₁ f₂ : Nat) (t t₁ t₂ : Term) (c₁ c₂ : Nat)
    (h₁ : reduce o L f₁ t = some (t₁, c₁)) (h₂ : reduce o 0 f₂ t = some (t₂, c₂)) :
    c₁ ≤ c₂ ∧ Iter (stepOrd o) c₁ t t₁ ∧ Iter (stepOrd o) (c₂ - c₁) t₁ t₂ := by
  have it₁ := (reduce_sound o L f₁ t t₁ c₁ h₁).1
  obtain ⟨it₂, hn₂⟩ := RL.reduce_urun h₂
  have hle : c₁ ≤ c₂ := RL.iter_le_of_none it₂ hn₂ it₁
  obtain ⟨w, hw1, hw2⟩ := Iter.split c₁ hle it₂
  have := Iter.det it₁ hw1
  subst this
  exact ⟨hle, it₁, hw2⟩

/-- C04: the result does not depend on the fuel (the model's recursion-depth bound): `reduce` is
a function of (term, order, limit) -/
theorem C04_fuel_irrelevant (o : Order) (L f f' : Nat) (t : Term) (r r' : Term × Nat)
    (h : reduce o L f t = some r) (h' : reduce o L f' t = some r') : r = r' := by
  obtain ⟨u, c⟩ := r
  obtain ⟨u', c'⟩ := r'
  by_cases hL : L = 0
  · subst hL
    obtain ⟨h1, h2⟩ := (RL.reduce_urun h).unique (RL.reduce_urun h')
    rw [h1, h2]
  · obtain ⟨h1, h2⟩ := (RL.reduce_brun hL h).unique (RL.reduce_brun hL h')
    rw [h1, h2]

example : reduce .HAP 0 6 (app (abs (var 1)) (app (abs (var 1)) (var 7))) = some (var 7, 2) ∧
    reduce .HAP 0 30 (app (abs (var 1)) (app (abs (var 1)) (var 7))) = some (var 7, 2) := by decide

/-- C04: limit 0 runs the strategy to its fixpoint -/
theorem C04_unlimited_is_fixpoint (o : Order) (fuel : Nat) (t t' : Term) (c : Nat)
    (h : reduce o 0 fuel t = some (t', c)) : Iter (stepOrd o) c t t' ∧ stepOrd o t' = none :=
  RL.reduce_urun h

/-- C04: limit 1 performs exactly one strategy step if there is one, and returns 0 otherwise -/
theorem C04_single_step (o : Order) (fuel : Nat) (t t' : Term) (c : Nat)
    (h : reduce o 1 fuel t = some (t', c)) :
    (stepOrd o t = some t' ∧ c = 1) ∨ (stepOrd o t = none ∧ t' = t ∧ c = 0) := by
  obtain ⟨it, hle, hn⟩ := RL.reduce_brun (by omega) h
  cases it with
  | zero _ => exact Or.inr ⟨hn (by omega), rfl, rfl⟩
  | @succ k _ u _ hs hrest =>
    have hk : k = 0 := by omega
    subst hk
    cases hrest
    exact Or.inl ⟨hs, rfl⟩

example : reduce .CBN 1 10 (app (abs (var 1)) (app (abs (var 1)) (var 7)))
      = some (app (abs (var 1)) (var 7), 1) ∧
    stepOrd .CBN (app (abs (var 1)) (app (abs (var 1)) (var 7))) = some (app (abs (var 1)) (var 7)) ∧
    reduce .CBN 1 10 (var 7) = some (var 7, 0) := by decide

/-! ### list versions -/

/-- successive `reduce o` calls with the given (limit, fuel) pairs, counts summed -/
def runLimits (o : Order) : List (Nat × Nat) → Term → Option (Term × Nat)
  | [], t => some (t, 0)
  | (n, f) :: ls, t =>
    match reduce o n f t with
    | none => none
    | some (t', c) =>
      match runLimits o ls t' with
      | none => none
      | some (t'', c') => some (t'', c + c')

/-- sum of the limits -/
def sumLimits : List (Nat × Nat) → Nat
  | [] => 0
  | (n, _) :: ls => n + sumLimits ls

/-- a sequence of positive-limit calls is the bounded run of the summed limit -/
theorem runLimits_brun (o : Order) (ls : List (Nat × Nat)) (hpos : ∀ p ∈ ls, p.1 ≠ 0)
    (t t₂ : Term) (c : Nat) (h : runLimits o ls t = some (t₂, c)) :
    RL.BRun (stepOrd o) (sumLimits ls) t t₂ c := by
  induction ls generalizing t c with
  | nil =>
    simp only [runLimits, Option.some.injEq, Prod.mk.injEq] at h
    obtain ⟨rfl, rfl⟩ := h
    exact RL.BRun.zero t
  | cons p ls ih =>
    obtain ⟨n, f⟩ := p
    simp only [runLimits] at h
    cases h1 : reduce o n f t with
    | none => simp [h1] at h
    | some q =>
      obtain ⟨t', c1⟩ := q
      simp only [h1] at h
      cases h2 : runLimits o ls t' with
      | none => simp [h2] at h
      | some q2 =>
        obtain ⟨t'', c2⟩ := q2
        simp only [h2, Option.some.injEq, Prod.mk.injEq] at h
        obtain ⟨rfl, rfl⟩ := h
        have hn : n ≠ 0 := hpos (n, f) (List.mem_cons_self)
        have := ih (fun p hp => hpos p (List.mem_cons_of_mem _ hp)) t' c2 h2
        exact (RL.reduce_brun hn h1).comp this

/-- C04, list form: any non-empty sequence of calls with positive limits `n₁, …, n_k` leaves the
same term and the same total count as one call with limit `n₁ + … + n_k` -/
theorem C04_compose_list (o : Order) (ls : List (Nat × Nat)) (hne : ls ≠ [])
    (hpos : ∀ p ∈ ls, p.1 ≠ 0) (f : Nat) (t t₂ t₃ : Term) (c c₃ : Nat)
    (h : runLimits o ls t = some (t₂, c))
    (h₃ : reduce o (sumLimits ls) f t = some (t₃, c₃)) :
    t₃ = t₂ ∧ c₃ = c := by
  have hs : sumLimits ls ≠ 0 := by
    cases ls with
    | nil => exact absurd rfl hne
    | cons p ls =>
      obtain ⟨n, f⟩ := p
      have : n ≠ 0 := hpos (n, f) (List.mem_cons_self)
      simp only [sumLimits]; omega
  exact (runLimits_brun o ls hpos t t₂ c h).unique (RL.reduce_brun hs h₃)

example : runLimits .NOR [(1, 10), (2, 10)]
      (app (abs (var 1)) (app (abs (var 1)) (app (abs (var 1)) (var 7)))) = some (var 7, 3) := by
  decide

/-- C04: limit 0 equals repeating `reduce(o, 1)` until it returns 0: if a sequence of limit-1
calls is followed by a limit-1 call that returns count 0, the term and the summed count are those
of the unlimited run -/
theorem C04_repeat_single (o : Order) (ls : List (Nat × Nat)) (hone : ∀ p ∈ ls, p.1 = 1)
    (f f' : Nat) (t t₂ t₂' t₃ : Term) (c c₃ : Nat)
    (h : runLimits o ls t = some (t₂, c))
    (hlast : reduce o 1 f t₂ = some (t₂', 0))
    (h₃ : reduce o 0 f' t = some (t₃, c₃)) :
    t₃ = t₂ ∧ c₃ = c := by
  have hb := runLimits_brun o ls (fun p hp => by rw [hone p hp]; omega) t t₂ c h
  have hn : stepOrd o t₂ = none := by
    rcases C04_single_step o f t₂ t₂' 0 hlast with ⟨_, h0⟩ | ⟨hn, _, _⟩
    · omega
    · exact hn
  exact (RL.URun.unique ⟨hb.1, hn⟩ (RL.reduce_urun h₃))

example : runLimits .CBV [(1, 10), (1, 10)] (app (abs (var 1)) (app (abs (var 1)) (var 7)))
      = some (var 7, 2) ∧
    reduce .CBV 1 10 (var 7) = some (var 7, 0) ∧
    reduce .CBV 0 10 (app (abs (var 1)) (app (abs (var 1)) (var 7))) = some (var 7, 2) := by decide

/-- limited calls always return: with a non-zero limit the recursion terminates on every term
(`fuel` bounds the depth of the call tree; some finite depth always suffices) -/
theorem C04_total (o : Order) (L : Nat) (hL : L ≠ 0) (t : Term) :
    ∃ fuel r, reduce o L fuel t = some r := reduce_total o L hL t

/-- the unlimited call returns exactly when the strategy's run from `t` is finite, and then with
the strategy's normal form and the run's length -/
theorem C04_unlimited_returns_iff (o : Order) (t t' : Term) (c : Nat) :
    (∃ fuel, reduce o 0 fuel t = some (t', c)) ↔ (Iter (stepOrd o) c t t' ∧ stepOrd o t' = none) := by
  constructor
  · rintro ⟨fuel, h⟩; exact C04_unlimited_is_fixpoint o fuel t t' c h
  · rintro ⟨it, hn⟩
    exact reduce_complete o 0 c t t' it (fun _ => hn) (fun h => absurd rfl h)

/-- results do not depend on fuel once it suffices -/
theorem C04_fuel_mono (o : Order) (L f f' : Nat) (t : Term) (r : Term × Nat)
    (h : reduce o L f t = some r) (hle : f ≤ f') : reduce o L f' t = some r :=
  betaOrd_mono o L h hle

/-- non-vacuity of `C04_total`: Ω under a limit of 3 returns after exactly 3 steps -/
example : ∃ fuel, reduce .NOR 3 fuel (app (abs (app (var 1) (var 1))) (abs (app (var 1) (var 1))))
    = some (app (abs (app (var 1) (var 1))) (abs (app (var 1) (var 1))), 3) := ⟨10, by decide⟩

end LC
