/-
C02 — Term::apply is capture-avoiding substitution (and refuses non-abstractions)

"For every abstraction and every argument term, apply leaves exactly the abstraction body
with the argument substituted for the bound variable: the argument's free variables still
refer to the same outer binders at every occurrence, other outer references of the body are
renumbered to account for the removed binder, and the argument itself is not modified. On a
term that is not an abstraction it returns Err(NotAbs) and leaves the term untouched."

The model `Term.apply` mirrors `apply`/`_apply`/`update_free_variables` (one pass, shift at
the leaf).  The specification `Spec.substTop` is the textbook composite
`lower ∘ subst 1 (lift a)` (shift when passing each binder).  Their equality for all
bodies and arguments is the content; the occurrence-wise theorems spell out the English
clauses position by position.
-/
import LC.Spec.Position
import LC.Proofs.SubstTop

namespace LC
open Term Spec

/-- C02, success path: `(λb).apply(a)` leaves exactly `b[a]` -/
theorem C02_apply_abs (b a : Term) : Term.apply (abs b) a = .ok (substTop b a) := by
  simp only [Term.apply]; rw [← contract_eq_substTop]; rfl

/-- C02, error path: anything that is not an abstraction is refused with `NotAbs` -/
theorem C02_apply_err (t a : Term) (h : ∀ b, t ≠ abs b) : Term.apply t a = .error .NotAbs := by
  cases t with
  | var i => rfl
  | abs b => exact absurd rfl (h b)
  | app l r => rfl

/-- C02, error path, the receiver: the Rust method works on `&mut self`; `applyMut` models the receiver after the call.
On a non-abstraction the call returns `Err(NotAbs)` AND leaves the term untouched (nothing is written before the
`unabs_ref()?` test).  The correspondence run checks the same on the real crate (`err NotAbs` vs `err NotAbs CHANGED …`). -/
theorem C02_apply_err_unchanged (t a : Term) (h : ∀ b, t ≠ abs b) :
    Term.applyMut t a = (t, .error .NotAbs) := by
  cases t with
  | var i => rfl
  | abs b => exact absurd rfl (h b)
  | app l r => rfl

/-- `applyMut` and `apply` are the same function seen through `&mut self` and through its result -/
theorem C02_applyMut_apply (t a : Term) :
    (∀ t', Term.apply t a = .ok t' ↔ Term.applyMut t a = (t', .ok ())) ∧
    (∀ e, Term.apply t a = .error e ↔ Term.applyMut t a = (t, .error e)) := by
  cases t <;> simp [Term.apply, Term.applyMut]

/-- C02, success path through `&mut self`: the receiver becomes exactly `b[a]` -/
theorem C02_applyMut_abs (b a : Term) : Term.applyMut (abs b) a = (substTop b a, .ok ()) := by
  simp only [Term.applyMut]; rw [← contract_eq_substTop]; rfl

/-- C02, occurrence-wise reading.  For the variable occurrence `var i` at position `p` of the
body `b`, sitting under `k` binders of `b`:
* locally bound (`i ≤ k`, which includes UD `i = 0`): untouched;
* the bound variable of the removed binder (`i = k+1`): replaced by the argument with its free
  indices raised by `k` — so each of them still refers to the same outer binder;
* any other outer reference (`i > k+1`): renumbered to `i-1` for the removed binder.
Every other position of the body is unchanged in shape (positions are preserved). -/
theorem C02_occurrencewise (b a : Term) (p : Pos) (i k : Nat)
    (h : subAt b p = some (var i, k)) :
    (i ≤ k → subAt (substTop b a) p = some (var i, k)) ∧
    (i = k + 1 → ∀ q, subAt (substTop b a) (p ++ q) = subAtAux k (shiftFV k 0 a) q) ∧
    (i > k + 1 → subAt (substTop b a) p = some (var (i - 1), k)) := by
  rw [← contract_eq_substTop]
  unfold contract subAt at *
  suffices H : ∀ (d k0 : Nat) (b : Term) (p : Pos), 1 ≤ d → d = k0 + 1 →
      subAtAux k0 b p = some (var i, k) →
      (i ≤ k → subAtAux k0 (applyAux a d b) p = some (var i, k)) ∧
      (i = k + 1 → ∀ q, subAtAux k0 (applyAux a d b) (p ++ q) = subAtAux k (shiftFV k 0 a) q) ∧
      (i > k + 1 → subAtAux k0 (applyAux a d b) p = some (var (i - 1), k)) from
    H 1 0 b p (Nat.le_refl _) rfl h
  intro d k0 b
  induction b generalizing d k0 with
  | var j =>
    intro p hd hdk h
    cases p with
    | nil =>
      simp only [subAtAux, Option.some.injEq, Prod.mk.injEq, var.injEq] at h
      obtain ⟨rfl, rfl⟩ := h
      refine ⟨?_, ?_, ?_⟩
      · intro hle
        have h1 : ¬ j = d := by omega
        have h2 : ¬ j > d := by omega
        simp [applyAux, h1, h2, subAtAux]
      · intro he q
        have h1 : j = d := by omega
        simp only [applyAux, h1, if_true, List.nil_append]
        rw [show d - 1 = k0 by omega]
      · intro hgt
        have h1 : ¬ j = d := by omega
        have h2 : j > d := by omega
        simp [applyAux, h1, h2, subAtAux]
    | cons x p => simp [subAtAux] at h
  | abs b ih =>
    intro p hd hdk h
    cases p with
    | nil => simp [subAtAux] at h
    | cons x p =>
      cases x with
      | B =>
        simp only [subAtAux] at h
        have := ih (d + 1) (k0 + 1) p (by omega) (by omega) h
        simpa [applyAux, subAtAux] using this
      | L => simp [subAtAux] at h
      | R => simp [subAtAux] at h
  | app l r ihl ihr =>
    intro p hd hdk h
    cases p with
    | nil => simp [subAtAux] at h
    | cons x p =>
      cases x with
      | B => simp [subAtAux] at h
      | L =>
        simp only [subAtAux] at h
        simpa [applyAux, subAtAux] using ihl d k0 p hd hdk h
      | R =>
        simp only [subAtAux] at h
        simpa [applyAux, subAtAux] using ihr d k0 p hd hdk h

/-- C02: what "raised by `k`" means for the inserted copy of the argument: an occurrence
`var i` under `m` binders of the argument is free exactly when `i > m`; the copy placed under
`k` binders has `i + k` there (same outer binder), bound occurrences and UD are unchanged. -/
theorem C02_arg_free_vars (a : Term) (k : Nat) (q : Pos) (i m k0 : Nat)
    (h : subAtAux k0 a q = some (var i, k0 + m)) :
    subAtAux k0 (shiftFV k 0 a) q = some (var (if i > m then i + k else i), k0 + m) := by
  suffices H : ∀ (o k0 : Nat) (a : Term) (q : Pos) (m : Nat), o ≤ m →
      subAtAux k0 a q = some (var i, k0 + (m - o)) →
      subAtAux k0 (shiftFV k o a) q = some (var (if i > m then i + k else i), k0 + (m - o)) by
    simpa using H 0 k0 a q m (Nat.zero_le _) (by simpa using h)
  intro o k0 a
  induction a generalizing o k0 with
  | var j =>
    intro q m hom h
    cases q with
    | nil =>
      simp only [subAtAux, Option.some.injEq, Prod.mk.injEq, var.injEq] at h
      obtain ⟨rfl, h2⟩ := h
      have : m = o := by omega
      subst this
      by_cases hj : j > m <;> simp [shiftFV, hj, subAtAux]
    | cons x q => simp [subAtAux] at h
  | abs b ih =>
    intro q m hom h
    cases q with
    | nil => simp [subAtAux] at h
    | cons x q =>
      cases x with
      | B =>
        simp only [subAtAux] at h
        -- the binder count k0 + (m - o) is reached from k0 + 1, so m - o ≥ 1
        have key : ∀ (k1 : Nat) (t : Term) (q : Pos) (s : Term) (n : Nat),
            subAtAux k1 t q = some (s, n) → k1 ≤ n := by
          intro k1 t q
          induction q generalizing k1 t with
          | nil => intro s n h; simp [subAtAux] at h; omega
          | cons x q ihq =>
            intro s n h
            cases t with
            | var _ => simp [subAtAux] at h
            | abs b => cases x <;> simp [subAtAux] at h; have := ihq _ _ _ _ h; omega
            | app l r =>
              cases x <;> simp [subAtAux] at h
              · exact ihq _ _ _ _ h
              · exact ihq _ _ _ _ h
        have hge := key _ _ _ _ _ h
        have hm : o + 1 ≤ m := by omega
        have h' : subAtAux (k0 + 1) b q = some (var i, (k0 + 1) + (m - (o + 1))) := by
          rw [h]; congr 2; omega
        have := ih (o + 1) (k0 + 1) q m hm h'
        simp only [shiftFV, subAtAux]
        rw [this]; congr 2; omega
      | L => simp [subAtAux] at h
      | R => simp [subAtAux] at h
  | app l r ihl ihr =>
    intro q m hom h
    cases q with
    | nil => simp [subAtAux] at h
    | cons x q =>
      cases x with
      | B => simp [subAtAux] at h
      | L => simp only [subAtAux] at h; simpa [shiftFV, subAtAux] using ihl o k0 q m hom h
      | R => simp only [subAtAux] at h; simpa [shiftFV, subAtAux] using ihr o k0 q m hom h

/-- UD is inert under substitution -/
theorem C02_ud_inert (a : Term) : substTop (var 0) a = var 0 := by
  simp [substTop, subst, lower]

/-! non-vacuity: the doctest of `apply` (`λλ42(λ13)` applied to `λ51`) -/
example :
    Term.apply (abs (abs (app (app (var 4) (var 2)) (abs (app (var 1) (var 3))))))
      (abs (app (var 5) (var 1)))
    = .ok (abs (app (app (var 3) (abs (app (var 6) (var 1))))
        (abs (app (var 1) (abs (app (var 7) (var 1))))))) := by rfl

end LC
