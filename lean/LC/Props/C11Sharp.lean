/-
C11, sharpness of the input domain — the restriction "all indices in 1..=15" of the Debug / De Bruijn round trip
is NECESSARY, and what exactly happens outside it.

* a term containing `UD` (index 0): Debug prints the word `undefined`; the De Bruijn lexer rejects its first
  letter: `parse` returns `Err(InvalidCharacter(k, 'u'))` where `k` is the (character) index of the FIRST `u` of
  the output, i.e. of the `undefined` printed for the first `UD` in printing order (`C11_ud_not_parsed`,
  `C11_ud_first_occurrence`);
* a `UD`-free term with an index ≥ 16: Debug prints the index with several hexadecimal digits; the output is still
  a well-formed De Bruijn string, but the parser reads one index per CHARACTER: the result is `readBack t`, in which
  every numeral has become the application of its digits, a digit `0` being `UD` (`C11_large_index_reads_digits`),
  and that is never `t` (`C11_large_index_not_roundtrip`);
* together: the round trip holds IFF all indices are in 1..=15 (`C11_roundtrip_iff`).

Hypotheses on the classification: `C11.HexOk` (as in `C11_roundtrip`) and, for the terms with `UD`, that `u`
(117) is neither a hexadecimal digit nor whitespace (facts about Rust's `to_digit(16)` / `is_whitespace`; without
them a classification that, say, ignored the letters of `undefined` would lex the word differently).
-/
import LC.Props.C11
import LC.Proofs.Syntax.DebugDigits

namespace LC
open Term Parser Display
open Spec (hasUD)
open C11S

/-! ## 0. the hexadecimal digits of an index -/

/-- `C11S.hexDigits n` are the hexadecimal digits of `n`, most significant first: each is below 16, their value
is `n`, there is at least one, no leading `0` (for `n ≠ 0`), and `{:X}` prints exactly them -/
theorem C11_hexDigits_spec (n : Nat) :
    (∀ d ∈ hexDigits n, d < 16) ∧ hexValue (hexDigits n) = n ∧ hexDigits n ≠ [] ∧
      (n ≠ 0 → (hexDigits n).head? ≠ some 0) ∧ hexUpper n = (hexDigits n).map hexDigit :=
  ⟨hexDigits_lt n, hexValue_hexDigits n, hexDigits_ne_nil n, hexDigits_head n, hexUpper_eq n⟩

/-- exactly one digit iff the index is below 16 -/
theorem C11_hexDigits_length (n : Nat) : (hexDigits n).length = 1 ↔ n < 16 := by
  constructor
  · intro h
    refine Nat.lt_of_not_le (fun h16 => ?_)
    have := hexDigits_large n h16
    omega
  · intro h; rw [hexDigits_small n h]; rfl

example : hexDigits 16 = [1, 0] := by decide +kernel
example : hexDigits 255 = [15, 15] := by decide +kernel
example : hexDigits 4096 = [1, 0, 0, 0] := by decide +kernel
example : hexUpper 2748 = [65, 66, 67] := by decide +kernel   -- `ABC`

/-! ## 1. terms with `UD`: a lexical error at the first `u` -/

/-- the Debug output of a term with `UD` contains the word `undefined`; before its first occurrence there is no
`u`, so the first `u` of the output is the initial of the `undefined` printed for the first `UD` in printing
order, and the nine characters from there on are that word -/
theorem C11_ud_first_occurrence (lam : Nat) (hl : lam = 955 ∨ lam = 92) (t : Term)
    (h : hasUD t = true) :
    ∃ pre post, debug lam t = pre ++ str "undefined" ++ post ∧ 117 ∉ pre ∧
      (∀ c ∈ pre, c = lam ∨ c = 40 ∨ c = 41 ∨ ∃ d, d < 16 ∧ c = hexDigit d) ∧
      (debug lam t).idxOf 117 = pre.length := by
  obtain ⟨pre, post, he, hg⟩ := show_split lam t 0 h
  refine ⟨pre, post, by rw [str_undefined]; exact he, ?_, hg, ?_⟩
  · exact fun hm => goodChar_ne_u hl (hg 117 hm) rfl
  · have he' : debug lam t = pre ++ 117 :: ([110, 100, 101, 102, 105, 110, 101, 100] ++ post) := by
      rw [debug, he]; simp [undefinedWord]
    rw [he', idxOf_u lam hl pre _ hg]

/-- C11, sharpness (index 0): the Debug output of a term containing `UD` does NOT parse in De Bruijn notation:
the result is `Err(InvalidCharacter(k, 'u'))`, `k` the index of the first `u` of the output -/
theorem C11_ud_not_parsed (cls : CharCls) (hc : C11.HexOk cls) (hu : cls.digit16 117 = none)
    (hw : cls.isWs 117 = false) (lam : Nat) (hl : lam = 955 ∨ lam = 92) (t : Term)
    (h : hasUD t = true) :
    parse cls (debug lam t) .DeBruijn = .err (.InvalidCharacter ((debug lam t).idxOf 117) 117) := by
  obtain ⟨pre, post, he, hg⟩ := show_split lam t 0 h
  have he' : debug lam t = pre ++ 117 :: ([110, 100, 101, 102, 105, 110, 101, 100] ++ post) := by
    rw [debug, he]; simp [undefinedWord]
  have hlex := lex_bad cls hc hu hw lam hl ([110, 100, 101, 102, 105, 110, 101, 100] ++ post) pre hg 0
  rw [he', idxOf_u lam hl pre _ hg]
  unfold parse
  simp only [tokenizeDbr, hlex, Nat.zero_add, map_error]

/-- the index, structurally: `C11S.udOffset` counts what is printed before the first `UD` — an opening
parenthesis where the context demands one, the glyph of each abstraction entered, the whole output of every
`UD`-free operator passed -/
theorem C11_ud_index (lam : Nat) (hl : lam = 955 ∨ lam = 92) (t : Term) (h : hasUD t = true) :
    (debug lam t).idxOf 117 = udOffset lam t 0 :=
  idxOf_show lam hl t 0 h

theorem C11_udOffset_cases (lam : Nat) :
    (∀ i ctx, udOffset lam (var i) ctx = 0) ∧
    (∀ b ctx, udOffset lam (abs b) ctx = (if ctx > 1 then 1 else 0) + (1 + udOffset lam b 0)) ∧
    (∀ l r ctx, udOffset lam (app l r) ctx = (if ctx == 3 then 1 else 0) +
      (if hasUD l then udOffset lam l 2 else (showDbr lam l 2).length + udOffset lam r 3)) :=
  ⟨fun _ _ => rfl, fun _ _ => rfl, fun _ _ _ => rfl⟩

/-- in particular it is an error, whatever the index -/
theorem C11_ud_parse_error (cls : CharCls) (hc : C11.HexOk cls) (hu : cls.digit16 117 = none)
    (hw : cls.isWs 117 = false) (lam : Nat) (hl : lam = 955 ∨ lam = 92) (t : Term)
    (h : hasUD t = true) :
    ∃ e, parse cls (debug lam t) .DeBruijn = .err e :=
  ⟨_, C11_ud_not_parsed cls hc hu hw lam hl t h⟩

/-! ## 2. `UD`-free terms with an index ≥ 16: parsed, but to another term -/

/-- C11, outside the domain (large indices): the Debug output of every `UD`-free term parses in De Bruijn
notation, to `readBack t` — every index read as the string of its hexadecimal digits, one index per digit, `0`
being `UD` -/
theorem C11_large_index_reads_digits (cls : CharCls) (hc : C11.HexOk cls) (lam : Nat)
    (hl : lam = 955 ∨ lam = 92) (t : Term) (h : hasUD t = false) :
    parse cls (debug lam t) .DeBruijn = .ok (readBack t) := by
  unfold parse
  have h1 : tokenizeDbr cls (debug lam t) = .ok (C11.toks (readBack t) 0) := by
    rw [toks_readBack_top]; exact lex_debugH cls hc lam hl t h
  simp only [h1, C11.map_ok, C11.getAst_toks, C11.foldExprs_exprs]

/-- what `readBack` does, case by case: a numeral standing alone (whole term, body, operator) is the
left-nested application of its digits; a numeral in operand position continues the application it stands in;
everything else is kept -/
theorem C11_readBack_cases :
    (∀ i, readBack (var i) = digitsTerm (hexDigits i)) ∧
    (∀ b, readBack (abs b) = abs (readBack b)) ∧
    (∀ l i, readBack (app l (var i)) = appVars (readBack l) (hexDigits i)) ∧
    (∀ l r, (∀ i, r ≠ var i) → readBack (app l r) = app (readBack l) (readBack r)) ∧
    (∀ d ds, digitsTerm (d :: ds) = appVars (var d) ds) ∧
    (∀ f, appVars f [] = f) ∧
    (∀ f d ds, appVars f (d :: ds) = appVars (app f (var d)) ds) :=
  ⟨fun _ => rfl, fun _ => rfl, fun _ _ => rfl, readBack_app_nonvar, fun _ _ => rfl, fun _ => rfl,
    fun _ _ _ => rfl⟩

/-- `var 16` prints `10`, read as `1 0`; `1 (var 16)` prints `110`, read as `(1 1) 0`; `var 171` prints `AB`,
read as `10 11`; `λ.(var 256) 1` prints `λ1001`, read as `λ. 1 0 0 1` -/
example : readBack (var 16) = app (var 1) (var 0) := by decide +kernel
example : readBack (app (var 1) (var 16)) = app (app (var 1) (var 1)) (var 0) := by decide +kernel
example : readBack (var 171) = app (var 10) (var 11) := by decide +kernel
example : readBack (abs (app (var 256) (var 1))) =
    abs (app (app (app (var 1) (var 0)) (var 0)) (var 1)) := by decide +kernel

/-- on the domain of C11 nothing changes -/
theorem C11_readBack_small (t : Term) (h : smallIdx t = true) : readBack t = t :=
  readBack_small t h

/-- outside it (and without `UD`) the term read back has more variable occurrences than `t`: one per
hexadecimal digit -/
theorem C11_readBack_more_vars (t : Term) (hu : hasUD t = false) (hs : smallIdx t = false) :
    C11.numVars t < C11.numVars (readBack t) := by
  rw [numVars_readBack]; exact digitCount_gt t hu hs

theorem C11_readBack_ne (t : Term) (hu : hasUD t = false) (hs : smallIdx t = false) :
    readBack t ≠ t := by
  intro he
  have := C11_readBack_more_vars t hu hs
  rw [he] at this
  exact Nat.lt_irrefl _ this

/-- C11, sharpness (indices ≥ 16): for a `UD`-free term with an index outside 1..=15 the Debug output is a
well-formed De Bruijn string — it parses — but the result is NOT `t` -/
theorem C11_large_index_not_roundtrip (cls : CharCls) (hc : C11.HexOk cls) (lam : Nat)
    (hl : lam = 955 ∨ lam = 92) (t : Term) (hu : hasUD t = false) (hs : smallIdx t = false) :
    ∃ u, parse cls (debug lam t) .DeBruijn = .ok u ∧ u ≠ t :=
  ⟨readBack t, C11_large_index_reads_digits cls hc lam hl t hu, C11_readBack_ne t hu hs⟩

/-! ## 3. the round trip holds exactly on the stated domain -/

/-- C11, both directions: parsing the Debug output gives back the term IFF all its indices are in 1..=15 -/
theorem C11_roundtrip_iff (cls : CharCls) (hc : C11.HexOk cls) (hu : cls.digit16 117 = none)
    (hw : cls.isWs 117 = false) (lam : Nat) (hl : lam = 955 ∨ lam = 92) (t : Term) :
    parse cls (debug lam t) .DeBruijn = .ok t ↔ smallIdx t = true := by
  constructor
  · intro hp
    cases hud : hasUD t with
    | true =>
      rw [C11_ud_not_parsed cls hc hu hw lam hl t hud] at hp
      exact Outcome.noConfusion hp
    | false =>
      cases hs : smallIdx t with
      | true => rfl
      | false =>
        rw [C11_large_index_reads_digits cls hc lam hl t hud] at hp
        exact absurd (Outcome.ok.inj hp) (C11_readBack_ne t hud hs)
  · exact C11_roundtrip cls hc lam hl t

/-! ## 4. non-vacuity -/

namespace C11S.Examples

theorem ascii_u_digit : C11.asciiCls.digit16 117 = none := by decide
theorem ascii_u_ws : C11.asciiCls.isWs 117 = false := by decide

/-- `λ.(λ.1 F) (UD 2)` prints `λ(λ1F)(undefined2)`: the first `u` has index 7 -/
def withUD : Term := abs (app (abs (app (var 1) (var 15))) (app (var 0) (var 2)))

example : hasUD withUD = true := by decide
example : udOffset 955 withUD 0 = 7 := by decide +kernel
example : debug 955 withUD =
    [955, 40, 955, 49, 70, 41, 40, 117, 110, 100, 101, 102, 105, 110, 101, 100, 50, 41] := by
  decide +kernel

example : parse C11.asciiCls (debug 955 withUD) .DeBruijn = .err (.InvalidCharacter 7 117) := by
  have h := C11_ud_not_parsed C11.asciiCls C11.asciiCls_hexOk ascii_u_digit ascii_u_ws 955 (.inl rfl)
    withUD (by decide)
  have hi : (debug 955 withUD).idxOf 117 = 7 := by decide +kernel
  rwa [hi] at h

/-- two `UD`s and a large index before them: `(var 16) UD UD` prints `10undefinedundefined`, error at 2 -/
example : parse C11.asciiCls (debug 92 (app (app (var 16) (var 0)) (var 0))) .DeBruijn
    = .err (.InvalidCharacter 2 117) := by
  have h := C11_ud_not_parsed C11.asciiCls C11.asciiCls_hexOk ascii_u_digit ascii_u_ws 92 (.inr rfl)
    (app (app (var 16) (var 0)) (var 0)) (by decide)
  have hi : (debug 92 (app (app (var 16) (var 0)) (var 0))).idxOf 117 = 2 := by decide +kernel
  rwa [hi] at h

/-- `λ.(var 27) (var 16) (λ.(var 300))` prints `λ1B10(λ12C)` and reads back as `λ. 1 11 1 0 (λ. 1 2 12)` -/
def large : Term := abs (app (app (var 27) (var 16)) (abs (var 300)))

example : hasUD large = false ∧ smallIdx large = false := by decide
example : debug 955 large = [955, 49, 66, 49, 48, 40, 955, 49, 50, 67, 41] := by decide +kernel

example : parse C11.asciiCls (debug 955 large) .DeBruijn =
    .ok (abs (app (app (app (app (var 1) (var 11)) (var 1)) (var 0))
      (abs (app (app (var 1) (var 2)) (var 12))))) := by
  have h := C11_large_index_reads_digits C11.asciiCls C11.asciiCls_hexOk 955 (.inl rfl) large (by decide)
  have hr : readBack large = abs (app (app (app (app (var 1) (var 11)) (var 1)) (var 0))
      (abs (app (app (var 1) (var 2)) (var 12)))) := by decide +kernel
  rwa [hr] at h

example : ∃ u, parse C11.asciiCls (debug 955 large) .DeBruijn = .ok u ∧ u ≠ large :=
  C11_large_index_not_roundtrip C11.asciiCls C11.asciiCls_hexOk 955 (.inl rfl) large (by decide) (by decide)

/-- the equivalence, instantiated in both directions -/
example : parse C11.asciiCls (debug 955 C11.sample) .DeBruijn = .ok C11.sample :=
  (C11_roundtrip_iff C11.asciiCls C11.asciiCls_hexOk ascii_u_digit ascii_u_ws 955 (.inl rfl) C11.sample).2
    (by decide)

example : parse C11.asciiCls (debug 955 large) .DeBruijn ≠ .ok large := fun h =>
  absurd ((C11_roundtrip_iff C11.asciiCls C11.asciiCls_hexOk ascii_u_digit ascii_u_ws 955 (.inl rfl)
    large).1 h) (by decide)

example : parse C11.asciiCls (debug 955 withUD) .DeBruijn ≠ .ok withUD := fun h =>
  absurd ((C11_roundtrip_iff C11.asciiCls C11.asciiCls_hexOk ascii_u_digit ascii_u_ws 955 (.inl rfl)
    withUD).1 h) (by decide)

end C11S.Examples

end LC
