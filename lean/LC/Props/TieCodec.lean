/-
TIE (trusted-base reduction): the line protocol of the driver carries values faithfully.

The correspondence check (DESIGN §3.2) pipes operation lines to the compiled driver, which decodes terms, numbers,
tokens, expressions, ... from the words of the line (`LC/Drv/Codec.lean`), runs MODEL functions and prints the results.
These theorems are about the functions the driver actually runs.  The wire format they refer to (`termWords`, `Spells`,
`orderWord`, `charWord`, `exprWords`, `cpsWords`, `res…Words`, `Words`, `lineOf`) is specified in `LC/Drv/Wire.lean`.

 * ROUND TRIP: every decoder inverts the corresponding printer / wire format, leaving the rest of the line untouched;
 * INJECTIVITY: no two different model results print the same line;
 * TOTALITY: the decoders accept exactly the wire format and answer `none` (the driver prints `bad-op`) on anything else;
 * the fuel-indexed decoders of `Codec.lean` satisfy the defining equations of the recursive functions they replaced.
The theorems about whole operations (`exec line = printer (model function arguments)`) are in `TieCodecExec.lean`.
-/
import LC.Proofs.DriverCodecExpr

open LC LC.Term LC.Parser Drv

/-! ## numbers -/

/-- a printed number is read back as itself -/
theorem TIE_codec_nat_roundtrip (n : Nat) : (toString n).toNat? = some n := toNat?_toString n

example : (toString 18446744073709551615).toNat? = some 18446744073709551615 := TIE_codec_nat_roundtrip _

/-- a printed integer is read back as itself (`signed`) -/
theorem TIE_codec_int_roundtrip (i : Int) : (toString i).toInt? = some i := toInt?_toString i

example : (toString (-3 : Int)).toInt? = some (-3) := TIE_codec_int_roundtrip _

/-- two different numbers never print the same -/
theorem TIE_codec_nat_injective {n m : Nat} (h : toString n = toString m) : n = m := toString_nat_inj h

example : toString 10 ≠ toString 1 := fun h => absurd (TIE_codec_nat_injective h) (by decide)

/-! ## lines and words -/

/-- the driver splits a line of space-separated words into exactly these words -/
theorem TIE_codec_tokenize_line {l : List String} (hl : Words l) : tokenize (lineOf l) = l :=
  tokenize_intercalate hl

example : tokenize "reduce NOR 0 A L 1 2" = ["reduce", "NOR", "0", "A", "L", "1", "2"] := by
  have h : "reduce NOR 0 A L 1 2" = lineOf ["reduce", "NOR", "0", "A", "L", "1", "2"] := by decide
  rw [h]
  exact TIE_codec_tokenize_line (by intro w hw; simp at hw; rcases hw with rfl | rfl | rfl | rfl | rfl | rfl | rfl <;> decide)

/-- what `tokenize` does on ANY line: split the characters at every space, drop the empty pieces -/
theorem TIE_codec_tokenize_spec (line : String) :
    tokenize line = ((line.toList.splitOn ' ').map String.ofList).filter (· ≠ "") := by
  rw [tokenize, splitChar_eq]

example : tokenize "  a  b " = ["a", "b"] := by rw [TIE_codec_tokenize_spec]; decide

/-- two different word lists never make the same line -/
theorem TIE_codec_line_injective {l m : List String} (hl : Words l) (hm : Words m) (h : lineOf l = lineOf m) :
    l = m := intercalate_inj hl hm h

/-- the hypothesis `Words` is needed: a "word" containing a space is split -/
example : lineOf ["a", "b c"] = lineOf ["a b", "c"] := by decide

/-! ## terms -/

/-- the printed form of a term is its words joined by single spaces, and they are words -/
theorem TIE_codec_showTerm_words (t : Term) : showTerm t = lineOf (termWords t) ∧ Words (termWords t) :=
  ⟨showTerm_eq t, termWords_words t⟩

example : showTerm (app (abs (var 1)) (var 2)) = "A L 1 2" := by decide

/-- ROUND TRIP (words): decoding the words of a term gives the term back and leaves the rest untouched -/
theorem TIE_codec_term_roundtrip_words (t : Term) (rest : List String) :
    decTerm (termWords t ++ rest) = some (t, rest) := decTerm_termWords t rest

example : decTerm ["A", "L", "1", "2", "x"] = some (app (abs (var 1)) (var 2), ["x"]) :=
  TIE_codec_term_roundtrip_words (app (abs (var 1)) (var 2)) ["x"]

/-- ROUND TRIP (lines): the driver reads a printed term back as itself -/
theorem TIE_codec_term_roundtrip_line (t : Term) : decTerm (tokenize (showTerm t)) = some (t, []) :=
  decTerm_tokenize_showTerm t

example : decTerm (tokenize "A L 1 2") = some (app (abs (var 1)) (var 2), []) :=
  TIE_codec_term_roundtrip_line (app (abs (var 1)) (var 2))

/-- INJECTIVITY: two different terms never print the same line -/
theorem TIE_codec_showTerm_injective {t u : Term} (h : showTerm t = showTerm u) : t = u := showTerm_inj h

example : showTerm (app (var 1) (var 2)) ≠ showTerm (app (var 12) (var 0)) :=
  fun h => absurd (TIE_codec_showTerm_injective h) (by decide)

/-- the word encoding is prefix-free: a word list starts with the words of at most one term -/
theorem TIE_codec_termWords_prefix_free {t u : Term} {r s : List String}
    (h : termWords t ++ r = termWords u ++ s) : t = u ∧ r = s := termWords_append_inj h

example : termWords (var 1) ++ ["2"] ≠ termWords (var 12) ++ [] :=
  fun h => absurd (TIE_codec_termWords_prefix_free h).1 (by decide)

/-- TOTALITY: `decTerm` succeeds exactly on a spelling of one term (`Spells`: `L`, `A`, and any word
`String.toNat?` reads as a number) followed by the rest it returns; on everything else it answers `none` -/
theorem TIE_codec_decTerm_total {ws : List String} {t : Term} {rest : List String} :
    decTerm ws = some (t, rest) ↔ ∃ pre, ws = pre ++ rest ∧ Spells pre t := decTerm_eq_some_iff

example : decTerm ["A", "07", "1_0", "z"] = some (app (var 7) (var 10), ["z"]) :=
  TIE_codec_decTerm_total.2 ⟨["A", "07", "1_0"], rfl,
    Spells.app (ws := ["07"]) (vs := ["1_0"]) (.var (by toNat_some)) (.var (by toNat_some))⟩

/-- TOTALITY, the refusals: nothing to read -/
theorem TIE_codec_decTerm_empty : decTerm [] = none := decTerm_nil

example : decTerm (tokenize "   ") = none := by
  have : tokenize "   " = [] := by rw [TIE_codec_tokenize_spec]; decide
  rw [this, TIE_codec_decTerm_empty]

/-- TOTALITY, the refusals: a word that is not `L`, `A` or a number (the driver never defaults to some term) -/
theorem TIE_codec_decTerm_bad_word {w : String} (rest : List String) (hL : w ≠ "L") (hA : w ≠ "A")
    (hn : w.toNat? = none) : decTerm (w :: rest) = none := by
  rw [decTerm_num _ _ hL hA, hn]; rfl

example : decTerm ["x", "1"] = none := TIE_codec_decTerm_bad_word _ (by decide) (by decide) (by toNat_none)
example : decTerm ["-1"] = none := TIE_codec_decTerm_bad_word _ (by decide) (by decide) (by toNat_none)
example : decTerm ["l", "1"] = none := TIE_codec_decTerm_bad_word _ (by decide) (by decide) (by toNat_none)

/-- TOTALITY, the refusals: an abstraction without a body, an application without its two arguments -/
theorem TIE_codec_decTerm_truncated {ws : List String} (h : decTerm ws = none) :
    decTerm ("L" :: ws) = none ∧ decTerm ("A" :: ws) = none ∧
    ∀ t, decTerm ("A" :: (termWords t ++ ws)) = none := by
  refine ⟨by simp [decTerm_L, h], by simp [decTerm_A, h], fun t => ?_⟩
  simp [decTerm_A, decTerm_termWords, h]

example : decTerm ["L"] = none ∧ decTerm ["A"] = none ∧ decTerm ["A", "1"] = none := by
  obtain ⟨h1, h2, h3⟩ := TIE_codec_decTerm_truncated TIE_codec_decTerm_empty
  exact ⟨h1, h2, h3 (var 1)⟩

/-- a successful `decTerm` consumes at least one word, and exactly the words of the spelling -/
theorem TIE_codec_decTerm_consumes {ws : List String} {t : Term} {rest : List String}
    (h : decTerm ws = some (t, rest)) : rest.length < ws.length ∧ ∃ pre, ws = pre ++ rest :=
  ⟨decTerm_length h, (decTerm_spells h).imp fun _ h => h.1⟩

example : ∃ pre, ["L", "1", "x"] = pre ++ ["x"] :=
  (TIE_codec_decTerm_consumes (TIE_codec_term_roundtrip_words (abs (var 1)) ["x"])).2

/-- the (fuel-indexed, total) `decTerm` of `Codec.lean` satisfies the four defining equations of the
recursive definition (not checked for termination) it replaced: it IS that function -/
theorem TIE_codec_decTerm_equations :
    decTerm [] = none ∧
    (∀ rest, decTerm ("L" :: rest) = (do let (b, rest') ← decTerm rest; pure (.abs b, rest'))) ∧
    (∀ rest, decTerm ("A" :: rest) =
      (do let (l, r1) ← decTerm rest
          let (r, r2) ← decTerm r1
          pure (.app l r, r2))) ∧
    (∀ w rest, w ≠ "L" → w ≠ "A" → decTerm (w :: rest) = (do let k ← w.toNat?; pure (.var k, rest))) :=
  ⟨decTerm_nil, decTerm_L, decTerm_A, decTerm_num⟩

example : decTerm ["L"] = none := by
  rw [TIE_codec_decTerm_equations.2.1, TIE_codec_decTerm_equations.1]; rfl

/-- ROUND TRIP: `n` terms written one after the other are read back (`mapp`, `vect`, `tuple`) -/
theorem TIE_codec_terms_roundtrip (ts : List Term) (rest : List String) :
    decTerms ts.length ((ts.map termWords).flatten ++ rest) = some (ts, rest) := decTerms_termWords ts rest

example : decTerms 2 ["L", "1", "A", "1", "2", "3"] = some ([abs (var 1), app (var 1) (var 2)], ["3"]) :=
  TIE_codec_terms_roundtrip [abs (var 1), app (var 1) (var 2)] ["3"]

/-- a successful `decTerms n` returns exactly `n` terms (too few terms on the line: `none`) -/
theorem TIE_codec_terms_count {n : Nat} {ws : List String} {ts : List Term} {rest : List String}
    (h : decTerms n ws = some (ts, rest)) : ts.length = n := decTerms_length h

example : decTerms 2 ["1"] = none := by
  have h : decTerm ["1"] = some (var 1, []) := TIE_codec_term_roundtrip_words (var 1) []
  rw [decTerms_succ, h]
  simp [decTerms_succ, decTerm_nil]

/-! ## orders, encodings, error names -/

/-- `orderOf` accepts exactly the seven order words, each for its own order (never a default order) -/
theorem TIE_codec_order_total {w : String} {o : Order} : orderOf w = some o ↔ w = orderWord o :=
  orderOf_eq_some_iff

example : orderOf "HAP" = some .HAP ∧ orderOf "hap" = none ∧ orderOf "" = none := by decide

/-- `encOf` accepts exactly the five encoding words, each for its own encoding -/
theorem TIE_codec_encoding_total {w : String} {e : Enc.Encoding} : encOf w = some e ↔ w = encWord e :=
  encOf_eq_some_iff

example : encOf "stumpfu" = some .StumpFu ∧ encOf "Church" = none := by decide

/-- two different errors never print the same name -/
theorem TIE_codec_errName_injective {e e' : TermError} (h : errName e = errName e') : e = e' := errName_inj h

example : errName .NotAbs ≠ errName .NotApp := by decide

/-- the two truth values print differently -/
theorem TIE_codec_b01_injective {b b' : Bool} (h : b01 b = b01 b') : b = b' := b01_inj h

example : b01 true = "1" ∧ b01 false = "0" := by decide

/-! ## call lists (`hist`) -/

/-- ROUND TRIP: a list of `reduce` calls is read back -/
theorem TIE_codec_calls_roundtrip (cs : List (Order × Nat)) (rest : List String) :
    parseCalls cs.length ((cs.map callWords).flatten ++ rest) = some (cs, rest) := parseCalls_callWords cs rest

example : parseCalls 2 ["NOR", "1", "CBV", "0", "A", "1", "2"] = some ([(.NOR, 1), (.CBV, 0)], ["A", "1", "2"]) :=
  TIE_codec_calls_roundtrip [(.NOR, 1), (.CBV, 0)] ["A", "1", "2"]

/-- a successful `parseCalls n` returns exactly `n` calls -/
theorem TIE_codec_calls_count {n : Nat} {ws : List String} {cs : List (Order × Nat)} {rest : List String}
    (h : parseCalls n ws = some (cs, rest)) : cs.length = n := parseCalls_length h

example : parseCalls 2 ["NOR", "1"] = none := by
  have h : "1".toNat? = some 1 := by toNat_some
  simp [parseCalls, orderOf, h]

/-! ## number lists (`vecn`) -/

/-- ROUND TRIP: `k` printed numbers are read back -/
theorem TIE_codec_nats_roundtrip (ns : List Nat) (rest : List String) :
    decNats ns.length (ns.map toString ++ rest) = some ns := decNats_toString ns rest

example : decNats 3 ["4", "0", "17", "x"] = some [4, 0, 17] := TIE_codec_nats_roundtrip [4, 0, 17] ["x"]

/-- WEAKNESS of the protocol (see the notes): `decNats n` does not insist on `n` numbers — a line with fewer
words is silently read as a shorter list (the count of the decoded list is `min n |words|`, not `n`) -/
theorem TIE_codec_nats_count {n : Nat} {ws : List String} {ns : List Nat} (h : decNats n ws = some ns) :
    ns.length = min n ws.length := decNats_length h

example : decNats 2 ["1"] = some [1] := by
  have : "1".toNat? = some 1 := by toNat_some
  simp [decNats, this]

/-! ## characters (`lexd`, `lexc`, `parse`) -/

/-- ROUND TRIP: a character word `cp:flags:dig` is read back -/
theorem TIE_codec_char_roundtrip (x : Nat × Nat × Nat) : decChar (charWord x) = some x := decChar_charWord x

example : decChar "955:6:16" = some (955, 6, 16) := by
  have : "955:6:16" = charWord (955, 6, 16) := by decide
  rw [this]; exact TIE_codec_char_roundtrip _

/-- ROUND TRIP: `n` character words are read back -/
theorem TIE_codec_chars_roundtrip (xs : List (Nat × Nat × Nat)) (rest : List String) :
    decChars xs.length (xs.map charWord ++ rest) = some xs := decChars_charWord xs rest

example : decChars 2 ["49:4:1", "955:6:16", "x"] = some [(49, 4, 1), (955, 6, 16)] := by
  have : ["49:4:1", "955:6:16", "x"] = [(49, 4, 1), (955, 6, 16)].map charWord ++ ["x"] := by decide
  rw [this]; exact TIE_codec_chars_roundtrip [(49, 4, 1), (955, 6, 16)] ["x"]

/-- TOTALITY: `decChar` accepts exactly three numbers separated by two colons -/
theorem TIE_codec_char_total {s : String} {x : Nat × Nat × Nat} :
    decChar s = some x ↔ ∃ a b c, splitChar ':' s = [a, b, c] ∧
      a.toNat? = some x.1 ∧ b.toNat? = some x.2.1 ∧ c.toNat? = some x.2.2 := decChar_eq_some_iff

example : decChar "49:4" = none := by
  cases h : decChar "49:4" with
  | none => rfl
  | some x =>
    obtain ⟨a, b, c, hs, -⟩ := TIE_codec_char_total.1 h
    have h2 : splitChar ':' "49:4" = ["49", "4"] := by rw [splitChar_eq]; decide
    rw [h2] at hs
    exact absurd (congrArg List.length hs) (by simp)

/-- WEAKNESS (as for `decNats`): fewer character words than announced are accepted -/
theorem TIE_codec_chars_count {n : Nat} {ws : List String} {xs : List (Nat × Nat × Nat)}
    (h : decChars n ws = some xs) : xs.length = min n ws.length := decChars_length h

example : decChars 3 ["49:4:1"] = some [(49, 4, 1)] := by
  have h : decChar "49:4:1" = some (49, 4, 1) := by
    have : "49:4:1" = charWord (49, 4, 1) := by decide
    rw [this]; exact TIE_codec_char_roundtrip _
  simp [decChars, h]

/-! ## De Bruijn tokens (`ast`; results of `lexd`, `conv`) -/

/-- ROUND TRIP: a printed token is read back -/
theorem TIE_codec_token_roundtrip (t : Token) : decTok (showTok t) = some t := decTok_showTok t

example : decTok "N12" = some (.Number 12) := by
  have : "N12" = showTok (.Number 12) := by decide
  rw [this]; exact TIE_codec_token_roundtrip _

/-- INJECTIVITY: two different tokens never print the same word -/
theorem TIE_codec_showTok_injective {t u : Token} (h : showTok t = showTok u) : t = u := showTok_inj h

example : showTok (.Number 1) ≠ showTok .Lambda := fun h => absurd (TIE_codec_showTok_injective h) (by decide)

/-- TOTALITY: `decTok` accepts exactly `L`, `(`, `)` and `N` followed by a number; everything else is refused -/
theorem TIE_codec_token_total {w : String} {t : Token} :
    decTok w = some t ↔
      (w = "L" ∧ t = .Lambda) ∨ (w = "(" ∧ t = .Lparen) ∨ (w = ")" ∧ t = .Rparen) ∨
      ∃ s n, w = "N" ++ s ∧ s.toNat? = some n ∧ t = .Number n := decTok_eq_some_iff

example : decTok "N" = none ∧ decTok "M1" = none := by
  constructor
  · have : "N" = "N" ++ "" := by decide
    rw [this, decTok_N, toNat?_empty]; rfl
  · cases h : decTok "M1" with
    | none => rfl
    | some t =>
      rcases TIE_codec_token_total.1 h with ⟨h, -⟩ | ⟨h, -⟩ | ⟨h, -⟩ | ⟨s, n, h, -⟩
      · exact absurd h (by decide)
      · exact absurd h (by decide)
      · exact absurd h (by decide)
      · exact absurd h (ne_of_head (c := 'M') (d := 'N') (cs := ['1']) (ds := s.toList) (by decide) (by simp) (by decide))

/-! ## names and classic tokens (`conv`; results of `lexc`) -/

/-- ROUND TRIP: a printed name (code points joined by dots) is read back -/
theorem TIE_codec_name_roundtrip (n : List Nat) : decName (showName n) = some n := decName_showName n

example : decName "97.98" = some [97, 98] ∧ decName "" = some [] := by
  constructor
  · have : "97.98" = showName [97, 98] := by decide
    rw [this]; exact TIE_codec_name_roundtrip _
  · exact TIE_codec_name_roundtrip []

/-- ROUND TRIP: a printed classic token is read back -/
theorem TIE_codec_ctoken_roundtrip (t : CToken) : decCTok (showCTok t) = some t := decCTok_showCTok t

example : decCTok "CL:97.98" = some (.CLambda [97, 98]) := by
  have : "CL:97.98" = showCTok (.CLambda [97, 98]) := by decide
  rw [this]; exact TIE_codec_ctoken_roundtrip _

/-- INJECTIVITY: two different classic tokens never print the same word -/
theorem TIE_codec_showCTok_injective {t u : CToken} (h : showCTok t = showCTok u) : t = u := showCTok_inj h

example : showCTok (.CLambda [97]) ≠ showCTok (.CName [97]) :=
  fun h => absurd (TIE_codec_showCTok_injective h) (by decide)

/-- TOTALITY: `decCTok` accepts exactly `(`, `)`, and `CL:` / `CN:` followed by a name -/
theorem TIE_codec_ctoken_total {w : String} {t : CToken} :
    decCTok w = some t ↔
      (w = "(" ∧ t = .CLparen) ∨ (w = ")" ∧ t = .CRparen) ∨
      (∃ s n, w = "CL:" ++ s ∧ decName s = some n ∧ t = .CLambda n) ∨
      (∃ s n, w = "CN:" ++ s ∧ decName s = some n ∧ t = .CName n) := decCTok_eq_some_iff

example : decCTok "CX:5" = none := by
  cases h : decCTok "CX:5" with
  | none => rfl
  | some t =>
    rcases TIE_codec_ctoken_total.1 h with ⟨h, -⟩ | ⟨h, -⟩ | ⟨s, n, h, -⟩ | ⟨s, n, h, -⟩
    · exact absurd h (by decide)
    · exact absurd h (by decide)
    · have := congrArg String.toList h; simp at this
    · have := congrArg String.toList h; simp at this

/-- ROUND TRIP for the token lists of `ast` and `conv` (the driver maps the decoder over the words) -/
theorem TIE_codec_tokens_roundtrip (ts : List Token) (cts : List CToken) :
    (ts.map showTok).mapM decTok = some ts ∧ (cts.map showCTok).mapM decCTok = some cts :=
  ⟨mapM_decTok_showTok ts, mapM_decCTok_showCTok cts⟩

example : ["L", "N1", "("].mapM decTok = some [.Lambda, .Number 1, .Lparen] := by
  have : ["L", "N1", "("] = [Token.Lambda, .Number 1, .Lparen].map showTok := by decide
  rw [this]; exact (TIE_codec_tokens_roundtrip _ []).1

/-! ## expression trees (`fold`; result of `ast`) -/

/-- the printed form of an expression is its words joined by single spaces, and they are words -/
theorem TIE_codec_showExpr_words (e : Expression) : showExpr e = lineOf (exprWords e) ∧ Words (exprWords e) :=
  ⟨showExpr_eq e, exprWords_words e⟩

example : showExpr (.Sequence [.Abstraction, .Sequence [.Variable 1], .Sequence []]) = "S3 A S1 V1 S0" :=
  (TIE_codec_showExpr_words _).1.trans (by decide)

/-- ROUND TRIP (words): decoding the words of an expression gives it back and leaves the rest untouched -/
theorem TIE_codec_expr_roundtrip_words (e : Expression) (rest : List String) :
    decExpr (exprWords e ++ rest) = some (e, rest) := decExpr_exprWords e rest

example : decExpr ["S2", "A", "V1", "x"] = some (.Sequence [.Abstraction, .Variable 1], ["x"]) := by
  have : ["S2", "A", "V1", "x"] = exprWords (.Sequence [.Abstraction, .Variable 1]) ++ ["x"] := by decide
  rw [this]; exact TIE_codec_expr_roundtrip_words _ _

/-- ROUND TRIP (lines): the driver reads a printed expression back as itself -/
theorem TIE_codec_expr_roundtrip_line (e : Expression) : decExpr (tokenize (showExpr e)) = some (e, []) :=
  decExpr_tokenize_showExpr e

example : decExpr (tokenize "S2 A V1") = some (.Sequence [.Abstraction, .Variable 1], []) := by
  have : "S2 A V1" = showExpr (.Sequence [.Abstraction, .Variable 1]) :=
    ((TIE_codec_showExpr_words _).1.trans (by decide)).symm
  rw [this]; exact TIE_codec_expr_roundtrip_line _

/-- ROUND TRIP: `n` expressions written one after the other are read back (`fold`) -/
theorem TIE_codec_exprs_roundtrip (es : List Expression) (rest : List String) :
    decExprs es.length (exprsWords es ++ rest) = some (es, rest) := decExprs_exprsWords es rest

example : decExprs 2 ["A", "V1", "x"] = some ([.Abstraction, .Variable 1], ["x"]) := by
  have : ["A", "V1", "x"] = exprsWords [.Abstraction, .Variable 1] ++ ["x"] := by decide
  rw [this]; exact TIE_codec_exprs_roundtrip [.Abstraction, .Variable 1] ["x"]

/-- a successful `decExpr` consumes a non-empty prefix of the words and returns the rest untouched;
a successful `decExprs n` returns exactly `n` expressions -/
theorem TIE_codec_expr_consumes {ws : List String} {e : Expression} {r : List String} {n : Nat}
    {es : List Expression} :
    (decExpr ws = some (e, r) → r.length < ws.length ∧ ∃ pre, ws = pre ++ r) ∧
    (decExprs n ws = some (es, r) → es.length = n) :=
  ⟨decExpr_consumes, decExprs_length⟩

example : decExprs 2 ["A"] = none := by
  rw [decExprs_succ, decExpr_A]
  simp [decExprs_succ, decExpr_nil]

/-- INJECTIVITY: two different expression trees never print the same -/
theorem TIE_codec_showExpr_injective {e e' : Expression} (h : showExpr e = showExpr e') : e = e' := showExpr_inj h

example : showExpr (.Sequence [.Variable 1, .Variable 2]) ≠ showExpr (.Sequence [.Variable 12]) :=
  fun h => absurd (TIE_codec_showExpr_injective h) (by simp)

/-- the (fuel-indexed, total) `decExpr` / `decExprs` of `Codec.lean` satisfy the defining equations of the mutually
recursive definitions they replaced -/
theorem TIE_codec_decExpr_equations :
    decExpr [] = none ∧
    (∀ w rest, decExpr (w :: rest) =
      if w == "A" then some (.Abstraction, rest)
      else if w.startsWith "V" then do
        let i ← (w.drop 1).toString.toNat?
        pure (.Variable i, rest)
      else if w.startsWith "S" then do
        let n ← (w.drop 1).toString.toNat?
        let (es, rest') ← decExprs n rest
        pure (.Sequence es, rest')
      else none) ∧
    (∀ ts, decExprs 0 ts = some ([], ts)) ∧
    (∀ n ts, decExprs (n+1) ts =
      (do let (e, r) ← decExpr ts
          let (more, r') ← decExprs n r
          pure (e :: more, r'))) :=
  ⟨decExpr_nil, decExpr_cons, decExprs_zero, decExprs_succ⟩

example : decExpr ["A", "x"] = some (.Abstraction, ["x"]) := by
  rw [TIE_codec_decExpr_equations.2.1]; rfl

/-- TOTALITY, the refusals: nothing to read; a sequence shorter than announced -/
theorem TIE_codec_decExpr_refusals :
    decExpr [] = none ∧ decExpr ["S2", "A"] = none ∧ decExpr ["S"] = none ∧ decExpr ["X"] = none := by
  refine ⟨decExpr_nil, ?_, ?_, ?_⟩
  · have : "S2" = "S" ++ toString 2 := by decide
    rw [this, decExpr_S, toNat?_toString]
    simp [decExprs_succ, decExpr_A, decExpr_nil]
  · have : "S" = "S" ++ "" := by decide
    rw [this, decExpr_S, toNat?_empty]; rfl
  · rw [decExpr_cons]; simp

example : decExpr ["S2", "A"] = none := TIE_codec_decExpr_refusals.2.1

/-! ## code-point strings (`show`, `errmsg`, `ordname`) and parse errors -/

/-- the printed form of a code-point string is its length followed by its code points -/
theorem TIE_codec_showCps_words (s : List Nat) : showCps s = lineOf (cpsWords s) ∧ Words (cpsWords s) :=
  ⟨showCps_eq s, cpsWords_words s⟩

example : showCps [955, 49] = "2 955 49" := by decide

/-- INJECTIVITY: two different code-point strings never print the same -/
theorem TIE_codec_showCps_injective {s s' : List Nat} (h : showCps s = showCps s') : s = s' := showCps_inj h

example : showCps [1, 2] ≠ showCps [12] := fun h => absurd (TIE_codec_showCps_injective h) (by decide)

/-- INJECTIVITY: two different parse errors never print the same -/
theorem TIE_codec_showErr_injective {e e' : ParseError} (h : showErr e = showErr e') : e = e' := showErr_inj h

example : showErr (.InvalidCharacter 1 23) ≠ showErr (.InvalidCharacter 12 3) :=
  fun h => absurd (TIE_codec_showErr_injective h) (by decide)

/-! ## result lines: two different model results never print the same line -/

/-- accessors (`acc`, `put`) -/
theorem TIE_codec_resTerm_injective {r r' : Except TermError Term} (h : resTerm r = resTerm r') : r = r' :=
  resTerm_inj h

example : resTerm (.ok (var 1)) ≠ resTerm (.error .NotVar) :=
  fun h => absurd (TIE_codec_resTerm_injective h) (by simp)

theorem TIE_codec_resNat_injective {r r' : Except TermError Nat} (h : resNat r = resNat r') : r = r' :=
  resNat_inj h

example : resNat (.ok 1) ≠ resNat (.ok 10) := fun h => absurd (TIE_codec_resNat_injective h) (by simp)

/-- `unapp`: the separator `,` between the two terms cannot be confused with a term word -/
theorem TIE_codec_resPair_injective {r r' : Except TermError (Term × Term)} (h : resPair r = resPair r') :
    r = r' := resPair_inj h

example : resPair (.ok (app (var 1) (var 2), var 3)) ≠ resPair (.ok (var 1, app (var 2) (var 3))) :=
  fun h => absurd (TIE_codec_resPair_injective h) (by simp)

/-- `lexd` -/
theorem TIE_codec_resToks_injective {r r' : Except ParseError (List Token)} (h : resToks r = resToks r') :
    r = r' := resToks_inj h

example : resToks (.ok [.Number 1, .Number 2]) ≠ resToks (.ok [.Number 12]) :=
  fun h => absurd (TIE_codec_resToks_injective h) (by simp)

/-- `lexc` -/
theorem TIE_codec_resCToks_injective {r r' : Except ParseError (List CToken)} (h : resCToks r = resCToks r') :
    r = r' := resCToks_inj h

example : resCToks (.ok [.CName [1, 2]]) ≠ resCToks (.ok [.CName [12]]) :=
  fun h => absurd (TIE_codec_resCToks_injective h) (by simp)

/-- `conv` -/
theorem TIE_codec_resConv_injective {r r' : Option (List Token)} (h : resConv r = resConv r') : r = r' :=
  resConv_inj h

example : resConv (some []) ≠ resConv none := fun h => absurd (TIE_codec_resConv_injective h) (by simp)

/-- `ast` -/
theorem TIE_codec_resAst_injective {r r' : Except ParseError Expression} (h : resAst r = resAst r') : r = r' :=
  resAst_inj h

example : resAst (.ok (.Sequence [])) ≠ resAst (.error .EmptyExpression) :=
  fun h => absurd (TIE_codec_resAst_injective h) (by simp)

/-- `fold` -/
theorem TIE_codec_resFold_injective {r r' : Except ParseError Term} (h : resFold r = resFold r') : r = r' :=
  resFold_inj h

example : resFold (.ok (var 1)) ≠ resFold (.error .EmptyExpression) :=
  fun h => absurd (TIE_codec_resFold_injective h) (by simp)

/-- `parse`: a term, an error and a panic are told apart -/
theorem TIE_codec_resParse_injective {r r' : Outcome} (h : resParse r = resParse r') : r = r' := resParse_inj h

example : resParse (.err .EmptyExpression) = "err EE" ∧ resParse .panic = "PANIC" ∧
    resParse (.ok (var 1)) = "ok 1" := by decide

/-- `reduce`: the result term, the step count and `fuel` are told apart -/
theorem TIE_codec_resReduce_injective {r r' : Option (Term × Nat)} (h : resReduce r = resReduce r') : r = r' :=
  resReduce_inj h

example : resReduce (some (var 2, 11)) ≠ resReduce (some (var 12, 1)) :=
  fun h => absurd (TIE_codec_resReduce_injective h) (by decide)

/-- `beta` -/
theorem TIE_codec_resBeta_injective {r r' : Option Term} (h : resBeta r = resBeta r') : r = r' := resBeta_inj h

example : resBeta (some (var 1)) ≠ resBeta none := fun h => absurd (TIE_codec_resBeta_injective h) (by simp)
