/-
C09, the no-panic clause completed ("no string whatsoever makes parse panic"): the cursor arithmetic
of the parser cannot underflow or go out of bounds.

`LC/Proofs/Syntax/Cursor.lean` is a second, cursor-faithful model of the recursive functions of
`src/parser.rs` (`_convert_classic_tokens`, `_get_ast`, `fold_exprs`, `fold_terms`): same recursion
as the Rust text (a loop over `tokens.get(*pos)` that calls itself and returns the new `pos`), with
EVERY partial operation checked (`none` = panic; out of fuel is `none` too):

  `tokens.len() - *pos`, `stack.len() - inner_stack_count`, `&exprs[i + 1..]`, `terms.remove(0)`.

Proved here, for ALL token lists / expression lists, every deque, every start position
`≤ tokens.length`:

* `C09_cursor_refines*`  the cursor model never returns `none` and computes exactly what the frozen
                         single-pass model (`convLoop`, `astLoop`, `getAst`, `foldList`/`foldExprs`,
                         `foldTerms`, `parse`) computes;
* `C09_cursor_pos_le*`   the cursor invariants at every call, every loop head and every return.

FINDING (hand argument of DESIGN §1/§7 corrected): `*pos ≤ tokens.len()` is NOT an invariant of
`_convert_classic_tokens`.  After a callee ran into the end of the input, every suspended caller still
executes its `*pos += 1`, so `convert_classic_tokens` of `k` unclosed `(` ends with `*pos =
tokens.len() + k` (`C09_cursor_pos_overshoot`).  It is harmless: what holds is `pos ≤ tokens.len()`
at every CALL (the only place where `tokens.len() - *pos` is evaluated) and `pos ≤ 2 * tokens.len()`
everywhere; `tokens.get` is total.  `_get_ast` does keep `*pos ≤ tokens.len()` throughout (since the
repair F2 an unclosed group is an `Err`, which propagates without touching `*pos`).
-/
import LC.Proofs.Syntax.Cursor

namespace LC
open Term Parser Cursor

/-! ## 1. the cursor model never panics and refines the frozen model -/

/-- C09 (cursor model, the whole functions): `convert_classic_tokens`, `get_ast`, `fold_exprs`,
`fold_terms` in their cursor-faithful form never return `none` (no checked operation fails, the
recursion ends within `tokens.length + 1` resp. `size + 1` steps of fuel) and return what the frozen
model returns -/
theorem C09_cursor_refines (cts : List CToken) (toks : List Token) (es : List Expression)
    (ts : List Term) :
    (convertCur cts ≠ none ∧ convertCur cts = convertClassicTokens cts) ∧
    getAstCur toks = some (getAst toks) ∧
    foldExprsCur es = some (foldExprs es) ∧
    foldTermsC ts = some (foldTerms ts) := by
  refine ⟨⟨?_, convertCur_eq cts⟩, getAstCur_eq toks, foldExprsCur_eq es, foldTermsC_eq ts⟩
  obtain ⟨out, s', p', he, _⟩ :=
    convCall_spec cts (cts.length + 1) [] 0 (Nat.zero_le _) (by omega)
  simp [convertCur, he]

example : convertCur [.CLambda [120], .CLparen, .CName [120], .CName [121], .CRparen, .CName [121]]
    = some [.Lambda, .Lparen, .Number 1, .Number 2, .Rparen, .Number 2] := by decide +kernel
example : getAstCur [.Lambda, .Lparen, .Number 1, .Number 2, .Rparen, .Number 2]
    = some (.ok (.Sequence [.Abstraction, .Sequence [.Variable 1, .Variable 2], .Variable 2])) := rfl
example : getAstCur [.Lparen, .Number 1] = some (.error .InvalidExpression) := rfl
example : foldExprsCur [.Abstraction, .Sequence [.Variable 1, .Variable 2], .Variable 2]
    = some (.ok (abs (app (app (var 1) (var 2)) (var 2)))) := rfl
example : foldExprsCur [.Variable 1, .Abstraction] = some (.error .EmptyExpression) := rfl

/-- C09 (cursor model, `_convert_classic_tokens` at ANY position with ANY deque): a call with
`pos ≤ tokens.length` and fuel `tokens.length + 1 - pos` returns `(out, stack', pos')`, and the frozen
single-pass `convLoop`, started on the rest of the tokens with the reversed deque, a fresh counter `0`
and any counters `cs` of suspended callers, produces `out` followed by what it produces after the
return (`convRest`: nothing when there is no caller, otherwise `convLoop` from `pos' + 1` with the
returned deque and `cs`) -/
theorem C09_cursor_refines_conv (tokens : List CToken) (stack : List (List Nat)) (pos : Nat)
    (hpos : pos ≤ tokens.length) :
    ∃ out stack' pos',
      convCall tokens (tokens.length + 1 - pos) stack pos = some (out, stack', pos') ∧
      ∀ cs, convLoop (tokens.drop pos) stack.reverse (0 :: cs) =
        (fun r => out ++ r) <$> convRest tokens stack' pos' cs := by
  obtain ⟨out, s', p', he, _, _, _, _, h6⟩ :=
    convCall_spec tokens (tokens.length + 1 - pos) stack pos hpos (by omega)
  exact ⟨out, s', p', he, h6⟩

example : convCall [.CName [97], .CLparen, .CLambda [98], .CName [97], .CRparen, .CName [98]] 5
    [[120], [97]] 2 = some ([.Lambda, .Number 2, .Rparen], [[120], [97]], 4) := by decide +kernel

/-- C09 (cursor model, the loop of `_convert_classic_tokens` in ANY state): with
`inner_stack_count ≤ stack.len()` the loop never panics; `Δ` is what it appends to `output` -/
theorem C09_cursor_refines_conv_loop (tokens : List CToken) (stack : List (List Nat)) (pos : Nat)
    (output : List Token) (inner : Nat) (hinner : inner ≤ stack.length) :
    ∃ Δ stack' pos',
      convLoopC tokens (tokens.length + 1 - pos + 1) stack pos output inner
        = some (output ++ Δ, stack', pos') ∧
      ∀ cs, convLoop (tokens.drop pos) stack.reverse (inner :: cs) =
        (fun r => Δ ++ r) <$> convRest tokens stack' pos' cs := by
  obtain ⟨Δ, s', p', he, _, _, _, _, _, h6⟩ :=
    convLoopC_spec tokens (tokens.length + 1 - pos + 1) stack pos output inner (by omega) (by omega)
      hinner
  exact ⟨Δ, s', p', he, h6⟩

/-- the hypothesis of `C09_cursor_refines_conv_loop` is needed: with `inner_stack_count >
stack.len()` a `)` panics (this state is never reached, `C09_cursor_pos_le_reached_conv`) -/
example : convLoopC [.CRparen] 2 [] 0 [] 1 = none := by decide +kernel

/-- C09 (cursor model, `_get_ast` at ANY position, either value of `nested`): a call with
`pos ≤ tokens.length` returns `(r, pos')`; on an empty token slice `r = Err(EmptyExpression)`,
otherwise the frozen `astLoop`, started on the rest of the tokens with an empty `cur` and the
partial vectors `st` of the suspended callers (`nested` ⇔ `st ≠ []`), computes `astRest`: `r` itself
when there is no caller, the error when `r` is one, and otherwise `astLoop` from `pos' + 1` with
the subtree pushed on the caller's vector -/
theorem C09_cursor_refines_ast (tokens : List Token) (pos : Nat) (nested : Bool)
    (hpos : pos ≤ tokens.length) :
    ∃ r pos',
      astCall tokens (tokens.length + 1 - pos) pos nested = some (r, pos') ∧
      (tokens = [] → r = .error .EmptyExpression) ∧
      ∀ st, tokens ≠ [] → nested = !st.isEmpty →
        astLoop (tokens.drop pos) [] st = astRest tokens r pos' st := by
  obtain ⟨r, p', he, _, _, _, _, h6, h7⟩ :=
    astCall_spec tokens (tokens.length + 1 - pos) pos nested hpos (by omega)
  exact ⟨r, p', he, h6, h7⟩

example : astCall [.Lparen, .Number 1, .Lambda, .Rparen, .Number 2] 5 1 true
    = some (.ok (.Sequence [.Variable 1, .Abstraction]), 3) := rfl

/-- C09 (cursor model, the loop of `fold_exprs` at ANY index with ANY `output`): never `none` — the
slice `&exprs[i + 1..]` is in bounds and `fold_terms` never calls `remove(0)` on an empty vector —
and equal to the frozen model's `foldList` on the rest followed by `foldTerms` -/
theorem C09_cursor_refines_fold (exprs : List Expression) (i : Nat) (output : List Term) :
    foldLoopC (esizeL (exprs.drop i) + 1) exprs i output =
      some (match foldList (exprs.drop i) with
            | .ok ts => foldTerms (output ++ ts)
            | .error e => .error e) :=
  foldLoopC_spec _ exprs i output (Nat.le_refl _)

example : foldLoopC 3 [.Variable 7, .Abstraction, .Variable 1] 1 [var 7]
    = some (.ok (app (var 7) (abs (var 1)))) := rfl

/-- C09 (cursor model, `parse`): `parse` composed of the two lexers of the frozen model (they
contain no partial operation) and the cursor functions never panics and returns the frozen model's
result, for every classification, every string and both notations -/
theorem C09_cursor_refines_parse (cls : CharCls) (input : List Nat) (n : Notation) :
    parseCur cls input n ≠ none ∧ toOutcome (parseCur cls input n) = parse cls input n :=
  parseCur_eq cls input n

/-! ## 2. the cursor invariants -/

/-- C09, cursor bounds of `_convert_classic_tokens`, at CALL and RETURN: a call is safe exactly when
`pos ≤ tokens.length` (beyond it `tokens.len() - *pos` underflows); such a call returns with
`pos ≤ pos'`, `pos' ≤ 2 * tokens.length - pos` and a deque that did not shrink, and a return before
the end of the tokens is a return AT a `)`.  The recursive call is made with the cursor at
`pos + 1 ≤ tokens.length` (third conjunct: the loop at a `(` IS the call at `pos + 1` followed by
the rest of the loop at `pos' + 1`). -/
theorem C09_cursor_pos_le (tokens : List CToken) (fuel : Nat) (stack : List (List Nat)) (pos : Nat) :
    (tokens.length < pos → convCall tokens fuel stack pos = none) ∧
    (pos ≤ tokens.length → tokens.length + 1 ≤ fuel + pos →
      ∃ out stack' pos', convCall tokens fuel stack pos = some (out, stack', pos') ∧
        pos ≤ pos' ∧ pos' + pos ≤ 2 * tokens.length ∧
        (pos' < tokens.length → tokens[pos']? = some .CRparen) ∧
        stack.length ≤ stack'.length) ∧
    (∀ output inner, tokens[pos]? = some .CLparen →
      pos + 1 ≤ tokens.length ∧
      convLoopC tokens (fuel + 1) stack pos output inner =
        match convCall tokens fuel stack (pos + 1) with
        | none => none
        | some (out', stack', pos') =>
          convLoopC tokens fuel stack' (pos' + 1) (output ++ [.Lparen] ++ out') inner) := by
  refine ⟨convCall_beyond tokens fuel stack pos, ?_, ?_⟩
  · intro hpos hfuel
    obtain ⟨out, s', p', he, h1, h2, h3, h4, _⟩ := convCall_spec tokens fuel stack pos hpos hfuel
    exact ⟨out, s', p', he, h1, h2, h3, h4⟩
  · intro output inner h
    exact ⟨(drop_of_getElem? h).1, convLoopC_lparen tokens fuel stack pos output inner h⟩

/-- `pos' ≤ tokens.length` is NOT an invariant at return: `convert_classic_tokens` of one unclosed
`(` ends with `*pos = 2 = tokens.len() + 1`, of two with `4 = tokens.len() + 2` -/
theorem C09_cursor_pos_overshoot :
    convCall [.CLparen] 2 [] 0 = some ([.Lparen], [], 2) ∧
    convCall [.CLparen, .CLparen] 3 [] 0 = some ([.Lparen, .Lparen], [], 4) := by
  decide +kernel

/-- C09, cursor bounds of `_convert_classic_tokens` at EVERY loop head reached while
`convert_classic_tokens(tokens)` runs (`ConvLoopAt`: closed under the loop steps, the recursive call
and the return of a callee): `inner_stack_count ≤ stack.len()` (so the subtraction at a `)` cannot
underflow), `*pos ≤ 2 * tokens.len()`, and when the loop head is about to make a recursive call
(`tokens[pos] = (`) the callee is entered with `pos + 1 ≤ tokens.len()`, does not panic and returns
within the bounds of `C09_cursor_pos_le` -/
theorem C09_cursor_pos_le_reached_conv (tokens : List CToken) (stack : List (List Nat)) (pos : Nat)
    (output : List Token) (inner : Nat) (h : ConvLoopAt tokens stack pos output inner) :
    inner ≤ stack.length ∧ pos ≤ 2 * tokens.length ∧
    (tokens[pos]? = some .CLparen →
      pos + 1 ≤ tokens.length ∧
      ∃ out' stack' pos', convCall tokens (tokens.length - pos) stack (pos + 1)
          = some (out', stack', pos') ∧
        pos + 1 ≤ pos' ∧ pos' + (pos + 1) ≤ 2 * tokens.length ∧
        ConvLoopAt tokens stack' (pos' + 1) (output ++ [.Lparen] ++ out') inner) := by
  refine ⟨h.inv.1, h.inv.2, ?_⟩
  intro ht
  have hlt := (drop_of_getElem? ht).1
  obtain ⟨out, s', p', he, h1, h2, _⟩ :=
    convCall_spec tokens (tokens.length - pos) stack (pos + 1) (by omega) (by omega)
  exact ⟨by omega, out, s', p', he, h1, h2, .back h ht he⟩

/-- the reachable states are not vacuous: for `x ( y` the loop heads after the `(` (callee entered at
1), after `y`, and the caller's loop head after the callee ran into the end (`*pos = 4 > 3`) -/
example : ConvLoopAt [.CName [120], .CLparen, .CName [121]] [[121], [120]] 4
    [.Number 1, .Lparen, .Number 2] 0 := by
  have h0 : ConvLoopAt [.CName [120], .CLparen, .CName [121]] [[120]] 1 ([] ++ [.Number 1]) 0 :=
    .free .top rfl rfl
  exact .back (fuel := 2) h0 rfl (by decide +kernel)

/-- C09, cursor bounds of `_get_ast`, at CALL and RETURN: a call with `pos ≤ tokens.length` returns
(`Ok` or `Err`) with `pos ≤ pos' ≤ tokens.length`; `Ok` of a nested call is returned AT a `)`, `Ok` of
the top-level call at the end of the tokens -/
theorem C09_cursor_pos_le_ast (tokens : List Token) (fuel pos : Nat) (nested : Bool)
    (hpos : pos ≤ tokens.length) (hfuel : tokens.length + 1 ≤ fuel + pos) :
    ∃ r pos', astCall tokens fuel pos nested = some (r, pos') ∧
      pos ≤ pos' ∧ pos' ≤ tokens.length ∧
      (∀ e, r = .ok e → nested = true → tokens[pos']? = some .Rparen) ∧
      (∀ e, r = .ok e → nested = false → pos' = tokens.length) := by
  obtain ⟨r, p', he, h1, h2, h3, h4, _⟩ := astCall_spec tokens fuel pos nested hpos hfuel
  exact ⟨r, p', he, h1, h2, h3, h4⟩

/-- C09, cursor bound of `_get_ast` at EVERY loop head reached while `get_ast(tokens)` runs
(`AstLoopAt`): `*pos ≤ tokens.len()`; a recursive call is entered with `pos + 1 ≤ tokens.len()` -/
theorem C09_cursor_pos_le_reached_ast (tokens : List Token) (pos : Nat) (nested : Bool)
    (expr : List Expression) (h : AstLoopAt tokens pos nested expr) :
    pos ≤ tokens.length ∧ (tokens[pos]? = some .Lparen → pos + 1 ≤ tokens.length) :=
  ⟨h.inv, fun ht => (drop_of_getElem? ht).1⟩

example : AstLoopAt [.Lparen, .Number 1, .Rparen, .Lambda] 3 false [.Sequence [.Variable 1]] :=
  .back (fuel := 4) .top rfl rfl

/-- C09, the slice and the `remove` of `fold_exprs` / `fold_terms`: at an `Abstraction` found by the
`enumerate()` loop at index `i` the slice `&exprs[i + 1..]` is in bounds (`i + 1 ≤ exprs.len()`), and
`terms.remove(0)` on a non-empty vector yields its first element and the rest -/
theorem C09_cursor_fold_slice (exprs : List Expression) (i : Nat)
    (h : exprs[i]? = some .Abstraction) (t : Term) (ts : List Term) :
    i + 1 ≤ exprs.length ∧ sliceFrom exprs (i + 1) = some (exprs.drop (i + 1)) ∧
    removeAt (t :: ts) 0 = some (t, ts) := by
  have hlt := (drop_of_getElem? h).1
  refine ⟨hlt, ?_, rfl⟩
  unfold sliceFrom
  rw [if_pos (show i + 1 ≤ exprs.length from hlt)]

/-- the checks are real: a slice beyond the end and `remove(0)` of an empty vector are `none` -/
example : sliceFrom [Expression.Abstraction] 2 = none ∧ removeAt ([] : List Term) 0 = none :=
  ⟨rfl, rfl⟩

end LC
