/-
C04 / C07 — how much recursion depth (fuel) a run needs: quantitative versions of
"limited calls always return" (`C04_total`).

`fuel` in `Model/Reduce.lean` bounds the DEPTH OF THE CALL TREE of the seven traversals (what the
Rust stack bounds).  Every traversal re-enters itself after each contraction
(`self.eval(count); self.beta_nor(limit, count)`), so the depth grows with the number of
consecutive contractions at one node, not only with the nesting of the input (DESIGN §9, "Stack
exhaustion").

 * LOWER bound: on `Ω = (λx.x x)(λx.x x)` — a 7-node term that never grows — every order needs fuel
   `L + k` (k = 1 for NOR, CBN, CBV; k = 3 for HSP, HNO, APP, HAP) under a limit `L ≠ 0`, exactly.
 * UPPER bound, every term and order: a run of `c` contractions whose iterates `t₀, …, t_c` all
   have height ≤ `H` returns with fuel `c + H + 1` (`C04_fuel_upper`): along a chain of nested calls
   the position only descends (≤ `H + 1` calls) and every re-entry at a position follows a
   contraction (≤ `c` calls).  NOR/HNO/HAP calling CBN/HSP/CBV on operators does not change the shape.
 * Normal forms (`c = 0`): fuel `height t + 1` suffices — the pure "deep input" case.
-/
import LC.Proofs.FuelBounds
import LC.Proofs.FuelBoundsUpperAll
import LC.Proofs.FuelBoundsNormal
import LC.Props.C04

namespace LC
open Term Spec

/-- `Ω = (λx. x x)(λx. x x)` is the term of the task statement -/
example : FB.Om = app (abs (app (var 1) (var 1))) (abs (app (var 1) (var 1))) := rfl

/-- every one of the seven orders contracts `Ω` (to itself) -/
theorem C04_fuel_omega_step (o : Order) : stepOrd o FB.Om = some FB.Om := by
  cases o <;> decide

/-- C04 (fuel), exact form: under a limit `L ≠ 0` the call on `Ω` is, as a function of the fuel,
"out of fuel" below `L + k` and `(Ω, L)` from `L + k` on (`k = FB.omK o`: 1 for NOR, CBN, CBV and
3 for HSP, HNO, APP, HAP) -/
theorem C04_fuel_omega_eq (o : Order) (L fuel : Nat) (hL : L ≠ 0) :
    reduce o L fuel FB.Om = if L + FB.omK o ≤ fuel then some (FB.Om, L) else none :=
  FB.reduce_Om o L fuel hL

/-- C04 (fuel), the minimal fuel on `Ω`: the call returns `(Ω, L)` iff `fuel ≥ L + k` -/
theorem C04_fuel_omega_exact (o : Order) (L fuel : Nat) (hL : L ≠ 0) :
    reduce o L fuel FB.Om = some (FB.Om, L) ↔ L + FB.omK o ≤ fuel := by
  rw [C04_fuel_omega_eq o L fuel hL]
  by_cases h : L + FB.omK o ≤ fuel <;> simp [h]

/-- C04 (fuel), the minimal fuel on `Ω`: the call returns at all iff `fuel ≥ L + k` -/
theorem C04_fuel_omega_returns_iff (o : Order) (L fuel : Nat) (hL : L ≠ 0) :
    (∃ r, reduce o L fuel FB.Om = some r) ↔ L + FB.omK o ≤ fuel := by
  rw [C04_fuel_omega_eq o L fuel hL]
  by_cases h : L + FB.omK o ≤ fuel <;> simp [h]

/-- C04 (fuel), LOWER bound (the §9 phenomenon in the model): for every order, every limit
`L ≠ 0` and every fuel, a call on `Ω` that returns had more fuel than the limit — the needed call
depth grows linearly with the number of contractions although the term never grows -/
theorem C04_fuel_omega_lower (o : Order) (L fuel : Nat) (hL : L ≠ 0) (r : Term × Nat)
    (h : reduce o L fuel FB.Om = some r) : fuel > L := by
  have h1 := (C04_fuel_omega_returns_iff o L fuel hL).1 ⟨r, h⟩
  have h2 := FB.omK_pos o
  omega

/-- and what it returns is `Ω` itself with the full count -/
theorem C04_fuel_omega_result (o : Order) (L fuel : Nat) (hL : L ≠ 0) (r : Term × Nat)
    (h : reduce o L fuel FB.Om = some r) : r = (FB.Om, L) := by
  rw [C04_fuel_omega_eq o L fuel hL] at h
  by_cases hle : L + FB.omK o ≤ fuel
  · rw [if_pos hle] at h; exact (Option.some.inj h).symm
  · rw [if_neg hle] at h; cases h

/-- the constants -/
example : (FB.omK .NOR, FB.omK .CBN, FB.omK .CBV, FB.omK .HSP, FB.omK .HNO, FB.omK .APP, FB.omK .HAP)
    = (1, 1, 1, 3, 3, 3, 3) := rfl

/-- non-vacuity: limit 5 on `Ω` — NOR returns with fuel 6 and not with 5; HAP needs 8 -/
example : reduce .NOR 5 6 FB.Om = some (FB.Om, 5) ∧ reduce .NOR 5 5 FB.Om = none ∧
    reduce .HAP 5 8 FB.Om = some (FB.Om, 5) ∧ reduce .HAP 5 7 FB.Om = none := by decide

/-! ### the upper bound -/

/-- the explicit fuel: number of contractions + height bound + 1 -/
def fuelBound (c H : Nat) : Nat := c + H + 1

/-- C04 (fuel), UPPER bound for every order, limit (0 included) and term: if the call returns
`(t', c)` for SOME fuel and the iterates `t = t₀, t₁, …, t_c` of the strategy all have height ≤ `H`,
then the explicit fuel `c + H + 1` suffices -/
theorem C04_fuel_upper (o : Order) (L fuel : Nat) (t t' : Term) (c H : Nat)
    (h : reduce o L fuel t = some (t', c))
    (hH : ∀ j ≤ c, ∀ u, Iter (stepOrd o) j t u → height u ≤ H) :
    reduce o L (fuelBound c H) t = some (t', c) :=
  reduce_fuel o L fuel t t' c h H hH _ (Nat.le_refl _)

/-- … and so does every larger fuel -/
theorem C04_fuel_upper_ge (o : Order) (L fuel : Nat) (t t' : Term) (c H : Nat)
    (h : reduce o L fuel t = some (t', c))
    (hH : ∀ j ≤ c, ∀ u, Iter (stepOrd o) j t u → height u ≤ H)
    (g : Nat) (hg : fuelBound c H ≤ g) : reduce o L g t = some (t', c) :=
  reduce_fuel o L fuel t t' c h H hH g hg

/-- C04 (fuel), UPPER bound stated from the strategy alone (no run of the model assumed): whenever
the strategy has a run of `c` steps from `t` to `t'` that the limit allows and that ends at the
limit or in a strategy-normal form (the hypotheses of `reduce_complete`, i.e. exactly the runs
`reduce` performs), and the iterates have height ≤ `H`, then `reduce` returns `(t', c)` with
fuel `c + H + 1` -/
theorem C04_fuel_upper_iter (o : Order) (L : Nat) (t t' : Term) (c H : Nat)
    (it : Iter (stepOrd o) c t t') (h0 : L = 0 → stepOrd o t' = none)
    (hL : L ≠ 0 → c ≤ L ∧ (c < L → stepOrd o t' = none))
    (hH : ∀ j ≤ c, ∀ u, Iter (stepOrd o) j t u → height u ≤ H) :
    reduce o L (fuelBound c H) t = some (t', c) := by
  obtain ⟨fuel, h⟩ := reduce_complete o L c t t' it h0 hL
  exact C04_fuel_upper o L fuel t t' c H h hH

/-- C04 (fuel), quantitative `C04_total`: with a limit `L ≠ 0`, if the first `L` iterates of the
strategy (as far as they exist) have height ≤ `H`, the call returns with fuel `L + H + 1` -/
theorem C04_fuel_total (o : Order) (L : Nat) (hL : L ≠ 0) (t : Term) (H : Nat)
    (hH : ∀ j ≤ L, ∀ u, Iter (stepOrd o) j t u → height u ≤ H) :
    ∃ r, reduce o L (fuelBound L H) t = some r := by
  obtain ⟨k, t', it, hk, hn⟩ := bounded_run_exists (stepOrd o) L t
  obtain ⟨fuel, h⟩ := reduce_complete o L k t t' it (fun h => absurd h hL) (fun _ => ⟨hk, hn⟩)
  exact ⟨_, reduce_fuel o L fuel t t' k h H (fun j hj u iu => hH j (by omega) u iu) _
    (by simp only [fuelBound]; omega)⟩

/-- C04 (fuel), normal forms (`c = 0`, the pure "deep input" case): on a term the strategy does
not contract, fuel `height t + 1` suffices, for every order and limit -/
theorem C04_fuel_normal (o : Order) (L : Nat) (t : Term) (hn : stepOrd o t = none) :
    reduce o L (height t + 1) t = some (t, 0) := by
  have := C04_fuel_upper_iter o L t t 0 (height t) (Iter.zero t) (fun _ => hn)
    (fun _ => ⟨Nat.zero_le _, fun _ => hn⟩) (HB.of_height (Nat.le_refl _))
  simpa [fuelBound] using this

/-- non-vacuity of `C04_fuel_upper`: `(λ.1 1)((λ.1)(λ.1))` under APP: 3 contractions, all iterates
of height ≤ 3, so fuel 7 suffices; the hypotheses hold -/
example : reduce .APP 0 20 (app (abs (app (var 1) (var 1))) (app (abs (var 1)) (abs (var 1))))
      = some (abs (var 1), 3) ∧
    (∀ j ≤ 3, ∀ u, Iter (stepOrd .APP) j
      (app (abs (app (var 1) (var 1))) (app (abs (var 1)) (abs (var 1)))) u → height u ≤ 3) ∧
    reduce .APP 0 (fuelBound 3 3) (app (abs (app (var 1) (var 1))) (app (abs (var 1)) (abs (var 1))))
      = some (abs (var 1), 3) :=
  ⟨by decide, heightsOK_sound (by decide), by decide⟩

/-- non-vacuity of `C04_fuel_total`: `Ω` has height 3 and stays `Ω`; limit 5 returns with fuel 9
(the exact minimum is 6 for NOR and 8 for HAP, above) -/
example : ∃ r, reduce .HAP 5 (fuelBound 5 3) FB.Om = some r :=
  C04_fuel_total .HAP 5 (by decide) FB.Om 3 (heightsOK_sound (by decide))

/-- non-vacuity of `C04_fuel_normal`, and the constant is exact: the normal form `λ.1 (1 1)` of
height 3 returns with fuel 4 and not with fuel 3 -/
example : stepOrd .NOR (abs (app (var 1) (app (var 1) (var 1)))) = none ∧
    height (abs (app (var 1) (app (var 1) (var 1)))) = 3 ∧
    reduce .NOR 0 4 (abs (app (var 1) (app (var 1) (var 1))))
      = some (abs (app (var 1) (app (var 1) (var 1))), 0) ∧
    reduce .NOR 0 3 (abs (app (var 1) (app (var 1) (var 1)))) = none := by decide

/-- C04 (fuel), normal forms, exact: for the four orders that traverse the whole term (NOR, HNO,
APP, HAP — those whose documented normal form is the β-normal form) and a β-normal `t`, the call
returns iff `fuel ≥ height t + 1`, whatever the limit -/
theorem C04_fuel_normal_exact (o : Order) (ho : NF o = isNormal) (L fuel : Nat) (t : Term)
    (hn : isNormal t = true) :
    reduce o L fuel t = some (t, 0) ↔ height t + 1 ≤ fuel := by
  constructor
  · exact reduce_nf_needs o ho L fuel t _ hn
  · intro hle
    have hs : stepOrd o t = none := (RL.stepOrd_none_iff o t).2 (by rw [ho]; exact hn)
    exact C04_fuel_mono o L _ fuel t _ (C04_fuel_normal o L t hs) hle

/-- … and a call that returns at all had that much fuel -/
theorem C04_fuel_normal_lower (o : Order) (ho : NF o = isNormal) (L fuel : Nat) (t : Term)
    (r : Term × Nat) (hn : isNormal t = true) (h : reduce o L fuel t = some r) :
    height t + 1 ≤ fuel :=
  reduce_nf_needs o ho L fuel t r hn h

example : NF .HAP = isNormal ∧ isNormal (abs (app (var 1) (abs (app (var 2) (var 1))))) = true ∧
    height (abs (app (var 1) (abs (app (var 2) (var 1))))) = 4 ∧
    reduce .HAP 7 5 (abs (app (var 1) (abs (app (var 2) (var 1)))))
      = some (abs (app (var 1) (abs (app (var 2) (var 1)))), 0) ∧
    reduce .HAP 7 4 (abs (app (var 1) (abs (app (var 2) (var 1))))) = none := by
  refine ⟨rfl, ?_, ?_, ?_, ?_⟩ <;> decide

/-- the bound `c + H + 1` of `C04_fuel_upper` is attained with contractions too:
`(λ.1 1)(λλ.2) → (λλ.2)(λλ.2) → λλλ.2` under NOR has c = 2, all iterates of height 3, and returns
with fuel 6 = 2 + 3 + 1 but not with fuel 5 -/
example : reduce .NOR 0 6 (app (abs (app (var 1) (var 1))) (abs (abs (var 2))))
      = some (abs (abs (abs (var 2))), 2) ∧
    reduce .NOR 0 5 (app (abs (app (var 1) (var 1))) (abs (abs (var 2)))) = none ∧
    (∀ j ≤ 2, ∀ u, Iter (stepOrd .NOR) j (app (abs (app (var 1) (var 1))) (abs (abs (var 2)))) u →
      height u ≤ 3) ∧ fuelBound 2 3 = 6 :=
  ⟨by decide, by decide, heightsOK_sound (by decide), rfl⟩

end LC
