#!/usr/bin/env python3
"""Confirm a seeded regression and evaluate the checks against it.

  tools/seed_eval.py <scratch worktree> <seed id> <property> [more properties to run...]

1. confirms in the scratch worktree: patch applies to a clean tree; with the patch `cargo test --offline`
   passes; the demo fails with the patch and passes without it;
2. stores patch.diff, demo.rs, meta.json under /verif/seeded/<seed id>/;
3. applies the patch to /repo, runs `bin/check <prop>` for each property, undoes the patch;
4. records the outcome in /verif/seeded/<seed id>/result.json.
"""
import json
import os
import shutil
import subprocess
import sys

VERIF = os.path.dirname(os.path.dirname(os.path.abspath(__file__)))
# evidence of runs against a mutated tree goes to a scratch directory: the tracked /verif/evidence must only ever come
# from runs against /repo itself
ENV = dict(os.environ, CARGO_NET_OFFLINE="true", VERIF_EVIDENCE_DIR=os.path.join(os.path.dirname(os.path.dirname(os.path.abspath(__file__))), ".work", "evidence-of-mutated-trees"))


def sh(cmd, cwd=None, timeout=3600):
    r = subprocess.run(cmd, shell=True, cwd=cwd, stdout=subprocess.PIPE, stderr=subprocess.STDOUT, text=True,
                       env=ENV, timeout=timeout)
    return r.returncode, r.stdout


def main():
    wt, sid, props = sys.argv[1], sys.argv[2], sys.argv[3:]
    seed = os.path.join(wt, "seed")
    patch = os.path.join(seed, "patch.diff")
    demo = os.path.join(seed, "demo.rs")
    meta = json.load(open(os.path.join(seed, "meta.json")))
    ran = []
    # --- 1. confirm in the scratch worktree
    sh("git checkout -- . && rm -f tests/seed_demo.rs", cwd=wt)
    rc, out = sh("git apply --check seed/patch.diff", cwd=wt)
    assert rc == 0, "patch does not apply: " + out
    shutil.copy(demo, os.path.join(wt, "tests", "seed_demo.rs"))
    rc, out = sh("cargo test --offline --test seed_demo 2>&1 | tail -5", cwd=wt)
    ok_without = "test result: ok" in out
    ran.append("without patch: cargo test --offline --test seed_demo -> " + ("pass" if ok_without else "FAIL"))
    os.remove(os.path.join(wt, "tests", "seed_demo.rs"))
    sh("git apply seed/patch.diff", cwd=wt)
    rc, out = sh("cargo test --offline 2>&1 | grep -E '^test result|FAILED|^error' ", cwd=wt)
    suite_ok = "FAILED" not in out and "\nerror" not in ("\n" + out) and "test result: ok" in out
    ran.append("with patch: cargo test --offline (unit+integration+doctests) -> " + ("pass" if suite_ok else "FAIL"))
    shutil.copy(demo, os.path.join(wt, "tests", "seed_demo.rs"))
    rc, out = sh("cargo test --offline --test seed_demo 2>&1 | tail -8", cwd=wt)
    fails_with = "FAILED" in out or "failed" in out
    ran.append("with patch: cargo test --offline --test seed_demo -> " + ("FAIL (as intended)" if fails_with else "pass (demo does not detect)"))
    os.remove(os.path.join(wt, "tests", "seed_demo.rs"))
    confirmed = ok_without and suite_ok and fails_with
    print("\n".join(ran))
    print("confirmed:", confirmed)
    if not confirmed:
        print("NOT KEPT")
        return 1
    # --- 2. store
    dst = os.path.join(VERIF, "seeded", sid)
    os.makedirs(dst, exist_ok=True)
    shutil.copy(patch, os.path.join(dst, "patch.diff"))
    shutil.copy(demo, os.path.join(dst, "demo.rs"))
    meta["confirmed_by"] = ran
    meta["breaks"] = meta.get("property", props[0] if props else "?")
    json.dump(meta, open(os.path.join(dst, "meta.json"), "w"), indent=1, ensure_ascii=False)
    # --- 3. evaluate checks
    rc, out = sh("git -C /repo status --porcelain")
    assert out.strip() == "", "/repo is not clean: " + out
    results = {}
    try:
        rc, out = sh("git -C /repo apply %s" % os.path.join(dst, "patch.diff"))
        assert rc == 0, out
        for p in props:
            rc, out = sh("%s/bin/check %s --tier quick" % (VERIF, p), cwd=VERIF, timeout=7200)
            lines = [l for l in out.splitlines() if not l.startswith("WARNING")]
            viol = [l for l in lines if l.startswith("VIOLATION")]
            results[p] = {"exit": rc, "violation_line": viol[0] if viol else None, "tail": lines[-12:]}
            print("== %s exit=%d %s" % (p, rc, viol[0] if viol else "(no VIOLATION line)"))
            for l in lines[-8:]:
                print("   " + l[:220])
    finally:
        sh("git -C /repo checkout -- .")
        rc, out = sh("git -C /repo status --porcelain")
        print("repo restored:", out.strip() == "")
    json.dump(results, open(os.path.join(dst, "result.json"), "w"), indent=1, ensure_ascii=False)
    return 0


if __name__ == "__main__":
    sys.exit(main())
