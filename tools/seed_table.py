#!/usr/bin/env python3
"""Prints the markdown table of seeded regressions from /verif/seeded/*/{meta,result}.json"""
import glob, json, os
rows = []
for d in sorted(glob.glob(os.path.join(os.path.dirname(os.path.dirname(os.path.abspath(__file__))), "seeded", "*"))):
    try:
        meta = json.load(open(os.path.join(d, "meta.json")))
        res = json.load(open(os.path.join(d, "result.json")))
    except (OSError, ValueError):
        continue
    cells = []
    for p, r in res.items():
        v = r.get("violation_line")
        if v is None:
            cells.append("%s ok" % p)
        elif v.endswith("no-failing-input-found"):
            cells.append("%s nfi" % p)
        else:
            cells.append("%s **input**" % p)
    rows.append("| %s | %s | %s | %s | %s |" % (os.path.basename(d), meta.get("breaks", "?"),
                (meta.get("summary", "") or "").replace("|", "/").replace("\n", " ")[:160],
                (meta.get("needs", "") or "").replace("|", "/").replace("\n", " ")[:160], ", ".join(cells)))
print("| seed | breaks | change | needs | quick checks run (last evaluation) |\n|---|---|---|---|---|")
print("\n".join(rows))
