#!/usr/bin/env python3
"""Source coverage of the crate under the correspondence runs.

  tools/coverage.py [--tier quick]        writes /verif/coverage/report.json, prints the uncovered lines

The correspondence check is differential testing: what it never executes it cannot tie to the model.  This tool builds the
harness (and with it /repo's current working tree) with `-C instrument-coverage` on the nightly toolchain (the one that ships
llvm-profdata / llvm-cov), runs `harness dump-consts` (the regeneration of the 177 constants), the 19 property runs of the given
tier, the boundary runs of C01/C02/C08 and the backslash builds of C10/C11, merges the profiles and reports, per source file of
/repo/src, the regions and lines the runs never executed.  Lines listed in /verif/coverage/accepted.json (file + trimmed text, with a
reason) are accepted as unreachable or out of every property's domain; any OTHER uncovered line is printed as `UNCOVERED` and makes
the tool exit 1 — a generator has a blind spot (this is how the `undefined` arms of the two printers were found unexecuted).

It measures the generators; it proves nothing and decides no property.
"""
import json
import os
import re
import shutil
import subprocess
import sys

VERIF = os.path.dirname(os.path.dirname(os.path.abspath(__file__)))
HARNESS = os.path.join(VERIF, "harness")
TD = os.path.join(HARNESS, "target-cov")
OUT = os.path.join(VERIF, "coverage")
WORK = os.path.join(VERIF, ".work", "coverage")
PROPS = ["C%02d" % i for i in range(1, 20)]


def sh(cmd, cwd=None, env=None, timeout=3600):
    e = dict(os.environ, CARGO_NET_OFFLINE="true")
    if env:
        e.update(env)
    r = subprocess.run(cmd, shell=True, cwd=cwd, stdout=subprocess.PIPE, stderr=subprocess.STDOUT, text=True, env=e, timeout=timeout)
    return r.returncode, r.stdout


def main():
    tier = "quick"
    if "--tier" in sys.argv:
        tier = sys.argv[sys.argv.index("--tier") + 1]
    rc, sysroot = sh("rustc +nightly --print sysroot")
    if rc != 0:
        print("no nightly toolchain: coverage cannot be measured here")
        return 2
    bindir = None
    for root, dirs, files in os.walk(os.path.join(sysroot.strip(), "lib", "rustlib")):
        if "llvm-cov" in files:
            bindir = root
            break
    if not bindir:
        print("the nightly toolchain has no llvm-tools: coverage cannot be measured here")
        return 2
    shutil.rmtree(WORK, ignore_errors=True)
    os.makedirs(WORK)
    os.makedirs(OUT, exist_ok=True)
    bins = {}
    for name, feat in (("default", "hidden_api"), ("backslash", "backslash,hidden_api")):
        td = TD + ("" if name == "default" else "-" + name)
        rc, out = sh("cargo +nightly build --release --offline --no-default-features --features %s --target-dir %s" % (feat, td),
                     cwd=HARNESS, env={"RUSTFLAGS": "-C instrument-coverage"})
        if rc != 0:
            print(out[-2000:])
            return 2
        bins[name] = os.path.join(td, "release", "harness")
    procs = []

    def start(tag, hbin, args):
        o = os.path.join(WORK, tag)
        os.makedirs(o, exist_ok=True)
        cmd = "ulimit -v 16000000; exec %s %s" % (hbin, args.replace("{out}", o))
        procs.append((tag, subprocess.Popen(["bash", "-c", cmd], stdout=subprocess.DEVNULL, stderr=subprocess.DEVNULL,
                                            env=dict(os.environ, LLVM_PROFILE_FILE=os.path.join(WORK, tag + ".profraw")))))

    start("consts", bins["default"], "dump-consts {out}")
    for p in PROPS:
        start(p, bins["default"], "run %s %s 1 {out}" % (p, tier))
    for p in ("C10", "C11"):
        start(p + "-backslash", bins["backslash"], "run %s %s 1 {out}" % (p, tier))
    for p in ("C01", "C02", "C08"):
        start(p + "-boundary", bins["default"], "run %s boundary 1 {out}" % p)
    failed = []
    for tag, pr in procs:
        try:
            pr.wait(timeout=3600)
        except subprocess.TimeoutExpired:
            pr.kill()
            failed.append(tag)
    raws = [os.path.join(WORK, f) for f in os.listdir(WORK) if f.endswith(".profraw")]
    prof = os.path.join(WORK, "all.profdata")
    rc, out = sh("%s/llvm-profdata merge -sparse %s -o %s" % (bindir, " ".join(raws), prof))
    if rc != 0:
        print(out)
        return 2
    objs = " ".join("-object " + b for b in list(bins.values())[1:])
    rc, js = sh("%s/llvm-cov export %s %s -instr-profile=%s --sources /repo/src -summary-only" % (bindir, bins["default"], objs, prof))
    summ = json.loads(js)["data"][0]
    files = {}
    for f in summ["files"]:
        rel = os.path.relpath(f["filename"], "/repo")
        s = f["summary"]
        files[rel] = {"regions": s["regions"]["count"], "regions_missed": s["regions"]["count"] - s["regions"]["covered"],
                      "lines": s["lines"]["count"], "lines_missed": s["lines"]["count"] - s["lines"]["covered"],
                      "functions": s["functions"]["count"], "functions_missed": s["functions"]["count"] - s["functions"]["covered"]}
    rc, show = sh("%s/llvm-cov show %s %s -instr-profile=%s --sources /repo/src --show-regions=false" % (bindir, bins["default"], objs, prof))
    uncovered = []
    cur = None
    for l in show.splitlines():
        m = re.match(r"^(/repo/\S+):$", l)
        if m:
            cur = os.path.relpath(m.group(1), "/repo")
            continue
        m = re.match(r"^\s*(\d+)\|\s*0\|(.*)$", l)
        if m and cur:
            uncovered.append({"file": cur, "line": int(m.group(1)), "text": m.group(2).strip()})
    try:
        accepted = json.load(open(os.path.join(OUT, "accepted.json")))
    except (OSError, ValueError):
        accepted = []

    def reason(u):
        for a in accepted:
            if a["file"] == u["file"] and a["text"] == u["text"]:
                return a["reason"]
        return None

    bad = []
    for u in uncovered:
        r = reason(u)
        if r:
            u["accepted"] = r
        else:
            bad.append(u)
    tot = summ["totals"]
    rep = {"tier": tier, "repo_head": sh("git -C /repo rev-parse HEAD")[1].strip(),
           "repo_dirty": bool(sh("git -C /repo status --porcelain")[1].strip()),
           "runs": sorted(t for t, _ in procs), "runs_failed": failed,
           "totals": {"regions": tot["regions"]["count"], "regions_covered": tot["regions"]["covered"],
                      "lines": tot["lines"]["count"], "lines_covered": tot["lines"]["covered"],
                      "functions": tot["functions"]["count"], "functions_covered": tot["functions"]["covered"]},
           "files": files, "uncovered_lines": uncovered, "uncovered_not_accepted": bad}
    json.dump(rep, open(os.path.join(OUT, "report.json"), "w"), indent=1, ensure_ascii=False)
    print("regions %d/%d  lines %d/%d  functions %d/%d" % (tot["regions"]["covered"], tot["regions"]["count"], tot["lines"]["covered"],
                                                          tot["lines"]["count"], tot["functions"]["covered"], tot["functions"]["count"]))
    for u in uncovered:
        print("%s %s:%d  %s%s" % ("accepted " if "accepted" in u else "UNCOVERED", u["file"], u["line"], u["text"][:90],
                                  ("   [" + u["accepted"][:60] + "]") if "accepted" in u else ""))
    shutil.rmtree(WORK, ignore_errors=True)
    return 1 if (bad or failed) else 0


if __name__ == "__main__":
    sys.exit(main())
