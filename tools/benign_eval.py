#!/usr/bin/env python3
"""Evaluate the checks against a BEHAVIOUR-PRESERVING change: none of them may raise an alarm.

  tools/benign_eval.py <scratch worktree with seed/patch.diff, seed/meta.json> <id> [properties... default all]

Stores patch.diff + meta.json under /verif/benign/<id>/, applies the patch to /repo, runs the baseline test suite and the
quick checks, restores /repo, and records the verdicts in /verif/benign/<id>/result.json.
"""
import json, os, shutil, subprocess, sys
VERIF = os.path.dirname(os.path.dirname(os.path.abspath(__file__)))
# evidence of runs against a mutated tree goes to a scratch directory: the tracked /verif/evidence must only ever come
# from runs against /repo itself
ENV = dict(os.environ, CARGO_NET_OFFLINE="true", VERIF_EVIDENCE_DIR=os.path.join(os.path.dirname(os.path.dirname(os.path.abspath(__file__))), ".work", "evidence-of-mutated-trees"))
ALL = ["C%02d" % i for i in range(1, 20)]

def sh(cmd, cwd=None, timeout=7200):
    r = subprocess.run(cmd, shell=True, cwd=cwd, stdout=subprocess.PIPE, stderr=subprocess.STDOUT, text=True, env=ENV, timeout=timeout)
    return r.returncode, r.stdout

def main():
    wt, bid = sys.argv[1], sys.argv[2]
    props = sys.argv[3:] or ALL
    dst = os.path.join(VERIF, "benign", bid)
    os.makedirs(dst, exist_ok=True)
    shutil.copy(os.path.join(wt, "seed", "patch.diff"), os.path.join(dst, "patch.diff"))
    try:
        meta = json.load(open(os.path.join(wt, "seed", "meta.json")))
    except Exception:
        meta = {}
    json.dump(meta, open(os.path.join(dst, "meta.json"), "w"), indent=1, ensure_ascii=False)
    rc, out = sh("git -C /repo status --porcelain")
    assert out.strip() == "", "/repo is not clean: " + out
    results = {}
    try:
        rc, out = sh("git -C /repo apply %s" % os.path.join(dst, "patch.diff"))
        assert rc == 0, out
        rc, out = sh("cargo test --offline 2>&1 | grep -E '^test result|FAILED|^error'", cwd="/repo")
        results["suite"] = "pass" if ("FAILED" not in out and "\nerror" not in "\n" + out and "test result: ok" in out) else "FAIL"
        print("suite:", results["suite"])
        for p in props:
            rc, out = sh("%s/bin/check %s --tier quick" % (VERIF, p), cwd=VERIF)
            lines = [l for l in out.splitlines() if not l.startswith("WARNING")]
            viol = [l for l in lines if l.startswith("VIOLATION")]
            results[p] = {"exit": rc, "violation_line": viol[0] if viol else None, "tail": lines[-6:]}
            print("== %s exit=%d %s" % (p, rc, viol[0] if viol else lines[-1][:150] if lines else ""))
            if rc != 0:
                for l in lines[-10:]:
                    print("   " + l[:240])
    finally:
        sh("git -C /repo checkout -- . && git -C /repo clean -fdq src")
        rc, out = sh("git -C /repo status --porcelain")
        print("repo restored:", out.strip() == "")
    json.dump(results, open(os.path.join(dst, "result.json"), "w"), indent=1, ensure_ascii=False)
    return 0

if __name__ == "__main__":
    sys.exit(main())
