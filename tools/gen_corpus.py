#!/usr/bin/env python3
"""Writes /verif/corpus/Cxx.ops: operation lines that are executed FIRST in every run of the property (harness main.rs
reads them; model and implementation must agree on them like on any other operation).  They are witnesses of
defects found and repaired in the crate (DESIGN §8: F1, F2, F3, F5, F9 — the others are met in the runners' own universes) and of
seeded regressions that were missed at first, kept so that a
regression of exactly these cases is met on every run whatever the generators do."""
import os, unicodedata
OUT = os.path.join(os.path.dirname(os.path.dirname(os.path.abspath(__file__))), "corpus")

def cw(c):
    flags = (1 if c.isspace() else 0) | ((1 if c.isalpha() else 0) << 1) | ((1 if c.isalnum() else 0) << 2)
    try:
        dig = int(c, 16) if c in "0123456789abcdefABCDEF" else 16
    except ValueError:
        dig = 16
    return "%d:%d:%d" % (ord(c), flags, dig)

def sw(s):
    return "%d %s" % (len(s), " ".join(cw(c) for c in s))

def parse(nota, s):
    return "parse %s %s" % (nota, sw(s))

M = 2 ** 64 - 1
corpus = {
    "C09": ["# F1: non-leading abstraction", parse("d", "1λ2"), parse("c", "a λb.b"), parse("d", "λ2(λ421(5(λ4127)λ8))67"),
            "# F2: unbalanced parentheses", parse("d", "(1"), parse("d", "1)2"), parse("c", "λa.a) b"), parse("c", "(λx. x)) y"),
            "# F9: a backslash ends an identifier", parse("c", "x\\y.y"), parse("c", "\\x.\\x.y\\y."), parse("c", "x \\y.y"),
            "# F11: the glyph λ ends an identifier too", parse("c", "xλy.y"), parse("c", "λx.xλ"), parse("c", "λf.fλx.x f"), parse("c", "xλ"),
            "# F12: empty binder name", parse("c", "λ.x"), parse("c", "\\.x"), parse("c", "λx.λ.x"), parse("c", "x λ.x"),
            "# known finding: λ inside a binder name is a letter", parse("c", "λxλy.x"), parse("c", "\\λ.x"), parse("c", "λλλ"), parse("c", "\\\\\\"),
            "# seed v10: the word Display prints for UD is an ordinary identifier", parse("c", "undefined"), parse("c", "λx.undefined x"),
            "# seed t09: whitespace other than U+0020 ends a name", parse("c", "x\ty"), parse("c", "λx.x　x")],
    "C12": ["# F3: signed numbers use the zero of their own encoding", "signed scott 1", "signed scott -2", "signed parigot 3",
            "# seeds u12/v14: top of the usize range", "enc binary %d" % M, "enc binary %d" % (2 ** 63),
            "# seed v12: None", "numopt church none", "numopt scott none",
            "# seed v16: Parigot list of length 4", "vecn parigot 4 1 0 2 1"],
    "C18": ["# F5: inner abstraction with a free variable", "pred L A 1 L 2", "pred A L L 2 L 1", "pred L A 1 L L 3",
            "# seed u18: spines of different length", "iso A A 1 2 3 A 1 3"],
    "C01": ["# seed w04: HAP head phase with a fresh counter", "reduce HAP 2 A L A A A 1 1 1 1 L 1", "reduce HAP 4 A L A A A A A 1 1 1 1 1 1 L 1",
            "# seed w01: HSP at its limit", "reduce HSP 1 A A L 1 L 1 5", "reduce HNO 1 L A A A A L L 2 L 1 1 A L 1 1 1"],
    "C04": ["# seeds w04 / s04: limits inside nested traversals", "reduce HAP 2 A L A A A 1 1 1 1 L 1", "reduce HNO 2 A A L L 2 L 1 A L 1 1", "reduce NOR 0 L L A 2 A L 1 1"],
    "C02": ["# seed w02: third level of application-separated abstractions in the argument", "apply L L 2 L A 1 L A 1 L 3",
            "# error path leaves the receiver untouched", "apply A 1 L 1 2", "apply 0 1"],
    "C08": ["# seed w08: a UD body is not substituted for", "reduce NOR 0 A L 0 5", "reduce APP 0 A A L L 0 1 2", "apply L 0 7"],
    "C06": ["# seed w06: occurrences at depths deep-shallow-deep", "reduce NOR 0 L A L A A L 2 1 L 2 1", "reduce APP 0 L A L A A L 2 1 L 2 1"],
}
os.makedirs(OUT, exist_ok=True)
for p, lines in corpus.items():
    with open(os.path.join(OUT, p + ".ops"), "w", encoding="utf-8") as f:
        f.write("\n".join(lines) + "\n")
print("wrote", len(corpus), "corpus files")
