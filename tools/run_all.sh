#!/bin/bash
# runs every registered check at the given tier (default quick) on the current tree; prints one line per property
tier=${1:-quick}
cd /verif
for p in C01 C02 C03 C04 C05 C06 C07 C08 C09 C10 C11 C12 C13 C14 C15 C16 C17 C18 C19; do bin/check $p --tier $tier 2>&1 | grep -v "^WARNING" | tail -1; done
python3-vt - <<'PY'
import json,jsonschema,glob
jsonschema.validate(json.load(open('/verif/MANIFEST.json')),json.load(open('/root/.vp/MANIFEST.schema.json')))
bad=0
for f in sorted(glob.glob('/verif/evidence/*.json')):
    e=json.load(open(f))
    try: jsonschema.validate(e,json.load(open('/root/.vp/EVIDENCE.schema.json')))
    except Exception as x: bad+=1; print("INVALID",f,str(x)[:100])
    if e.get("violations"): bad+=1; print("VIOLATIONS in",f)
print("evidence files valid and violation-free" if not bad else "PROBLEMS: %d"%bad)
PY
