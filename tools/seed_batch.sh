#!/bin/bash
# usage: tools/seed_batch.sh <logfile> "<worktree-id> <seed-name> <props...>" ...
log=$1; shift
for x in "$@"; do set -- $x; sid=$1; name=$2; shift 2; echo "##### $sid $name $@"; python3 /verif/tools/seed_eval.py /tmp/seed/$sid $name "$@" 2>&1 | grep -v WARNING; done > $log 2>&1
