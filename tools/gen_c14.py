#!/usr/bin/env python3
"""Writes lean/LC/Props/C14.lean (assembled from the layer-1 theorems; run once, output is committed)."""
HDR = '''/-
C14 — Scott, Parigot, Stump-Fu and binary numerals compute and inter-convert correctly

"For all naturals in range, every operation the Scott (succ, pred, add, mul, pow, is_zero), Parigot
(succ, pred, add, sub, mul, is_zero), Stump-Fu (succ, pred, add, mul, is_zero) and binary (succ,
pred, shl0, shl1, lsb, is_zero, strip) modules export normalises, applied to encodings of its
arguments, to the same encoding of the expected result (binary results compared after strip where
the docs allow leading zeroes). Every cross-encoding conversion (church to scott/parigot/stumpfu,
scott to church, stumpfu to church/scott/parigot) maps the encoding of n to the other encoding of
the same n. This holds under NOR and HNO always and under APP and HAP wherever the documentation
does not exclude them (the Z-based Scott operations are documented as unsuitable for both)."

Same three layers as C13 (see LC/Props/C13.lean): `Computes t n` for ALL arguments (convergence by
induction, termination of NOR/HNO via C07, result of any normalising order via C06), and — **unbounded
too** — `reduce HAP 0` and `reduce APP 0` RETURN the expected encoding for all arguments on every operation
the documentation does not exclude (`C14_*_hap`, `C14_*_app`; big-step eager semantics, one derivation per
operation).  The excluded Z-based Scott operations are shown to DIVERGE under both eager orders
(`C14_scott_z_based_diverge_*`), confirming the documentation.  A small kernel grid is kept as a cross-check.
Binary: bits are Booleans with B0 ≡ TRUE, B1 ≡ FALSE and `lsb` returns the bit; `pred` and `shl0`
may produce a leading zero and are compared after `strip`, as documented; `strip` itself is
specified on ALL bit strings with leading zeroes (`binaryBits`).
-/
import LC.Proofs.Layer2
import LC.Proofs.Grid
import LC.Proofs.Num.ScottParigot
import LC.Proofs.Num.StumpFuBinary
import LC.Proofs.Eager.ScottParigot
import LC.Proofs.Eager.StumpFu
import LC.Proofs.Eager.Binary
import LC.Props.C12
import LC.Props.C13

namespace LC
open Term Spec Enc C13 StumpFuBinary

'''
ENC = {"scott": ("Scott", "intoScott", "C12_normal_scott"), "parigot": ("Parigot", "intoParigot", "C12_normal_parigot"),
       "stumpfu": ("StumpFu", "intoStumpFu", "C12_normal_stumpfu"), "church": ("Church", "intoChurch", "C12_normal_church"),
       "binary": ("Binary", "intoBinary", "C12_normal_binary")}
def nrm(kind):
    if kind == "bool": return "(normal_fromBool _)"
    return f"({ENC[kind][2]} _)"
# (theorem suffix, module enc, op, arity, result expr, result kind, layer1 theorem, eager orders)
OPS = []
def un(e, op, res, kind, thm=None, eager="both"):
    OPS.append((e, op, 1, res, kind, thm or f"{e}_{op}_correct", eager))
def bi(e, op, res, kind, thm=None, eager="both"):
    OPS.append((e, op, 2, res, kind, thm or f"{e}_{op}_correct", eager))
un("scott", "succ", "intoScott (n + 1)", "scott"); un("scott", "pred", "intoScott (n - 1)", "scott")
un("scott", "is_zero", "fromBool (n == 0)", "bool")
bi("scott", "add", "intoScott (m + n)", "scott", eager="none"); bi("scott", "mul", "intoScott (m * n)", "scott", eager="none")
bi("scott", "pow", "intoScott (m ^ n)", "scott", eager="none"); un("scott", "to_church", "intoChurch n", "church", eager="none")
un("parigot", "succ", "intoParigot (n + 1)", "parigot"); un("parigot", "pred", "intoParigot (n - 1)", "parigot")
un("parigot", "is_zero", "fromBool (n == 0)", "bool")
bi("parigot", "add", "intoParigot (m + n)", "parigot"); bi("parigot", "sub", "intoParigot (m - n)", "parigot")
bi("parigot", "mul", "intoParigot (m * n)", "parigot")
un("stumpfu", "succ", "intoStumpFu (n + 1)", "stumpfu"); un("stumpfu", "pred", "intoStumpFu (n - 1)", "stumpfu")
un("stumpfu", "is_zero", "fromBool (n == 0)", "bool")
bi("stumpfu", "add", "intoStumpFu (m + n)", "stumpfu"); bi("stumpfu", "mul", "intoStumpFu (m * n)", "stumpfu")
un("stumpfu", "to_church", "intoChurch n", "church"); un("stumpfu", "to_scott", "intoScott n", "scott")
un("stumpfu", "to_parigot", "intoParigot n", "parigot")
un("church", "to_scott", "intoScott n", "scott"); un("church", "to_parigot", "intoParigot n", "parigot")
un("church", "to_stumpfu", "intoStumpFu n", "stumpfu")
out = [HDR, "/-! ### layers 1 and 2: for all arguments -/\n"]
for e, op, ar, res, kind, thm, eager in OPS:
    mod, into, _ = ENC[e]
    if ar == 1:
        out.append(f"theorem C14_{e}_{op} (n : Nat) : Computes (app Gen.{mod}.{op} ({into} n)) ({res}) :=\n"
                   f"  computes_of_star ({thm} n) {nrm(kind)}\n")
    else:
        out.append(f"theorem C14_{e}_{op} (m n : Nat) :\n    Computes (app2 Gen.{mod}.{op} ({into} m) ({into} n)) ({res}) :=\n"
                   f"  computes_of_star ({thm} m n) {nrm(kind)}\n")
out.append('''/-! binary -/
theorem C14_binary_is_zero (n : Nat) : Computes (app Gen.Binary.is_zero (intoBinary n)) (fromBool (n == 0)) :=
  computes_of_star (binary_is_zero_correct n) (normal_fromBool _)

theorem C14_binary_lsb (n : Nat) :
    Computes (app Gen.Binary.lsb (intoBinary n)) (if n % 2 = 1 then Gen.Binary.b1 else Gen.Binary.b0) :=
  computes_of_star (binary_lsb_correct n) (by split <;> decide)

theorem C14_binary_succ (n : Nat) : Computes (app Gen.Binary.succ (intoBinary n)) (intoBinary (n + 1)) :=
  computes_of_star (binary_succ_correct n) (C12_normal_binary _)

theorem C14_binary_shl1 (n : Nat) : Computes (app Gen.Binary.shl1 (intoBinary n)) (intoBinary (2 * n + 1)) :=
  computes_of_star (binary_shl1_correct n) (C12_normal_binary _)

/-- `shl0` of zero has a leading zero bit: compared after `strip`, as documented -/
theorem C14_binary_shl0 (n : Nat) :
    Computes (app Gen.Binary.strip (app Gen.Binary.shl0 (intoBinary n))) (intoBinary (2 * n)) :=
  computes_of_star (binary_shl0_correct n) (C12_normal_binary _)

/-- `pred` may leave a leading zero bit: compared after `strip`, as documented -/
theorem C14_binary_pred (n : Nat) :
    Computes (app Gen.Binary.strip (app Gen.Binary.pred (intoBinary n))) (intoBinary (n - 1)) :=
  computes_of_star (binary_pred_correct n) (C12_normal_binary _)

/-- `strip` on ARBITRARY bit strings (any number of leading zeroes) yields the canonical numeral -/
theorem C14_binary_strip (bs : List Bool) :
    Computes (app Gen.Binary.strip (binaryBits bs)) (intoBinary (valueOf bs)) :=
  computes_of_star (binary_strip_correct bs) (C12_normal_binary _)

/-- non-vacuity -/
example : ∃ fuel c, reduce .HNO 0 fuel (app2 Gen.Parigot.sub (intoParigot 5) (intoParigot 2))
    = some (intoParigot 3, c) := (C14_parigot_sub 5 2).hno

/-! ### layer 3, unbounded: HAP and APP return the expected encoding for all arguments -/
''')
def eager_thm(e, op, ar, res, order):
    mod, into, _ = ENC[e]
    O = {"hap": ".HAP", "app": ".APP"}[order]
    thm = f"{e}_{op}_{order}"
    if ar == 1:
        return (f"theorem C14_{e}_{op}_{order} (n : Nat) :\n    ∃ fuel c, reduce {O} 0 fuel (app Gen.{mod}.{op} ({into} n)) = some ({res}, c) := by\n"
                f"  have h := ({thm} n).reduce\n  first | exact h | simpa using h\n")
    return (f"theorem C14_{e}_{op}_{order} (m n : Nat) :\n    ∃ fuel c, reduce {O} 0 fuel (app2 Gen.{mod}.{op} ({into} m) ({into} n)) = some ({res}, c) := by\n"
            f"  have h := ({thm} m n).reduce\n  first | exact h | simpa using h\n")
for e, op, ar, res, kind, thm, eager in OPS:
    if eager == "none":
        continue
    out.append(eager_thm(e, op, ar, res, "hap"))
    out.append(eager_thm(e, op, ar, res, "app"))
BIN_E = [("is_zero", "app Gen.Binary.is_zero (intoBinary n)", "fromBool (n == 0)"),
         ("lsb", "app Gen.Binary.lsb (intoBinary n)", "if n % 2 = 1 then Gen.Binary.b1 else Gen.Binary.b0"),
         ("succ", "app Gen.Binary.succ (intoBinary n)", "intoBinary (n + 1)"),
         ("shl1", "app Gen.Binary.shl1 (intoBinary n)", "intoBinary (2 * n + 1)"),
         ("shl0", "app Gen.Binary.strip (app Gen.Binary.shl0 (intoBinary n))", "intoBinary (2 * n)"),
         ("pred", "app Gen.Binary.strip (app Gen.Binary.pred (intoBinary n))", "intoBinary (n - 1)")]
for op, lhs, res in BIN_E:
    for order, O in (("hap", ".HAP"), ("app", ".APP")):
        out.append(f"theorem C14_binary_{op}_{order} (n : Nat) :\n    ∃ fuel c, reduce {O} 0 fuel ({lhs}) = some ({res}, c) := by\n"
                   f"  have h := (binary_{op}_{order} n).reduce\n  first | exact h | simpa using h\n")
for order, O in (("hap", ".HAP"), ("app", ".APP")):
    out.append(f"theorem C14_binary_strip_{order} (bs : List Bool) :\n    ∃ fuel c, reduce {O} 0 fuel (app Gen.Binary.strip (binaryBits bs)) = some (intoBinary (valueOf bs), c) := by\n"
               f"  have h := (binary_strip_{order} bs).reduce\n  first | exact h | simpa using h\n")
out.append('''/-- the Z-based Scott operations do not terminate under HAP on numerals, for any fuel (the documentation says
they overflow the stack under the applicative family) -/
theorem C14_scott_z_based_diverge_hap (m n fuel : Nat) :
    reduce .HAP 0 fuel (app2 Gen.Scott.add (intoScott m) (intoScott n)) = none ∧
    reduce .HAP 0 fuel (app2 Gen.Scott.mul (intoScott m) (intoScott n)) = none ∧
    reduce .HAP 0 fuel (app2 Gen.Scott.pow (intoScott m) (intoScott n)) = none ∧
    reduce .HAP 0 fuel (app Gen.Scott.to_church (intoScott n)) = none :=
  ⟨scott_add_diverges_hap m n fuel, scott_mul_diverges_hap m n fuel, scott_pow_diverges_hap m n fuel,
   scott_to_church_diverges_hap n fuel⟩

/-- … and under APP for ANY argument terms (the combinator Z itself has no APP-normal form) -/
theorem C14_scott_z_based_diverge_app (a b : Term) (fuel : Nat) :
    reduce .APP 0 fuel (app2 Gen.Scott.add a b) = none ∧ reduce .APP 0 fuel (app2 Gen.Scott.mul a b) = none ∧
    reduce .APP 0 fuel (app2 Gen.Scott.pow a b) = none ∧ reduce .APP 0 fuel (app Gen.Scott.to_church a) = none :=
  ⟨scott_add_diverges_app a b fuel, scott_mul_diverges_app a b fuel, scott_pow_diverges_app a b fuel,
   scott_to_church_diverges_app a fuel⟩

/-! ### cross-check grid (BOUNDED; carries no claim any more) -/
''')
for e, op, ar, res, kind, thm, eager in OPS:
    if eager == "none":
        continue
    mod, into, _ = ENC[e]
    if ar == 1:
        out.append(f"set_option maxRecDepth 100000 in\ntheorem C14_grid_{e}_{op} : (List.range 4).all (fun n => (eager false).all (fun o =>\n"
                   f"    Grid.runsTo o FUEL (app Gen.{mod}.{op} ({into} n)) ({res}))) = true := by decide +kernel\n")
    else:
        g = 2
        out.append(f"set_option maxRecDepth 100000 in\ntheorem C14_grid_{e}_{op} : (Grid.range2 {g} {g}).all (fun (m, n) => (eager false).all (fun o =>\n"
                   f"    Grid.runsTo o FUEL (app2 Gen.{mod}.{op} ({into} m) ({into} n)) ({res}))) = true := by decide +kernel\n")
BINOPS = [("is_zero", "app Gen.Binary.is_zero (intoBinary n)", "fromBool (n == 0)"),
          ("lsb", "app Gen.Binary.lsb (intoBinary n)", "if n % 2 = 1 then Gen.Binary.b1 else Gen.Binary.b0"),
          ("succ", "app Gen.Binary.succ (intoBinary n)", "intoBinary (n + 1)"),
          ("shl1", "app Gen.Binary.shl1 (intoBinary n)", "intoBinary (2 * n + 1)"),
          ("shl0", "app Gen.Binary.strip (app Gen.Binary.shl0 (intoBinary n))", "intoBinary (2 * n)"),
          ("pred", "app Gen.Binary.strip (app Gen.Binary.pred (intoBinary n))", "intoBinary (n - 1)"),
          ("strip", "app Gen.Binary.strip (intoBinary n)", "intoBinary n")]
for op, lhs, res in BINOPS:
    out.append(f"set_option maxRecDepth 100000 in\ntheorem C14_grid_binary_{op} : (List.range 9).all (fun n => (eager false).all (fun o =>\n"
               f"    Grid.runsTo o FUEL ({lhs}) ({res}))) = true := by decide +kernel\n")
out.append("end LC\n")
open("/verif/lean/LC/Props/C14.lean", "w").write("\n".join(out))
