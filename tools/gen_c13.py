#!/usr/bin/env python3
"""Writes lean/LC/Props/C13.lean (assembled from the layer-1 theorems; run once, output is committed)."""
HDR = '''/-
C13 — Church arithmetic and comparisons compute the arithmetic of the naturals

"For all naturals m and n, applying each Church-numeral operation (succ, pred, add, sub, mul, pow,
fac, min, max, shl, shr, div, quot, rem with non-zero divisor, is_zero, is_even, is_odd, lt, leq,
eq, neq, geq, gt) to the encodings of its arguments normalises to the encoding of the
mathematically expected number, pair or boolean, with subtraction and predecessor truncated at
zero. This holds under NOR and HNO always, under HAP as well (the recursive operations delay their
branches for that purpose), and under APP for the operations defined without a fixed-point
combinator."

Three layers (DESIGN §7 C13).  `Computes t n` (Proofs/Layer2.lean) packages, for ALL arguments:
  conv   : t ↠ n                                   (layer 1: by induction, Proofs/Num/Church*.lean)
  normal : n is a β-normal form
  nor/hno: reduce NOR / HNO with limit 0 return exactly n for some fuel, i.e. they TERMINATE (via C07)
  any    : whenever reduce under NOR, HNO, APP or HAP with limit 0 returns at all, it returns n
           (via C01, C03, C06) — so for the eager orders the RESULT is proved right for all arguments.
Layer 3 — **now unbounded too**: for ALL arguments, `reduce HAP 0` RETURNS the expected encoding for all 23
operations (`C13_<op>_hap`) and `reduce APP 0` does so for the 19 operations defined without a fixed-point
combinator (`C13_<op>_app`).  Proof: big-step semantics `EvalHap`/`EvalApp` mirroring the eager traversals
(`Proofs/Eager/BigStep.lean`, adequate for the model reducer), one derivation per operation following the
eager evaluation order (closures in operator position, normalisation under binders), by induction on the
numerals; `fac` under APP through a general theorem: APP terminates on every simply typed term.  The four
Z-based operations are shown to DIVERGE under APP for all arguments (`C13_z_based_diverge_under_app`), which
is why the documentation excludes them.  A small kernel-evaluated grid is kept as a cross-check of the
statements (`C13_grid_*`, labelled bounded); it no longer carries any claim.
The operations are the GENERATED constants `Gen.Church.*`, re-extracted from the Rust source on
every run, mentioned by name only.
-/
import LC.Proofs.Layer2
import LC.Proofs.Grid
import LC.Proofs.Num.ChurchB
import LC.Proofs.Eager.ChurchHapA
import LC.Proofs.Eager.ChurchHapB
import LC.Proofs.Eager.ChurchAppA
import LC.Proofs.Eager.ChurchAppB
import LC.Props.C12

namespace LC
open Term Spec Enc ChurchB

namespace C13
theorem normal_fromBool (b : Bool) : isNormal (fromBool b) = true := by cases b <;> decide
theorem normal_tuple2 {a b : Term} (ha : isNormal a = true) (hb : isNormal b = true) :
    isNormal (tuple2 a b) = true := by simp [tuple2, isNormal, isAbs, ha, hb]
end C13
open C13

'''
UN = [  # name, result expr, kind
 ("succ", "intoChurch (n + 1)", "num"), ("pred", "intoChurch (n - 1)", "num"),
 ("is_zero", "fromBool (n == 0)", "bool"), ("is_even", "fromBool (n % 2 == 0)", "bool"),
 ("is_odd", "fromBool (n % 2 == 1)", "bool"), ("fac", "intoChurch (fact n)", "num"),
]
BIN = [
 ("add", "intoChurch (m + n)", "num", False), ("sub", "intoChurch (m - n)", "num", False),
 ("mul", "intoChurch (m * n)", "num", False), ("pow", "intoChurch (m ^ n)", "num", False),
 ("min", "intoChurch (min m n)", "num", False), ("max", "intoChurch (max m n)", "num", False),
 ("lt", "fromBool (decide (m < n))", "bool", False), ("leq", "fromBool (decide (m ≤ n))", "bool", False),
 ("eq", "fromBool (decide (m = n))", "bool", False), ("neq", "fromBool (decide (m ≠ n))", "bool", False),
 ("geq", "fromBool (decide (m ≥ n))", "bool", False), ("gt", "fromBool (decide (m > n))", "bool", False),
 ("shl", "intoChurch (m * 2 ^ n)", "num", False), ("shr", "intoChurch (m / 2 ^ n)", "num", False),
 ("quot", "intoChurch (m / n)", "num", True), ("rem", "intoChurch (m % n)", "num", True),
 ("div", "tuple2 (intoChurch (m / n)) (intoChurch (m % n))", "pair", True),
]
Z_BASED = {"div", "quot", "rem", "shr"}
def normal(kind):
    return {"num": "(normal_intoChurch _)", "bool": "(normal_fromBool _)",
            "pair": "(normal_tuple2 (normal_intoChurch _) (normal_intoChurch _))"}[kind]
out = [HDR]
out.append("/-! ### layers 1 and 2: for all arguments -/\n")
for name, res, kind in UN:
    out.append(f"theorem C13_{name} (n : Nat) : Computes (app Gen.Church.{name} (intoChurch n)) ({res}) :=\n"
               f"  computes_of_star (church_{name}_correct n) {normal(kind)}\n")
for name, res, kind, nz in BIN:
    hyp = " (hn : n ≠ 0)" if nz else ""
    arg = " hn" if nz else ""
    out.append(f"theorem C13_{name} (m n : Nat){hyp} :\n    Computes (app2 Gen.Church.{name} (intoChurch m) (intoChurch n)) ({res}) :=\n"
               f"  computes_of_star (church_{name}_correct m n{arg}) {normal(kind)}\n")
out.append('''/-- non-vacuity: the premises are met by concrete numerals, e.g. 7 / 2 -/
example : ∃ fuel c, reduce .NOR 0 fuel (app2 Gen.Church.div (intoChurch 7) (intoChurch 2))
    = some (tuple2 (intoChurch 3) (intoChurch 1), c) := (C13_div 7 2 (by decide)).nor

/-! ### layer 3, unbounded: the eager orders terminate with the expected result, for all arguments -/
''')
def eager_thm(name, order, res, kind, nz, unary):
    O = {"hap": ".HAP", "app": ".APP"}[order]
    if unary:
        return (f"theorem C13_{name}_{order} (n : Nat) :\n    ∃ fuel c, reduce {O} 0 fuel (app Gen.Church.{name} (intoChurch n)) = some ({res}, c) := by\n"
                f"  have h := (church_{name}_{order} n).reduce\n  first | exact h | simpa using h\n")
    if nz:
        # the eager theorems are stated for divisor n + 1
        return (f"theorem C13_{name}_{order} (m n : Nat) (hn : n ≠ 0) :\n    ∃ fuel c, reduce {O} 0 fuel (app2 Gen.Church.{name} (intoChurch m) (intoChurch n)) = some ({res}, c) := by\n"
                f"  obtain ⟨k, rfl⟩ : ∃ k, n = k + 1 := ⟨n - 1, by omega⟩\n  have h := (church_{name}_{order} m k).reduce\n  first | exact h | simpa using h\n")
    return (f"theorem C13_{name}_{order} (m n : Nat) :\n    ∃ fuel c, reduce {O} 0 fuel (app2 Gen.Church.{name} (intoChurch m) (intoChurch n)) = some ({res}, c) := by\n"
            f"  have h := (church_{name}_{order} m n).reduce\n  first | exact h | simpa using h\n")
for name, res, kind in UN:
    out.append(eager_thm(name, "hap", res, kind, False, True))
    out.append(eager_thm(name, "app", res, kind, False, True))
for name, res, kind, nz in BIN:
    out.append(eager_thm(name, "hap", res, kind, nz, False))
    if name not in Z_BASED:
        out.append(eager_thm(name, "app", res, kind, nz, False))
out.append('''/-- the four Z-based operations do not terminate under APP, for ANY argument terms and any fuel: the operator
`Z F` is normalised under its binders and unfolds forever (which is why the property and the documentation
exclude them under APP) -/
theorem C13_z_based_diverge_under_app (a b : Term) (fuel : Nat) :
    reduce .APP 0 fuel (app2 Gen.Church.quot a b) = none ∧ reduce .APP 0 fuel (app2 Gen.Church.rem a b) = none ∧
    reduce .APP 0 fuel (app2 Gen.Church.div a b) = none ∧ reduce .APP 0 fuel (app2 Gen.Church.shr a b) = none :=
  ⟨church_quot_app_diverges_all a b fuel, church_rem_app_diverges_all a b fuel,
   church_div_app_diverges_all a b fuel, church_shr_app_diverges_all a b fuel⟩

/-- non-vacuity: HAP on 7 / 2 -/
example : ∃ fuel c, reduce .HAP 0 fuel (app2 Gen.Church.div (intoChurch 7) (intoChurch 2))
    = some (tuple2 (intoChurch 3) (intoChurch 1), c) := C13_div_hap 7 2 (by decide)

/-! ### cross-check grid (BOUNDED; carries no claim any more): kernel evaluation of the model reducer.
`Grid.runsTo o fuel t n = true` implies `∃ c, reduce o 0 fuel t = some (n, c)` (`Grid.runsTo_spec`). -/

def FUEL : Nat := 100000
def eager (zBased : Bool) : List Order := if zBased then [.HAP] else [.HAP, .APP]
''')
G1, G2 = 3, 2
for name, res, kind in UN:
    g = 3
    out.append(f"set_option maxRecDepth 100000 in\ntheorem C13_grid_{name} : (List.range {g+1}).all (fun n => (eager false).all (fun o =>\n"
               f"    Grid.runsTo o FUEL (app Gen.Church.{name} (intoChurch n)) ({res}))) = true := by decide +kernel\n")
for name, res, kind, nz in BIN:
    g = 2
    guard = "n == 0 || " if nz else ""
    zb = "true" if name in Z_BASED else "false"
    out.append(f"set_option maxRecDepth 100000 in\ntheorem C13_grid_{name} : (Grid.range2 {g} {g}).all (fun (m, n) => {guard}(eager {zb}).all (fun o =>\n"
               f"    Grid.runsTo o FUEL (app2 Gen.Church.{name} (intoChurch m) (intoChurch n)) ({res}))) = true := by decide +kernel\n")
out.append("end LC\n")
open("/verif/lean/LC/Props/C13.lean", "w").write("\n".join(out))
