#!/usr/bin/env python3
"""Writes lean/LC/Props/C13.lean (assembled from the layer-1 theorems; run once, output is committed)."""
HDR = '''/-
C13 — Church arithmetic and comparisons compute the arithmetic of the naturals

"For all naturals m and n, applying each Church-numeral operation (succ, pred, add, sub, mul, pow,
fac, min, max, shl, shr, div, quot, rem with non-zero divisor, is_zero, is_even, is_odd, lt, leq,
eq, neq, geq, gt) to the encodings of its arguments normalises to the encoding of the
mathematically expected number, pair or boolean, with subtraction and predecessor truncated at
zero. This holds under NOR and HNO always, under HAP as well (the recursive operations delay their
branches for that purpose), and under APP for the operations defined without a fixed-point
combinator."

Three layers (DESIGN §7 C13).  `Computes t n` (Proofs/Layer2.lean) packages, for ALL arguments:
  conv   : t ↠ n                                   (layer 1: by induction, Proofs/Num/Church*.lean)
  normal : n is a β-normal form
  nor/hno: reduce NOR / HNO with limit 0 return exactly n for some fuel, i.e. they TERMINATE (via C07)
  any    : whenever reduce under NOR, HNO, APP or HAP with limit 0 returns at all, it returns n
           (via C01, C03, C06) — so for the eager orders the RESULT is proved right for all arguments.
Layer 3 (bounded, labelled as such): termination of HAP (all operations) and APP (operations
defined without Z) on a finite grid, by evaluating the verified model reducer in the kernel.
The operations are the GENERATED constants `Gen.Church.*`, re-extracted from the Rust source on
every run, mentioned by name only.
-/
import LC.Proofs.Layer2
import LC.Proofs.Grid
import LC.Proofs.Num.ChurchB
import LC.Props.C12

namespace LC
open Term Spec Enc ChurchB

namespace C13
theorem normal_fromBool (b : Bool) : isNormal (fromBool b) = true := by cases b <;> decide
theorem normal_tuple2 {a b : Term} (ha : isNormal a = true) (hb : isNormal b = true) :
    isNormal (tuple2 a b) = true := by simp [tuple2, isNormal, isAbs, ha, hb]
end C13
open C13

'''
UN = [  # name, result expr, kind
 ("succ", "intoChurch (n + 1)", "num"), ("pred", "intoChurch (n - 1)", "num"),
 ("is_zero", "fromBool (n == 0)", "bool"), ("is_even", "fromBool (n % 2 == 0)", "bool"),
 ("is_odd", "fromBool (n % 2 == 1)", "bool"), ("fac", "intoChurch (fact n)", "num"),
]
BIN = [
 ("add", "intoChurch (m + n)", "num", False), ("sub", "intoChurch (m - n)", "num", False),
 ("mul", "intoChurch (m * n)", "num", False), ("pow", "intoChurch (m ^ n)", "num", False),
 ("min", "intoChurch (min m n)", "num", False), ("max", "intoChurch (max m n)", "num", False),
 ("lt", "fromBool (decide (m < n))", "bool", False), ("leq", "fromBool (decide (m ≤ n))", "bool", False),
 ("eq", "fromBool (decide (m = n))", "bool", False), ("neq", "fromBool (decide (m ≠ n))", "bool", False),
 ("geq", "fromBool (decide (m ≥ n))", "bool", False), ("gt", "fromBool (decide (m > n))", "bool", False),
 ("shl", "intoChurch (m * 2 ^ n)", "num", False), ("shr", "intoChurch (m / 2 ^ n)", "num", False),
 ("quot", "intoChurch (m / n)", "num", True), ("rem", "intoChurch (m % n)", "num", True),
 ("div", "tuple2 (intoChurch (m / n)) (intoChurch (m % n))", "pair", True),
]
Z_BASED = {"div", "quot", "rem", "shr"}
def normal(kind):
    return {"num": "(normal_intoChurch _)", "bool": "(normal_fromBool _)",
            "pair": "(normal_tuple2 (normal_intoChurch _) (normal_intoChurch _))"}[kind]
out = [HDR]
out.append("/-! ### layers 1 and 2: for all arguments -/\n")
for name, res, kind in UN:
    out.append(f"theorem C13_{name} (n : Nat) : Computes (app Gen.Church.{name} (intoChurch n)) ({res}) :=\n"
               f"  computes_of_star (church_{name}_correct n) {normal(kind)}\n")
for name, res, kind, nz in BIN:
    hyp = " (hn : n ≠ 0)" if nz else ""
    arg = " hn" if nz else ""
    out.append(f"theorem C13_{name} (m n : Nat){hyp} :\n    Computes (app2 Gen.Church.{name} (intoChurch m) (intoChurch n)) ({res}) :=\n"
               f"  computes_of_star (church_{name}_correct m n{arg}) {normal(kind)}\n")
out.append('''/-- non-vacuity: the premises are met by concrete numerals, e.g. 7 / 2 -/
example : ∃ fuel c, reduce .NOR 0 fuel (app2 Gen.Church.div (intoChurch 7) (intoChurch 2))
    = some (tuple2 (intoChurch 3) (intoChurch 1), c) := (C13_div 7 2 (by decide)).nor

/-! ### layer 3 (BOUNDED): the eager orders terminate on the grid.
`Grid.runsTo o fuel t n = true` implies `∃ c, reduce o 0 fuel t = some (n, c)` (`Grid.runsTo_spec`). -/

def FUEL : Nat := 100000
def eager (zBased : Bool) : List Order := if zBased then [.HAP] else [.HAP, .APP]
''')
G1, G2 = 6, 4
for name, res, kind in UN:
    g = 4 if name == "fac" else G1
    out.append(f"set_option maxRecDepth 100000 in\ntheorem C13_grid_{name} : (List.range {g+1}).all (fun n => (eager false).all (fun o =>\n"
               f"    Grid.runsTo o FUEL (app Gen.Church.{name} (intoChurch n)) ({res}))) = true := by decide +kernel\n")
for name, res, kind, nz in BIN:
    g = 3 if name in ("pow", "shl", "shr") else G2
    guard = "n == 0 || " if nz else ""
    zb = "true" if name in Z_BASED else "false"
    out.append(f"set_option maxRecDepth 100000 in\ntheorem C13_grid_{name} : (Grid.range2 {g} {g}).all (fun (m, n) => {guard}(eager {zb}).all (fun o =>\n"
               f"    Grid.runsTo o FUEL (app2 Gen.Church.{name} (intoChurch m) (intoChurch n)) ({res}))) = true := by decide +kernel\n")
out.append("end LC\n")
open("/verif/lean/LC/Props/C13.lean", "w").write("\n".join(out))
