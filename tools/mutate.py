#!/usr/bin/env python3
"""Mechanical mutation analysis of the tie between the Lean model and the crate.

  tools/mutate.py [--files reduction.rs,term.rs,...] [--jobs 6] [--limit N] [--out mutation/report.json] [--with-tests]

For every mechanical mutant of the hand-modelled source files of /repo (one token changed: a comparison, a boundary,
an arithmetic constant, a boolean connective ...) the crate is copied to a scratch directory OUTSIDE /repo and /verif, the
harness is rebuilt against that copy, and the quick correspondence + oracle runs of the properties anchored in the mutated file
are executed exactly as bin/check does (same harness, same compiled driver, same line diff, same advisory rule).  A mutant is
KILLED when a run reports an oracle failure, a crash/hang, or a non-advisory disagreement with the model; it SURVIVES when
every run is silent.  Survivors are either equivalent mutants (the change cannot be observed) or blind spots of the generators;
the report lists them with file, line and the changed text so that each can be judged.  Nothing here is a proof and nothing here
decides a property: it measures how much of the code's behaviour the correspondence actually pins down.

/repo is never touched: the mutants live in scratch copies made from `git archive HEAD` (+ the working tree's src, so that the
tool measures the tree the checks see).
"""
import importlib.machinery
import importlib.util
import json
import os
import re
import shutil
import subprocess
import sys
import time
from concurrent.futures import ThreadPoolExecutor

VERIF = os.path.dirname(os.path.dirname(os.path.abspath(__file__)))
loader = importlib.machinery.SourceFileLoader("vcheck", os.path.join(VERIF, "bin", "check"))
spec = importlib.util.spec_from_loader("vcheck", loader)
vcheck = importlib.util.module_from_spec(spec)
loader.exec_module(vcheck)

SCRATCH = os.environ.get("MUT_SCRATCH", "/root/scratch/mut")
OPS = None
REPO = "/repo"

# which properties' runs look at which file (the anchors of properties.jsonl, narrowed to the cheap runs first)
FILE_PROPS = {
    "src/reduction.rs": ["C02", "C01", "C03", "C05", "C07", "C06", "C08", "C04"],
    "src/term.rs": ["C19", "C18", "C10", "C11", "C02"],
    "src/parser.rs": ["C09", "C10", "C11"],
    "src/data/num/convert.rs": ["C12", "C14", "C15"],
    "src/data/list/convert.rs": ["C16"],
}
# builds needed per property (default / backslash / wrap), as in bin/check
BACKSLASH_PROPS = ("C10", "C11")

MUTATIONS = [
    (r"==", "!="), (r"!=", "=="),
    (r"<=", "<"), (r">=", ">"),
    (r"(?<![<>=!-])<(?![<=])", "<="), (r"(?<![<>=!-])>(?![>=])", ">="),
    (r"&&", "||"), (r"\|\|", "&&"),
    (r"\+ 1\b", "+ 2"), (r"- 1\b", "- 0"), (r"\+= 1\b", "+= 2"), (r"-= 1\b", "-= 2"),
    (r"\b0\b", "1"), (r"\b1\b", "2"), (r"\b1\b", "0"), (r"\b2\b", "3"), (r"\b3\b", "2"),
    (r"\btrue\b", "false"), (r"\bfalse\b", "true"),
    (r"!(?=[a-zA-Z_(])", ""),
    (r"\bdepth \+ 1\b", "depth"), (r"\bown_depth\b", "0"), (r"\bdepth\b", "(depth + 1)"),
]


# second operator set (`--ops extra`): identifier swaps between sibling functions / fields, and statement deletion
MUTATIONS_EXTRA = [
    (r"\bbeta_cbn\(", "beta_nor("), (r"\bbeta_nor\(", "beta_cbn("), (r"\bbeta_nor\(", "beta_hno("), (r"\bbeta_cbv\(", "beta_app("),
    (r"\bbeta_app\(", "beta_cbv("), (r"\bbeta_app\(", "beta_hap("), (r"\bbeta_hsp\(", "beta_hno("), (r"\bbeta_hsp\(", "beta_cbn("),
    (r"\bbeta_hno\(", "beta_hsp("), (r"\bbeta_hno\(", "beta_nor("), (r"\bbeta_hap\(", "beta_app("), (r"\bbeta_hap\(", "beta_cbv("),
    (r"\blhs_mut\b", "rhs_mut"), (r"\brhs_mut\b", "lhs_mut"), (r"\blhs_ref\b", "rhs_ref"), (r"\brhs_ref\b", "lhs_ref"),
    (r"\blhs\(\)", "rhs()"), (r"\brhs\(\)", "lhs()"),
    (r"\bis_ok\(\)", "is_err()"), (r"\bis_err\(\)", "is_ok()"), (r"\bis_some\(\)", "is_none()"), (r"\bis_none\(\)", "is_some()"),
    (r"\.min\(", ".max("), (r"\.max\(", ".min("),
    (r"\bis_alphabetic\b", "is_alphanumeric"), (r"\bis_alphanumeric\b", "is_alphabetic"), (r"\bis_whitespace\b", "is_alphabetic"),
    (r"\badded_depth\b", "own_depth"), (r"\bcontext_precedence == 3", "context_precedence == 2"), (r"\b26\b", "25"), (r"\b26\b", "27"),
    (r"\b16\b", "10"), (r"\bpush\(", "insert(0, "), (r"\bpop\(\)", "first().cloned()"), (r"\.rev\(\)", ""),
    (r"\bbreak\b", "continue"), (r"\bcontinue\b", "break"), (r"\bstack\.len\(\)", "(stack.len() + 1)"), (r"\*pos \+= 1", "*pos += 0"),
    (r"\bInvalidExpression\b", "EmptyExpression"), (r"\bEmptyExpression\b", "InvalidExpression"),
    (r"\bNotAbs\b", "NotApp"), (r"\bNotApp\b", "NotVar"), (r"\bNotVar\b", "NotAbs"),
    (r"\bi \+ 1\b", "i"), (r"\bi - 1\b", "i"), (r"\bVar\(1\)", "Var(2)"), (r"\bVar\(2\)", "Var(1)"), (r"\bVar\(3\)", "Var(2)"),
]
DELETE_STMT = re.compile(r"^\s*(self\.|\*|[a-z_]+\.)[^=]*\)\s*;\s*$|^\s*\*?[a-z_.]+ (\+|-)= .*;\s*$")


def code_lines(path):
    """(lineno, text) of lines that are code: not comments, not attributes, not inside #[cfg(test)] / macro docs"""
    out = []
    in_tests = False
    for i, l in enumerate(open(path, encoding="utf-8").read().split("\n")):
        s = l.strip()
        if s.startswith("#[cfg(test)]"):
            in_tests = True
        if in_tests:
            continue
        if not s or s.startswith("//") or s.startswith("#[") or s.startswith("#!") or s.startswith("use ") or s.startswith("pub use "):
            continue
        out.append((i, l))
    return out


def mutants_of(rel):
    path = os.path.join(REPO, rel)
    res = []
    seen = set()
    for i, l in code_lines(path):
        code = l.split("//")[0]
        # never touch string literals / generic brackets / arrows
        if '"' in code or "->" in code and re.search(r"fn\s", code):
            if re.search(r"fn\s", code):
                continue
        if OPS is MUTATIONS_EXTRA and DELETE_STMT.match(code):
            res.append({"file": rel, "line": i + 1, "before": l.strip(), "after": "(statement deleted)", "_new": ""})
        for pat, rep in OPS:
            for m in re.finditer(pat, code):
                if '"' in code[:m.start()] and code[:m.start()].count('"') % 2 == 1:
                    continue
                # skip generics such as Vec<Token>, Result<..>, Box<(..)>, &'a, lifetimes, `=>`
                ctx = code[max(0, m.start() - 1):m.end() + 1]
                if pat.startswith("(?<![<>=!-])") and (re.search(r"[A-Za-z_]\s*<\s*[A-Z(&]", code) or "::<" in code or re.search(r"<[A-Za-z_:, ()&']*>", code)):
                    continue
                if "=>" in ctx or "->" in ctx:
                    continue
                new = code[:m.start()] + rep + code[m.end():] + l[len(code):]
                key = (i, new)
                if key in seen or new == l:
                    continue
                seen.add(key)
                res.append({"file": rel, "line": i + 1, "before": l.strip(), "after": new.strip(), "_new": new})
    return res


def sh(cmd, cwd=None, timeout=1800, env=None):
    try:
        r = subprocess.run(cmd, shell=True, cwd=cwd, stdout=subprocess.PIPE, stderr=subprocess.STDOUT, text=True, timeout=timeout,
                           env=env or dict(os.environ, CARGO_NET_OFFLINE="true"))
        return r.returncode, r.stdout
    except subprocess.TimeoutExpired:
        return 124, "timeout"


def prepare_worker(k):
    w = os.path.join(SCRATCH, "w%d" % k)
    shutil.rmtree(w, ignore_errors=True)
    os.makedirs(os.path.join(w, "crate"))
    sh("git -C /repo archive HEAD | tar -x -C %s/crate" % w)
    sh("rsync -a /repo/src/ %s/crate/src/" % w)       # the working tree's sources (= HEAD on a clean tree)
    sh("rsync -a --exclude target --exclude 'target-*' %s/harness/ %s/harness/" % (VERIF, w))
    ct = os.path.join(w, "harness", "Cargo.toml")
    s = open(ct).read().replace('path = "/repo"', 'path = "%s/crate"' % w)
    open(ct, "w").write(s)
    shutil.copy(os.path.join(VERIF, "lean", ".lake", "build", "bin", "driver"), os.path.join(w, "driver"))
    return w


def build(w, backslash):
    td = os.path.join(w, "target-backslash" if backslash else "target")
    feat = " --features backslash,hidden_api" if backslash else " --features hidden_api"
    rc, out = sh("cargo build --release --offline --no-default-features%s --target-dir %s" % (feat, td), cwd=os.path.join(w, "harness"))
    return rc == 0, os.path.join(td, "release", "harness"), out


def judge(w, hbin, prop):
    """returns None when the run is silent, else a short reason"""
    out = os.path.join(w, "out-" + prop)
    shutil.rmtree(out, ignore_errors=True)
    ok, crash = vcheck.run_harness(hbin, prop, "quick", 1, out, 240 if prop == "C04" else 75)
    fails = [f for f in vcheck.read_oracle(out) if not vcheck.is_known(prop, f, KNOWN)]
    if fails:
        return "oracle: " + fails[0]["what"][:160]
    if not ok:
        return "crash/hang: %s" % (crash[0][:120] if crash else "?")
    cmd = "ulimit -s 8000000 2>/dev/null || ulimit -s unlimited 2>/dev/null; exec %s/driver < %s/ops.txt > %s/model.txt" % (w, out, out)
    rc, o = sh("bash -c '%s'" % cmd, timeout=600)
    if rc != 0:
        return "driver failed (inconclusive): " + o[-100:]
    dis, inconclusive, n, ndis = vcheck.compare(out)
    if ndis:
        return "correspondence: %d differing lines, first: %s" % (ndis, dis[0][0][:120])
    if inconclusive:
        return "correspondence inconclusive (fuel)"
    return None


KNOWN = vcheck.known_findings()


def run_mutant(w, m, with_tests):
    rel = m["file"]
    path = os.path.join(w, "crate", rel)
    orig = open(path, encoding="utf-8").read()
    lines = orig.split("\n")
    lines[m["line"] - 1] = m["_new"]
    open(path, "w", encoding="utf-8").write("\n".join(lines))
    res = {k: v for k, v in m.items() if not k.startswith("_")}
    t0 = time.time()
    try:
        ok, hbin, out = build(w, False)
        if not ok:
            res["status"] = "does-not-compile"
            return res
        if with_tests:
            rc, o = sh("cargo test --offline --lib --tests -q 2>&1 | tail -3", cwd=os.path.join(w, "crate"), timeout=600)
            rc2, o2 = sh("cargo test --offline --lib --tests -q > /dev/null 2>&1; echo $?", cwd=os.path.join(w, "crate"), timeout=600)
            res["unit_tests"] = "pass" if o2.strip().endswith("0") else "fail"
        hb = None
        for prop in FILE_PROPS[rel]:
            hb_use = hbin
            if prop in BACKSLASH_PROPS:
                # both builds, as bin/check does: default first
                pass
            why = judge(w, hb_use, prop)
            if why:
                res["status"] = "killed"
                res["by"] = prop
                res["why"] = why
                return res
        res["status"] = "survived"
        return res
    finally:
        open(path, "w", encoding="utf-8").write(orig)
        res["seconds"] = round(time.time() - t0, 1)


def main():
    global OPS
    args = sys.argv[1:]
    files = list(FILE_PROPS)
    jobs, limit, outp, with_tests = 6, None, os.path.join(VERIF, "mutation", "report.json"), False
    while args:
        a = args.pop(0)
        if a == "--files":
            files = ["src/" + f if not f.startswith("src/") else f for f in args.pop(0).split(",")]
        elif a == "--jobs":
            jobs = int(args.pop(0))
        elif a == "--limit":
            limit = int(args.pop(0))
        elif a == "--out":
            outp = args.pop(0)
        elif a == "--ops":
            OPS = MUTATIONS_EXTRA if args.pop(0) == "extra" else MUTATIONS
        elif a == "--with-tests":
            with_tests = True
    rc, st = sh("git -C /repo status --porcelain")
    if OPS is None:
        OPS = MUTATIONS
    muts = []
    for f in files:
        muts += mutants_of(f)
    if limit:
        step = max(1, len(muts) // limit)
        muts = muts[::step][:limit]
    print("%d mutants over %s" % (len(muts), files), flush=True)
    os.makedirs(SCRATCH, exist_ok=True)
    workers = [prepare_worker(k) for k in range(jobs)]
    # warm the target directories (first build is the slow one)
    with ThreadPoolExecutor(jobs) as ex:
        list(ex.map(lambda w: build(w, False), workers))
    # sanity: the unmutated copy must be silent
    base = {}
    for prop in sorted({p for f in files for p in FILE_PROPS[f]}):
        ok, hbin, _ = build(workers[0], False)
        base[prop] = judge(workers[0], hbin, prop)
    print("baseline (must be all None):", base, flush=True)
    if any(base.values()):
        print("baseline is not silent; aborting")
        return 2
    import queue
    q = queue.Queue()
    for w in workers:
        q.put(w)
    results = []

    def job(m):
        w = q.get()
        try:
            r = run_mutant(w, m, with_tests)
        except Exception as e:       # noqa
            r = {k: v for k, v in m.items() if not k.startswith("_")}
            r["status"] = "tool-error"
            r["why"] = repr(e)[:200]
        finally:
            q.put(w)
        print("%-16s %s:%d  %s  ->  %s   %s" % (r["status"], r["file"], r["line"], r["before"][:60], r["after"][:60],
                                              (r.get("by", "") + " " + r.get("why", ""))[:100]), flush=True)
        return r

    with ThreadPoolExecutor(jobs) as ex:
        results = list(ex.map(job, muts))
    summary = {}
    for r in results:
        summary[r["status"]] = summary.get(r["status"], 0) + 1
    per_file = {}
    for r in results:
        d = per_file.setdefault(r["file"], {})
        d[r["status"]] = d.get(r["status"], 0) + 1
    rep = {"generated": time.strftime("%Y-%m-%dT%H:%M:%SZ", time.gmtime()), "repo_head": sh("git -C /repo rev-parse HEAD")[1].strip(),
           "repo_dirty": bool(st.strip()), "files": files, "mutants": len(results), "summary": summary, "per_file": per_file,
           "survivors": [r for r in results if r["status"] == "survived"],
           "killed_by": {p: sum(1 for r in results if r.get("by") == p) for p in sorted({r.get("by") for r in results if r.get("by")})},
           "all": results}
    os.makedirs(os.path.dirname(outp), exist_ok=True)
    json.dump(rep, open(outp, "w"), indent=1, ensure_ascii=False)
    print(json.dumps(summary), flush=True)
    for w in workers:
        shutil.rmtree(w, ignore_errors=True)
    return 0


if __name__ == "__main__":
    sys.exit(main())
