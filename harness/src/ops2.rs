//! Parser / printer / encoder operations (second half of the protocol).
use crate::codec::{dec, s};
use lambda_calculus::data::num::convert::Encoding;
use lambda_calculus::parser::ParseError;
#[cfg(feature = "hidden_api")]
use lambda_calculus::parser::{self, CToken, Token};
use lambda_calculus::*;

pub fn char_wire(c: char) -> String {
    let flags = (c.is_whitespace() as u32) | ((c.is_alphabetic() as u32) << 1) | ((c.is_alphanumeric() as u32) << 2);
    let dig = c.to_digit(16).unwrap_or(16);
    format!("{}:{}:{}", c as u32, flags, dig)
}

pub fn string_wire(sx: &str) -> String {
    let v: Vec<String> = sx.chars().map(char_wire).collect();
    format!("{} {}", v.len(), v.join(" "))
}

/// A hand-written (corpus) line carries character flags somebody else computed; the flags on the wire must always be the
/// ones THIS harness computes with std's char methods (the model classifies characters by them), so such a line is
/// re-encoded from its code points before it is issued.
pub fn normalise_line(l: &str) -> String {
    let w: Vec<&str> = l.split_ascii_whitespace().collect();
    let skip = match w.first() {
        Some(&"parse") => 2,
        Some(&"lexd") | Some(&"lexc") => 1,
        _ => return l.to_string(),
    };
    if w.len() <= skip {
        return l.to_string();
    }
    let mut it = w[skip..].iter().copied();
    match read_string(&mut it) {
        Some(sx) => format!("{} {}", w[..skip].join(" "), string_wire(&sx)),
        None => l.to_string(),
    }
}

fn read_string<'a, I: Iterator<Item = &'a str>>(it: &mut I) -> Option<String> {
    let n: usize = it.next()?.parse().ok()?;
    let mut out = String::new();
    for _ in 0..n {
        let tok = it.next()?;
        let cp: u32 = tok.split(':').next()?.parse().ok()?;
        out.push(char::from_u32(cp)?);
    }
    Some(out)
}

fn show_err(e: &ParseError) -> String {
    match e {
        ParseError::InvalidCharacter((i, c)) => format!("err IC {} {}", i, *c as u32),
        ParseError::InvalidExpression => "err IE".into(),
        ParseError::EmptyExpression => "err EE".into(),
        #[allow(unreachable_patterns)]
        _ => "err OTHER".into(),
    }
}

#[cfg(feature = "hidden_api")]
fn show_tok(t: &Token) -> String {
    match t {
        Token::Lambda => "L".into(),
        Token::Lparen => "(".into(),
        Token::Rparen => ")".into(),
        Token::Number(n) => format!("N{}", n),
    }
}

#[cfg(feature = "hidden_api")]
fn show_name(n: &str) -> String {
    n.chars().map(|c| (c as u32).to_string()).collect::<Vec<_>>().join(".")
}

#[cfg(feature = "hidden_api")]
pub fn show_ctok(t: &CToken) -> String {
    match t {
        CToken::CLambda(n) => format!("CL:{}", show_name(n)),
        CToken::CLparen => "(".into(),
        CToken::CRparen => ")".into(),
        CToken::CName(n) => format!("CN:{}", show_name(n)),
    }
}

#[cfg(feature = "hidden_api")]
fn dec_name(x: &str) -> Option<String> {
    if x.is_empty() {
        return Some(String::new());
    }
    x.split('.').map(|p| p.parse::<u32>().ok().and_then(char::from_u32)).collect()
}

#[cfg(feature = "hidden_api")]
fn dec_ctok(x: &str) -> Option<CToken> {
    if x == "(" {
        Some(CToken::CLparen)
    } else if x == ")" {
        Some(CToken::CRparen)
    } else if let Some(r) = x.strip_prefix("CL:") {
        dec_name(r).map(CToken::CLambda)
    } else if let Some(r) = x.strip_prefix("CN:") {
        dec_name(r).map(CToken::CName)
    } else {
        None
    }
}

#[cfg(feature = "hidden_api")]
fn dec_tok(x: &str) -> Option<Token> {
    if x == "L" {
        Some(Token::Lambda)
    } else if x == "(" {
        Some(Token::Lparen)
    } else if x == ")" {
        Some(Token::Rparen)
    } else if let Some(r) = x.strip_prefix('N') {
        r.parse::<usize>().ok().map(Token::Number)
    } else {
        None
    }
}

#[cfg(feature = "hidden_api")]
pub fn show_expr(e: &parser::Expression) -> String {
    use parser::Expression::*;
    match e {
        Abstraction => "A".into(),
        Variable(i) => format!("V{}", i),
        Sequence(es) => {
            let mut v = vec![format!("S{}", es.len())];
            v.extend(es.iter().map(show_expr));
            v.join(" ")
        }
    }
}

#[cfg(feature = "hidden_api")]
fn dec_expr<'a, I: Iterator<Item = &'a str>>(it: &mut I) -> Option<parser::Expression> {
    use parser::Expression::*;
    let w = it.next()?;
    if w == "A" {
        Some(Abstraction)
    } else if let Some(r) = w.strip_prefix('V') {
        r.parse::<usize>().ok().map(Variable)
    } else if let Some(r) = w.strip_prefix('S') {
        let n: usize = r.parse().ok()?;
        let mut es = Vec::new();
        for _ in 0..n {
            es.push(dec_expr(it)?);
        }
        Some(Sequence(es))
    } else {
        None
    }
}

fn show_cps(x: &str) -> String {
    let v: Vec<String> = x.chars().map(|c| (c as u32).to_string()).collect();
    if v.is_empty() {
        "0".into()
    } else {
        format!("{} {}", v.len(), v.join(" "))
    }
}

pub fn enc_of(x: &str) -> Option<Encoding> {
    Some(match x {
        "church" => Encoding::Church,
        "scott" => Encoding::Scott,
        "parigot" => Encoding::Parigot,
        "stumpfu" => Encoding::StumpFu,
        "binary" => Encoding::Binary,
        _ => return None,
    })
}

pub fn into_num(e: Encoding, n: usize) -> Term {
    match e {
        Encoding::Church => n.into_church(),
        Encoding::Scott => n.into_scott(),
        Encoding::Parigot => n.into_parigot(),
        Encoding::StumpFu => n.into_stumpfu(),
        Encoding::Binary => n.into_binary(),
        #[allow(unreachable_patterns)]
        _ => Var(0),
    }
}

pub fn exec2<'a, I: Iterator<Item = &'a str>>(op: &str, it: &mut I) -> String {
    macro_rules! bad {
        () => {
            return "bad-op".into()
        };
    }
    macro_rules! term {
        () => {
            match dec(it) {
                Some(t) => t,
                None => bad!(),
            }
        };
    }
    macro_rules! num {
        () => {
            match it.next().and_then(|x| x.parse::<usize>().ok()) {
                Some(n) => n,
                None => bad!(),
            }
        };
    }
    match op {
        #[cfg(feature = "hidden_api")]
        "lexd" => {
            let sx = match read_string(it) { Some(x) => x, None => bad!() };
            match parser::tokenize_dbr(&sx) {
                Ok(ts) => {
                    let mut v = vec!["ok".to_string()];
                    v.extend(ts.iter().map(show_tok));
                    v.join(" ")
                }
                Err(e) => show_err(&e),
            }
        }
        #[cfg(feature = "hidden_api")]
        "lexc" => {
            let sx = match read_string(it) { Some(x) => x, None => bad!() };
            match parser::tokenize_cla(&sx) {
                Ok(ts) => {
                    let mut v = vec!["ok".to_string()];
                    v.extend(ts.iter().map(show_ctok));
                    v.join(" ")
                }
                Err(e) => show_err(&e),
            }
        }
        #[cfg(feature = "hidden_api")]
        "conv" => {
            let n = num!();
            let mut cts = Vec::new();
            for _ in 0..n {
                match it.next().and_then(dec_ctok) {
                    Some(c) => cts.push(c),
                    None => bad!(),
                }
            }
            let ts = parser::convert_classic_tokens(&cts);
            let mut v = vec!["ok".to_string()];
            v.extend(ts.iter().map(show_tok));
            v.join(" ")
        }
        #[cfg(feature = "hidden_api")]
        "ast" => {
            let n = num!();
            let mut ts = Vec::new();
            for _ in 0..n {
                match it.next().and_then(dec_tok) {
                    Some(t) => ts.push(t),
                    None => bad!(),
                }
            }
            match parser::get_ast(&ts) {
                Ok(e) => format!("ok {}", show_expr(&e)),
                Err(e) => show_err(&e),
            }
        }
        #[cfg(feature = "hidden_api")]
        "fold" => {
            let n = num!();
            let mut es = Vec::new();
            for _ in 0..n {
                match dec_expr(it) {
                    Some(e) => es.push(e),
                    None => bad!(),
                }
            }
            match parser::fold_exprs(&es) {
                Ok(t) => format!("ok {}", s(&t)),
                Err(e) => show_err(&e),
            }
        }
        "parse" => {
            let nota = match it.next() {
                Some("d") => DeBruijn,
                Some("c") => Classic,
                _ => bad!(),
            };
            let sx = match read_string(it) { Some(x) => x, None => bad!() };
            match parse(&sx, nota) {
                Ok(t) => format!("ok {}", s(&t)),
                Err(e) => show_err(&e),
            }
        }
        "show" | "showu" => {
            let which = match it.next() { Some(w) => w.to_string(), None => bad!() };
            // the glyph on the line is the one the harness EXPECTS for this build (from its own cargo feature); the crate
            // prints with whatever it was compiled with — the two are compared through the printed string
            let _lam = num!();
            let t = term!();
            match which.as_str() {
                "c" => show_cps(&t.to_string()),
                "d" => show_cps(&format!("{:?}", t)),
                _ => bad!(),
            }
        }
        "enc" => {
            let e = match it.next().and_then(enc_of) { Some(e) => e, None => bad!() };
            let n = num!();
            s(&into_num(e, n))
        }
        "signed" => {
            let e = match it.next().and_then(enc_of) { Some(e) => e, None => bad!() };
            let i: i32 = match it.next().and_then(|x| x.parse().ok()) { Some(i) => i, None => bad!() };
            s(&i.into_signed(e))
        }
        "vect" => {
            let kind = match it.next() { Some(k) => k.to_string(), None => bad!() };
            let k = num!();
            let mut ts = Vec::new();
            for _ in 0..k {
                ts.push(term!());
            }
            match kind.as_str() {
                "pair" => s(&ts.into_pair_list()),
                "from" => s(&Term::from(ts)),
                "church" => s(&IntoChurchList::into_church(ts)),
                "scott" => s(&IntoScottList::into_scott(ts)),
                "parigot" => s(&IntoParigotList::into_parigot(ts)),
                _ => bad!(),
            }
        }
        "vecn" => {
            let kind = match it.next() { Some(k) => k.to_string(), None => bad!() };
            let k = num!();
            let mut ns: Vec<usize> = Vec::new();
            for _ in 0..k {
                ns.push(num!());
            }
            match kind.as_str() {
                "church" => s(&IntoChurchList::into_church(ns)),
                "scott" => s(&IntoScottList::into_scott(ns)),
                "parigot" => s(&IntoParigotList::into_parigot(ns)),
                _ => bad!(),
            }
        }
        "frompair" => {
            let a = term!();
            let b = term!();
            s(&Term::from((a, b)))
        }
        "fromopt" => match it.next() {
            Some("none") => s(&Term::from(None::<Term>)),
            Some("some") => {
                let a = term!();
                s(&Term::from(Some(a)))
            }
            _ => bad!(),
        },
        "fromres" => match it.next() {
            Some("ok") => {
                let a = term!();
                s(&Term::from(Ok::<Term, Term>(a)))
            }
            Some("err") => {
                let a = term!();
                s(&Term::from(Err::<Term, Term>(a)))
            }
            _ => bad!(),
        },
        "frombool" => match it.next() {
            Some("1") => s(&Term::from(true)),
            Some("0") => s(&Term::from(false)),
            _ => bad!(),
        },
        "numpair" => {
            let e = match it.next().and_then(enc_of) { Some(e) => e, None => bad!() };
            let a = num!();
            let b = num!();
            s(&match e {
                Encoding::Church => IntoChurchNum::into_church((a, b)),
                Encoding::Scott => IntoScottNum::into_scott((a, b)),
                Encoding::Parigot => IntoParigotNum::into_parigot((a, b)),
                Encoding::StumpFu => (a, b).into_stumpfu(),
                Encoding::Binary => (a, b).into_binary(),
                #[allow(unreachable_patterns)]
                _ => bad!(),
            })
        }
        "numopt" => {
            let e = match it.next().and_then(enc_of) { Some(e) => e, None => bad!() };
            let v: Option<usize> = match it.next() {
                Some("none") => None,
                Some("some") => Some(num!()),
                _ => bad!(),
            };
            s(&match e {
                Encoding::Church => IntoChurchNum::into_church(v),
                Encoding::Scott => IntoScottNum::into_scott(v),
                Encoding::Parigot => IntoParigotNum::into_parigot(v),
                Encoding::StumpFu => v.into_stumpfu(),
                Encoding::Binary => v.into_binary(),
                #[allow(unreachable_patterns)]
                _ => bad!(),
            })
        }
        "numres" => {
            let e = match it.next().and_then(enc_of) { Some(e) => e, None => bad!() };
            let v: Result<usize, usize> = match it.next() {
                Some("ok") => Ok(num!()),
                Some("err") => Err(num!()),
                _ => bad!(),
            };
            s(&match e {
                Encoding::Church => IntoChurchNum::into_church(v),
                Encoding::Scott => IntoScottNum::into_scott(v),
                Encoding::Parigot => IntoParigotNum::into_parigot(v),
                Encoding::StumpFu => v.into_stumpfu(),
                Encoding::Binary => v.into_binary(),
                #[allow(unreachable_patterns)]
                _ => bad!(),
            })
        }
        "tuple" => {
            let k = num!();
            let mut ts = Vec::new();
            for _ in 0..k {
                ts.push(term!());
            }
            let mut d = ts.into_iter();
            let mut n = || d.next().unwrap();
            s(&match k {
                2 => tuple!(n(), n()),
                3 => tuple!(n(), n(), n()),
                4 => tuple!(n(), n(), n(), n()),
                5 => tuple!(n(), n(), n(), n(), n()),
                6 => tuple!(n(), n(), n(), n(), n(), n()),
                _ => bad!(),
            })
        }
        "pi" => {
            let i = num!();
            let n = num!();
            if i == 0 || i > n {
                bad!();
            }
            s(&pi!(i, n))
        }
        "errmsg" => match it.next() {
            Some("term") => {
                use lambda_calculus::term::TermError;
                let e = match it.next() {
                    Some("NotVar") => TermError::NotVar,
                    Some("NotAbs") => TermError::NotAbs,
                    Some("NotApp") => TermError::NotApp,
                    _ => bad!(),
                };
                // Display, and std::error::Error::source is None
                if std::error::Error::source(&e).is_some() {
                    return "source-not-none".into();
                }
                show_cps(&e.to_string())
            }
            Some("parse") => {
                let e = match it.next() {
                    Some("IC") => {
                        let i = num!();
                        let c = match it.next().and_then(|x| x.parse::<u32>().ok()).and_then(char::from_u32) {
                            Some(c) => c,
                            None => bad!(),
                        };
                        ParseError::InvalidCharacter((i, c))
                    }
                    Some("IE") => ParseError::InvalidExpression,
                    Some("EE") => ParseError::EmptyExpression,
                    _ => bad!(),
                };
                if std::error::Error::source(&e).is_some() {
                    return "source-not-none".into();
                }
                show_cps(&e.to_string())
            }
            _ => bad!(),
        },
        "ordname" => match it.next().and_then(crate::codec::order_of) {
            Some(o) => show_cps(&o.to_string()),
            None => bad!(),
        },
        _ => "bad-op".into(),
    }
}
