//! Parser / printer / encoder operations (second half of the protocol).
pub fn exec2<'a, I: Iterator<Item = &'a str>>(_op: &str, _it: &mut I) -> String {
    "bad-op".into()
}
