//! Correspondence + oracle harness for ljedrz/lambda_calculus (see /verif/DESIGN.md §3).
#[macro_use]
extern crate lambda_calculus;

mod codec;
mod ctx;
mod dump;
mod gen;
mod ops;
mod ops2;
mod props;
mod props2;
mod props3;
mod refeng;

use std::io::{BufRead, Write};

fn main() {
    let args: Vec<String> = std::env::args().collect();
    if args.len() < 2 {
        eprintln!("usage: harness dump-consts <dir> | run <prop> <tier> <seed> <outdir> | exec < ops");
        std::process::exit(2);
    }
    // deep recursion of the crate under test needs a large stack
    let child = std::thread::Builder::new()
        .stack_size(1 << 30)
        .spawn(move || real_main(args))
        .unwrap();
    let code = child.join().unwrap_or(3);
    std::process::exit(code);
}

fn real_main(args: Vec<String>) -> i32 {
    match args[1].as_str() {
        "dump-consts" => {
            dump::dump(&args[2]);
            0
        }
        "exec" => {
            // run op lines from stdin, one result line each
            let stdin = std::io::stdin();
            let out = std::io::stdout();
            let mut out = out.lock();
            std::panic::set_hook(Box::new(|_| {}));
            for line in stdin.lock().lines() {
                let line = line.unwrap();
                let r = match std::panic::catch_unwind(|| ops::exec(&line)) {
                    Ok(r) => r,
                    Err(_) => "PANIC".to_string(),
                };
                writeln!(out, "{}", r).unwrap();
            }
            0
        }
        "run" => {
            let prop = &args[2];
            if args[3] == "boundary" {
                // the representation boundary (indices near usize::MAX), run with a binary built WITHOUT overflow checks
                std::panic::set_hook(Box::new(|_| {}));
                let mut c = ctx::Ctx::new(&args[2], false, args[4].parse().unwrap_or(1), &args[5]);
                props::boundary(&mut c);
                c.finish(&args[5]);
                return 0;
            }
            let soak = args[3] == "soak";
            let thorough = args[3] == "thorough" || soak;
            let seed: u64 = args[4].parse().unwrap_or(1);
            let dir = &args[5];
            std::panic::set_hook(Box::new(|_| {}));
            let mut c = ctx::Ctx::new(prop, thorough, seed, dir);
            c.soak = soak;
            // corpus first
            let corpus = format!("{}/corpus/{}.ops", env!("CARGO_MANIFEST_DIR").trim_end_matches("/harness"), prop);
            if let Ok(f) = std::fs::read_to_string(&corpus) {
                for l in f.lines() {
                    let l = l.trim();
                    if !l.is_empty() && !l.starts_with('#') {
                        let l = &ops2::normalise_line(l);
                        c.op(l);
                        c.count("corpus_ops");
                    }
                }
            }
            // a panic of the crate inside the harness's own generator/oracle code (outside an operation, where it is caught
            // per line) must not kill the run: it becomes an oracle failure naming what was being prepared
            let known = ["C01","C02","C03","C04","C05","C06","C07","C08","C09","C10","C11","C12","C13","C14","C15","C16","C17","C18","C19"];
            if !known.contains(&prop.as_str()) {
                eprintln!("unknown property {}", prop);
                return 2;
            }
            let res = std::panic::catch_unwind(std::panic::AssertUnwindSafe(|| match prop.as_str() {
                "C01" => props::c01(&mut c),
                "C02" => props::c02(&mut c),
                "C03" => props::c03(&mut c),
                "C04" => props::c04(&mut c),
                "C05" => props::c05(&mut c),
                "C06" => props::c06(&mut c),
                "C07" => props::c07(&mut c),
                "C08" => props::c08(&mut c),
                "C09" => props2::c09(&mut c),
                "C10" => props2::c10(&mut c),
                "C11" => props2::c11(&mut c),
                "C12" => props2::c12(&mut c),
                "C13" => props3::c13(&mut c),
                "C14" => props3::c14(&mut c),
                "C15" => props3::c15(&mut c),
                "C16" => props3::c16(&mut c),
                "C17" => props3::c17(&mut c),
                "C18" => props::c18(&mut c),
                _ => props::c19(&mut c),
            }));
            if let Err(e) = res {
                let msg = e.downcast_ref::<String>().cloned().or_else(|| e.downcast_ref::<&str>().map(|x| x.to_string())).unwrap_or_default();
                let last = c.last_op.clone();
                c.fail(&format!("the crate panicked while the harness was preparing inputs or expected values (outside an operation): {} — \
                                 last operation issued before the panic is given", msg), &[last]);
            }
            c.finish(dir);
            0
        }
        _ => 2,
    }
}
