//! Run context: op/result sinks, counters, oracle failures.
use crate::codec::{self, s};
use crate::gen::Rng;
use lambda_calculus::*;
use lambda_calculus::reduction::Order;
use std::collections::{BTreeMap, HashSet};
use std::fs::File;
use std::io::{BufWriter, Write};

pub struct Ctx {
    pub rng: Rng,
    pub thorough: bool,
    /// a random-only shard of the thorough tier (own seed; enumerations and fixed grids are left to the main run)
    pub soak: bool,
    pub prop: String,
    ops: File,
    out: BufWriter<File>,
    pub n_ops: u64,
    pub last_op: String,
    pub n_long: u64,
    /// operations issued, by operation word (and by order for reduce/beta): the input distribution of the evidence
    op_counts: Vec<(String, u64)>,
    pub strict: bool,
    pub failures: Vec<(String, Vec<String>)>,
    pub stats: BTreeMap<String, u64>,
    pub samples: Vec<String>,
    nontrivial: HashSet<u64>,
    oracle: File,
}

fn hash(sx: &str) -> u64 {
    // FNV-1a
    let mut h: u64 = 0xcbf29ce484222325;
    for b in sx.as_bytes() {
        h ^= *b as u64;
        h = h.wrapping_mul(0x100000001b3);
    }
    h
}

impl Ctx {
    pub fn new(prop: &str, thorough: bool, seed: u64, dir: &str) -> Ctx {
        std::fs::create_dir_all(dir).unwrap();
        Ctx {
            rng: Rng::new(seed),
            thorough,
            soak: false,
            last_op: String::new(),
            n_long: 0,
            op_counts: Vec::new(),
            strict: false,
            prop: prop.to_string(),
            ops: File::create(format!("{}/ops.txt", dir)).unwrap(),
            out: BufWriter::new(File::create(format!("{}/impl.txt", dir)).unwrap()),
            n_ops: 0,
            failures: Vec::new(),
            stats: BTreeMap::new(),
            samples: Vec::new(),
            nontrivial: HashSet::new(),
            oracle: File::create(format!("{}/oracle.txt", dir)).unwrap(),
        }
    }

    /// run one protocol operation against the implementation; the op line is on disk
    /// *before* the call so that a crash/hang is attributable to it
    pub fn op(&mut self, line: &str) -> String {
        // canonical lines only: an empty list used to leave a trailing space (`parse d 0 `); the driver's tokenizer dropped it, but
        // the theorems about whole operation lines (TIE_codec_exec_…) speak about lines without one
        let line = line.trim_end();
        // stage-level operations call `pub #[doc(hidden)]` functions of the parser; when the crate no longer exports
        // them the harness is built without the feature `hidden_api` and these operations are not issued at all
        if !cfg!(feature = "hidden_api") {
            let w = line.split(' ').next().unwrap_or("");
            if matches!(w, "lexd" | "lexc" | "conv" | "ast" | "fold") {
                *self.stats.entry("hidden_api_ops_skipped".to_string()).or_insert(0) += 1;
                return "skipped".to_string();
            }
        }
        {
            // first word, plus the order for reduce/beta (cheap: a handful of distinct keys, looked up linearly)
            let mut it = line.split(' ');
            let w = it.next().unwrap_or("");
            let o = if w == "reduce" || w == "beta" || w == "reduceb" { it.next().unwrap_or("") } else { "" };
            match self.op_counts.iter_mut().find(|(k, _)| k.len() == w.len() + o.len() + 4 && k[3..].starts_with(w) && k.ends_with(o)) {
                Some(e) => e.1 += 1,
                None => self.op_counts.push((format!("op_{}_{}", w, o), 1)),
            }
        }
        self.last_op = line.to_string();
        self.ops.write_all(line.as_bytes()).unwrap();
        self.ops.write_all(b"\n").unwrap();
        let r = match std::panic::catch_unwind(|| crate::ops::exec(line)) {
            Ok(r) => r,
            Err(_) => "PANIC".to_string(),
        };
        self.out.write_all(r.as_bytes()).unwrap();
        self.out.write_all(b"\n").unwrap();
        self.n_ops += 1;
        if r == "PANIC" && !(line.starts_with("applyb ") || line.starts_with("reduceb ") || line.starts_with("signed binary ")) {
            self.fail("implementation panicked", &[line.to_string()]);
        }
        // samples spread over the whole run: operation numbers 1, 2, 4, 8, … (at most 26 of them)
        if self.n_ops.is_power_of_two() && self.samples.len() < 26 {
            self.samples.push(format!("#{}: {}  =>  {}", self.n_ops, trunc(line), trunc(&r)));
        }
        r
    }

    pub fn nontrivial(&mut self, line: &str) {
        self.nontrivial.insert(hash(line));
    }
    pub fn nontrivial_count(&self) -> usize {
        self.nontrivial.len()
    }

    pub fn count(&mut self, key: &str) {
        *self.stats.entry(key.to_string()).or_insert(0) += 1;
    }
    pub fn add(&mut self, key: &str, n: u64) {
        *self.stats.entry(key.to_string()).or_insert(0) += n;
    }

    /// record an oracle failure; written to disk at once so that it survives a later hang or crash
    pub fn fail(&mut self, what: &str, replay: &[String]) {
        if self.failures.len() < 50 {
            self.failures.push((what.to_string(), replay.to_vec()));
            let mut txt = format!("FAIL {}\n", what);
            for o in replay {
                txt.push_str(&format!("  OP {}\n", o));
            }
            let _ = self.oracle.write_all(txt.as_bytes());
        }
        self.count("oracle_failures");
    }

    /// behaviour NO property speaks about differs from what the harness expected (stage functions of the parser, wording of
    /// messages): counted and shown in the evidence, never a failure
    pub fn note(&mut self, what: &str) {
        self.count(&format!("note:{}", what.replace(' ', "_")));
    }

    pub fn finish(&mut self, dir: &str) {
        self.out.flush().unwrap();
        let mut st = File::create(format!("{}/stats.txt", dir)).unwrap();
        writeln!(st, "ops {}", self.n_ops).unwrap();
        writeln!(st, "distinct_nontrivial {}", self.nontrivial.len()).unwrap();
        for (k, v) in &self.stats {
            writeln!(st, "stat {} {}", k, v).unwrap();
        }
        for (k, v) in &self.op_counts {
            writeln!(st, "stat {} {}", k.trim_end_matches('_'), v).unwrap();
        }
        for sm in &self.samples {
            writeln!(st, "sample {}", sm).unwrap();
        }
    }
}

fn trunc(x: &str) -> String {
    if x.len() > 160 {
        format!("{}…", &x[..x.char_indices().nth(150).map(|p| p.0).unwrap_or(x.len())])
    } else {
        x.to_string()
    }
}

/// result of a `reduce` op line
pub fn parse_reduce(r: &str) -> Option<(usize, Term)> {
    let mut it = r.split_ascii_whitespace();
    let c = it.next()?.parse().ok()?;
    let t = codec::dec(&mut it)?;
    Some((c, t))
}

pub fn reduce_op(o: Order, l: usize, t: &Term) -> String {
    format!("reduce {} {} {}", codec::order_name(o), l, s(t))
}

/// step-wise run through `reduce(o, 1)` ops with caps; `terms[i]` is the term after `i` steps
pub struct Trace {
    pub terms: Vec<Term>,
    pub reached_nf: bool,
    pub broken: bool,
}

pub fn stepwise(ctx: &mut Ctx, t: &Term, o: Order, max_steps: usize, max_size: usize) -> Trace {
    let mut terms = vec![t.clone()];
    let mut reached_nf = false;
    let mut broken = false;
    for _ in 0..max_steps {
        let cur = terms.last().unwrap().clone();
        let line = reduce_op(o, 1, &cur);
        let r = ctx.op(&line);
        match parse_reduce(&r) {
            Some((0, u)) => {
                if u != cur {
                    ctx.fail("reduce returned count 0 but changed the term", &[line]);
                    broken = true;
                }
                reached_nf = true;
                break;
            }
            Some((1, u)) => {
                ctx.nontrivial(&line);
                if codec::size(&u) > max_size {
                    terms.push(u);
                    break;
                }
                terms.push(u);
            }
            Some((c, _)) => {
                ctx.fail(&format!("reduce with limit 1 returned count {}", c), &[line]);
                broken = true;
                break;
            }
            None => {
                broken = true;
                break;
            }
        }
    }
    Trace { terms, reached_nf, broken }
}
