//! Constant extraction: every exported zero-argument term constructor of the crate is called
//! and its value written as a Lean constructor tree (DESIGN §3.1).
use lambda_calculus::*;
use std::collections::BTreeMap;
use std::fmt::Write as _;

#[path = "table.rs"]
mod table;

pub fn lean_term(t: &Term, out: &mut String) {
    match t {
        Var(n) => {
            let _ = write!(out, "(.var {})", n);
        }
        Abs(b) => {
            out.push_str("(.abs ");
            lean_term(b, out);
            out.push(')');
        }
        App(p) => {
            out.push_str("(.app ");
            lean_term(&p.0, out);
            out.push(' ');
            lean_term(&p.1, out);
            out.push(')');
        }
    }
}

pub fn dump(dir: &str) {
    std::fs::create_dir_all(dir).unwrap();
    let mut mods: BTreeMap<&str, Vec<(&str, &str, Term)>> = BTreeMap::new();
    let mut manifest = String::new();
    for (m, f, name, t) in table::table() {
        let _ = writeln!(manifest, "{} {}", f, name);
        mods.entry(m).or_default().push((f, name, t));
    }
    for (m, items) in &mods {
        let mut s = String::new();
        let _ = writeln!(s, "/- GENERATED on every run from the compiled crate by `harness dump-consts` (DESIGN §3.1).");
        let _ = writeln!(s, "   Source: /repo/src/{}.  Do not edit. -/", items[0].0);
        let _ = writeln!(s, "import LC.Model.Term\n\nnamespace LC.Gen.{}\nopen LC\n", m);
        for (_, name, t) in items {
            let mut b = String::new();
            lean_term(t, &mut b);
            let _ = writeln!(s, "def {} : Term := {}\n", name, b);
        }
        let _ = writeln!(s, "end LC.Gen.{}", m);
        let path = format!("{}/{}.lean", dir, m);
        let old = std::fs::read_to_string(&path).unwrap_or_default();
        if old != s {
            std::fs::write(&path, s).unwrap();
        }
    }
    // umbrella + manifest
    let mut all = String::from("/- GENERATED: imports every generated constant module -/\n");
    for m in mods.keys() {
        let _ = writeln!(all, "import LC.Gen.{}", m);
    }
    let path = format!("{}/All.lean", dir);
    if std::fs::read_to_string(&path).unwrap_or_default() != all {
        std::fs::write(&path, all).unwrap();
    }
    std::fs::write(format!("{}/consts.txt", dir), manifest).unwrap();
}
