//! Reference machinery written independently of the crate under test (and of the Lean model):
//! two substitution engines, redex positions, normal-form predicates, positional strategy
//! selectors, free-variable sets.  Used only to *find replayable failing inputs*.
use lambda_calculus::*;
use lambda_calculus::reduction::Order;
use std::collections::BTreeSet;

// ---------------------------------------------------------------- engine 1: de Bruijn shift/subst
// 1-based indices, index 0 is a constant.

fn lift(c: usize, t: &Term) -> Term {
    match t {
        Var(k) => {
            if *k > c {
                Var(k + 1)
            } else {
                Var(*k)
            }
        }
        Abs(b) => abs(lift(c + 1, b)),
        App(p) => app(lift(c, &p.0), lift(c, &p.1)),
    }
}

fn subst(j: usize, s: &Term, t: &Term) -> Term {
    match t {
        Var(k) => {
            if *k == j {
                s.clone()
            } else {
                Var(*k)
            }
        }
        Abs(b) => abs(subst(j + 1, &lift(0, s), b)),
        App(p) => app(subst(j, s, &p.0), subst(j, s, &p.1)),
    }
}

fn lower(c: usize, t: &Term) -> Term {
    match t {
        Var(k) => {
            if *k > c {
                Var(k - 1)
            } else {
                Var(*k)
            }
        }
        Abs(b) => abs(lower(c + 1, b)),
        App(p) => app(lower(c, &p.0), lower(c, &p.1)),
    }
}

/// body `b` of `λb` applied to `a`
pub fn subst_top(b: &Term, a: &Term) -> Term {
    lower(0, &subst(1, &lift(0, a), b))
}

// ---------------------------------------------------------------- engine 2: named terms
#[derive(Clone, Debug, PartialEq, Eq)]
enum Name {
    Bound(usize), // unique binder id
    Free(usize),  // free variable number j >= 1
    Ud,
}

#[derive(Clone, Debug)]
enum NTerm {
    V(Name),
    Lam(usize, Box<NTerm>),
    Ap(Box<NTerm>, Box<NTerm>),
}

fn to_named(t: &Term, env: &mut Vec<usize>, next: &mut usize) -> NTerm {
    match t {
        Var(0) => NTerm::V(Name::Ud),
        Var(i) => {
            let d = env.len();
            if *i <= d {
                NTerm::V(Name::Bound(env[d - i]))
            } else {
                NTerm::V(Name::Free(i - d))
            }
        }
        Abs(b) => {
            let id = *next;
            *next += 1;
            env.push(id);
            let r = to_named(b, env, next);
            env.pop();
            NTerm::Lam(id, Box::new(r))
        }
        App(p) => NTerm::Ap(
            Box::new(to_named(&p.0, env, next)),
            Box::new(to_named(&p.1, env, next)),
        ),
    }
}

fn from_named(t: &NTerm, env: &mut Vec<usize>) -> Term {
    match t {
        NTerm::V(Name::Ud) => Var(0),
        NTerm::V(Name::Free(j)) => Var(j + env.len()),
        NTerm::V(Name::Bound(id)) => {
            let pos = env.iter().rposition(|x| x == id).expect("unbound name");
            Var(env.len() - pos)
        }
        NTerm::Lam(id, b) => {
            env.push(*id);
            let r = from_named(b, env);
            env.pop();
            abs(r)
        }
        NTerm::Ap(l, r) => app(from_named(l, env), from_named(r, env)),
    }
}

fn nsubst(t: &NTerm, x: usize, n: &NTerm) -> NTerm {
    match t {
        NTerm::V(Name::Bound(id)) if *id == x => n.clone(),
        NTerm::V(_) => t.clone(),
        // binder ids are unique and distinct from every free name of `n`: no capture possible
        NTerm::Lam(id, b) => NTerm::Lam(*id, Box::new(nsubst(b, x, n))),
        NTerm::Ap(l, r) => NTerm::Ap(Box::new(nsubst(l, x, n)), Box::new(nsubst(r, x, n))),
    }
}

/// `(λb) a` contracted through the named calculus: the redex is converted in the *same*
/// free-variable context (no enclosing binders), substituted by name, converted back.
pub fn subst_top_named(b: &Term, a: &Term) -> Term {
    let mut next = 0;
    let mut env = Vec::new();
    let lam = to_named(&abs(b.clone()), &mut env, &mut next);
    let arg = to_named(a, &mut env, &mut next);
    if let NTerm::Lam(x, body) = lam {
        let r = nsubst(&body, x, &arg);
        from_named(&r, &mut Vec::new())
    } else {
        unreachable!()
    }
}

// ---------------------------------------------------------------- positions
#[derive(Clone, Copy, Debug, PartialEq, Eq, PartialOrd, Ord)]
pub enum Dir {
    L,
    R,
    B,
}
pub type Pos = Vec<Dir>;

pub fn is_redex(t: &Term) -> bool {
    matches!(t, App(p) if matches!(p.0, Abs(_)))
}

/// all redex positions, in pre-order (outermost-leftmost first)
pub fn redex_positions(t: &Term) -> Vec<Pos> {
    fn go(t: &Term, cur: &mut Pos, out: &mut Vec<Pos>) {
        if is_redex(t) {
            out.push(cur.clone());
        }
        match t {
            Var(_) => {}
            Abs(b) => {
                cur.push(Dir::B);
                go(b, cur, out);
                cur.pop();
            }
            App(p) => {
                cur.push(Dir::L);
                go(&p.0, cur, out);
                cur.pop();
                cur.push(Dir::R);
                go(&p.1, cur, out);
                cur.pop();
            }
        }
    }
    let mut out = Vec::new();
    go(t, &mut Vec::new(), &mut out);
    out
}

pub fn sub_at<'a>(t: &'a Term, p: &[Dir]) -> Option<&'a Term> {
    let mut t = t;
    for d in p {
        t = match (t, d) {
            (Abs(b), Dir::B) => b,
            (App(q), Dir::L) => &q.0,
            (App(q), Dir::R) => &q.1,
            _ => return None,
        };
    }
    Some(t)
}

pub fn replace_at(t: &Term, p: &[Dir], s: Term) -> Term {
    if p.is_empty() {
        return s;
    }
    match (t, p[0]) {
        (Abs(b), Dir::B) => abs(replace_at(b, &p[1..], s)),
        (App(q), Dir::L) => app(replace_at(&q.0, &p[1..], s), q.1.clone()),
        (App(q), Dir::R) => app(q.0.clone(), replace_at(&q.1, &p[1..], s)),
        _ => t.clone(),
    }
}

/// contract the redex at `p` with engine 1
pub fn contract_at(t: &Term, p: &[Dir]) -> Option<Term> {
    let s = sub_at(t, p)?;
    if let App(q) = s {
        if let Abs(b) = &q.0 {
            return Some(replace_at(t, p, subst_top(b, &q.1)));
        }
    }
    None
}

/// the set of one-step reducts (engine 1), and the same with engine 2 for cross-checking
pub fn one_step_reducts(t: &Term) -> Vec<Term> {
    redex_positions(t)
        .iter()
        .map(|p| contract_at(t, p).unwrap())
        .collect()
}

pub fn engines_agree(t: &Term) -> bool {
    for p in redex_positions(t) {
        if let Some(App(q)) = sub_at(t, &p) {
            if let Abs(b) = &q.0 {
                if subst_top(b, &q.1) != subst_top_named(b, &q.1) {
                    return false;
                }
            }
        }
    }
    true
}

// ---------------------------------------------------------------- normal forms (by shape)
pub fn neutral(t: &Term) -> bool {
    match t {
        Var(_) => true,
        Abs(_) => false,
        App(p) => neutral(&p.0),
    }
}
pub fn is_normal(t: &Term) -> bool {
    redex_positions(t).is_empty()
}
pub fn is_whnf(t: &Term) -> bool {
    matches!(t, Abs(_)) || neutral(t)
}
pub fn is_wnf(t: &Term) -> bool {
    // no redex outside an abstraction
    redex_positions(t).iter().all(|p| p.contains(&Dir::B))
}
pub fn is_hnf(t: &Term) -> bool {
    match t {
        Abs(b) => is_hnf(b),
        _ => neutral(t),
    }
}
pub fn nf_for(o: Order, t: &Term) -> bool {
    match o {
        NOR | HNO | APP | HAP => is_normal(t),
        CBN => is_whnf(t),
        CBV => is_wnf(t),
        HSP => is_hnf(t),
    }
}

// ---------------------------------------------------------------- positional strategy selectors
fn is_prefix(p: &[Dir], q: &[Dir]) -> bool {
    q.len() >= p.len() && &q[..p.len()] == p
}

/// leftmost-outermost redex = first in pre-order
pub fn sel_lmo(t: &Term) -> Option<Pos> {
    redex_positions(t).into_iter().next()
}
/// CBN: the leftmost-outermost redex, only if on the operator spine outside any abstraction
pub fn sel_cbn(t: &Term) -> Option<Pos> {
    sel_lmo(t).filter(|p| p.iter().all(|d| *d == Dir::L))
}
/// leftmost of the innermost redexes (those containing no other redex)
pub fn sel_lmi(t: &Term) -> Option<Pos> {
    let all = redex_positions(t);
    let inner: Vec<&Pos> = all
        .iter()
        .filter(|p| !all.iter().any(|q| q.len() > p.len() && is_prefix(p, q)))
        .collect();
    // innermost redexes are pairwise disjoint; pre-order lists them left to right
    inner.first().map(|p| (*p).clone())
}
/// the same restricted to positions not below a binder (inner redexes below binders ignored)
pub fn sel_lmi_weak(t: &Term) -> Option<Pos> {
    let all: Vec<Pos> = redex_positions(t)
        .into_iter()
        .filter(|p| !p.contains(&Dir::B))
        .collect();
    let inner: Vec<&Pos> = all
        .iter()
        .filter(|p| !all.iter().any(|q| q.len() > p.len() && is_prefix(p, q)))
        .collect();
    inner.first().map(|p| (*p).clone())
}

// ---------------------------------------------------------------- free variables
pub fn free_vars(t: &Term) -> (BTreeSet<usize>, bool) {
    fn go(t: &Term, d: usize, fv: &mut BTreeSet<usize>, ud: &mut bool) {
        match t {
            Var(0) => *ud = true,
            Var(i) => {
                if *i > d {
                    fv.insert(i - d);
                }
            }
            Abs(b) => go(b, d + 1, fv, ud),
            App(p) => {
                go(&p.0, d, fv, ud);
                go(&p.1, d, fv, ud);
            }
        }
    }
    let mut fv = BTreeSet::new();
    let mut ud = false;
    go(t, 0, &mut fv, &mut ud);
    (fv, ud)
}

// ---------------------------------------------------------------- reference strategies (for C07)
/// leftmost-outermost normalisation with the reference engine; returns (normal form, steps)
pub fn ref_normalise(t: &Term, max_steps: usize, max_size: usize) -> Option<(Term, usize)> {
    let mut cur = t.clone();
    for k in 0..=max_steps {
        match sel_lmo(&cur) {
            None => return Some((cur, k)),
            Some(p) => {
                cur = contract_at(&cur, &p).unwrap();
                if crate::codec::size(&cur) > max_size {
                    return None;
                }
            }
        }
    }
    None
}

/// head reduction (strip abstractions, contract the head redex) until head normal form
pub fn ref_head_terminates(t: &Term, max_steps: usize, max_size: usize, weak: bool) -> Option<usize> {
    let mut cur = t.clone();
    for k in 0..=max_steps {
        // find head redex position
        let mut p: Pos = Vec::new();
        let mut s = &cur;
        if !weak {
            while let Abs(b) = s {
                p.push(Dir::B);
                s = b;
            }
        }
        // descend the operator spine to the innermost application whose operator is not an application
        let mut found = None;
        loop {
            match s {
                App(q) => {
                    if matches!(q.0, Abs(_)) {
                        found = Some(p.clone());
                    }
                    p.push(Dir::L);
                    s = &q.0;
                }
                _ => break,
            }
        }
        // the head redex is the *innermost* spine redex found last
        match found {
            None => return Some(k),
            Some(pos) => {
                cur = contract_at(&cur, &pos).unwrap();
                if crate::codec::size(&cur) > max_size {
                    return None;
                }
            }
        }
    }
    None
}

/// bounded exploration of the reduction graph: is a normal form reachable?
pub fn graph_normal_form(t: &Term, max_nodes: usize, max_size: usize) -> Option<Term> {
    use std::collections::{HashSet, VecDeque};
    let mut seen: HashSet<Term> = HashSet::new();
    let mut q = VecDeque::new();
    q.push_back(t.clone());
    seen.insert(t.clone());
    while let Some(u) = q.pop_front() {
        let rs = one_step_reducts(&u);
        if rs.is_empty() {
            return Some(u);
        }
        for r in rs {
            if crate::codec::size(&r) <= max_size && seen.len() < max_nodes && seen.insert(r.clone()) {
                q.push_back(r);
            }
        }
    }
    None
}
