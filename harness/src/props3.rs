//! Property runners C13–C17: encoded programs evaluated on the real crate against native results.
use crate::codec::{order_name, s};
use crate::ctx::*;
use crate::gen::*;
use crate::ops2::into_num;
use lambda_calculus::data::num::convert::Encoding;
use lambda_calculus::reduction::Order;
use lambda_calculus::*;

fn budget(ctx: &Ctx) -> usize {
    if ctx.thorough {
        400000
    } else {
        60000
    }
}

/// run `prog` under each order with a step budget; require the expected normal form
fn check_prog(ctx: &mut Ctx, what: &str, prog: &Term, expected: &Term, orders: &[Order]) {
    let b = budget(ctx);
    for &o in orders {
        let line = reduce_op(o, b, prog);
        let r = ctx.op(&line);
        ctx.nontrivial(&line);
        ctx.count(&format!("runs_{}", order_name(o)));
        match parse_reduce(&r) {
            Some((c, u)) => {
                if c >= b {
                    ctx.fail(&format!("{}: {} did not terminate within {} steps", what, order_name(o), b), &[line]);
                } else if &u != expected {
                    ctx.fail(&format!("{}: {} normalises to a term different from the expected encoding", what, order_name(o)), &[line]);
                }
            }
            None => {}
        }
    }
    // the call the documentation and the theorems are about: the free function `beta` with limit 0.  Issued only for programs whose
    // capped runs above ended well below the cap, first under the head-spine order (which stops early, at a head normal form), then
    // under each order of the list: the answer must be the expected encoding whatever was reduced before on this thread
    if !ctx.thorough || ctx.rng.chance(1, 4) {
        let pre = format!("beta HSP 0 {}", s(prog));
        let quick = orders.iter().all(|&o| {
            let r = ctx.op(&reduce_op(o, 3000, prog));
            matches!(parse_reduce(&r), Some((c, _)) if c < 3000)
        });
        if quick {
            ctx.op(&pre);
            for &o in orders {
                let line = format!("beta {} 0 {}", order_name(o), s(prog));
                let r = ctx.op(&line);
                ctx.nontrivial(&line);
                let mut it = r.split_ascii_whitespace();
                match crate::codec::dec(&mut it) {
                    Some(u) if &u == expected => ctx.count("beta_limit0_after_hsp"),
                    _ => ctx.fail(&format!("{}: beta({}, 0) — called after beta(HSP, 0) on the same program — does not return the expected encoding", what, order_name(o)), &[pre.clone(), line]),
                }
            }
        }
    }
}

const LAZY: [Order; 2] = [NOR, HNO];
const LAZY_HAP: [Order; 3] = [NOR, HNO, HAP];
const ALL4: [Order; 4] = [NOR, HNO, HAP, APP];

/// the expected boolean, written out (λλ2 = TRUE, λλ1 = FALSE) rather than taken from the crate's `From<bool>`
fn b(x: bool) -> Term {
    if x {
        abs(abs(Var(2)))
    } else {
        abs(abs(Var(1)))
    }
}

/// Expected values are built with the crate's own encoders; before they are trusted as expectations, every encoder
/// the runner uses is checked against the harness's independent shape decoders on the range it is used on (C12 does
/// this at length; repeated here so that C13–C16 do not lean on it).
pub fn encoders_sane(ctx: &mut Ctx, church_to: usize, small_to: usize, binary_to: usize) {
    use crate::props2::{dec_binary, dec_church, dec_parigot, dec_scott, dec_stumpfu};
    for n in 0..=church_to {
        if dec_church(&n.into_church()) != Some(n) {
            ctx.fail("into_church does not produce the Church numeral of its argument", &[format!("enc church {}", n)]);
        }
    }
    for n in 0..=small_to {
        if dec_scott(&n.into_scott()) != Some(n) {
            ctx.fail("into_scott does not produce the Scott numeral of its argument", &[format!("enc scott {}", n)]);
        }
        if n <= 14 && dec_parigot(&n.into_parigot()) != Some(n) {
            ctx.fail("into_parigot does not produce the Parigot numeral of its argument", &[format!("enc parigot {}", n)]);
        }
        if dec_stumpfu(&n.into_stumpfu()) != Some(n) {
            ctx.fail("into_stumpfu does not produce the Stump-Fu numeral of its argument", &[format!("enc stumpfu {}", n)]);
        }
    }
    for n in 0..=binary_to {
        if dec_binary(&n.into_binary()) != Some(n) {
            ctx.fail("into_binary does not produce the binary numeral of its argument", &[format!("enc binary {}", n)]);
        }
    }
    ctx.count("encoders_checked_against_decoders");
}

// ------------------------------------------------------------------------------------------ C13
pub fn c13(ctx: &mut Ctx) {
    encoders_sane(ctx, 600, 0, 0);
    use lambda_calculus::data::num::church::*;
    let g = if ctx.thorough { 9usize } else { 4 };
    let ch = |n: usize| n.into_church();
    // unary
    for n in 0..=(g + 2) {
        let un: Vec<(&str, Term, Term, bool)> = vec![
            ("succ", succ(), ch(n + 1), false),
            ("pred", pred(), ch(n.saturating_sub(1)), false),
            ("is_zero", is_zero(), b(n == 0), false),
            ("is_even", is_even(), b(n % 2 == 0), false),
            ("is_odd", is_odd(), b(n % 2 == 1), false),
        ];
        for (name, f, exp, _) in un {
            check_prog(ctx, &format!("church {} {}", name, n), &app(f, ch(n)), &exp, &ALL4);
        }
        if n <= if ctx.thorough { 5 } else { 4 } {
            let f: usize = (1..=n).product();
            check_prog(ctx, &format!("church fac {}", n), &app(fac(), ch(n)), &ch(f), &ALL4);
        }
    }
    // binary
    for m in 0..=g {
        for n in 0..=g {
            let bin: Vec<(&str, Term, Term)> = vec![
                ("add", add(), ch(m + n)),
                ("sub", sub(), ch(m.saturating_sub(n))),
                ("mul", mul(), ch(m * n)),
                ("min", min(), ch(m.min(n))),
                ("max", max(), ch(m.max(n))),
                ("lt", lt(), b(m < n)),
                ("leq", leq(), b(m <= n)),
                ("eq", eq(), b(m == n)),
                ("neq", neq(), b(m != n)),
                ("geq", geq(), b(m >= n)),
                ("gt", gt(), b(m > n)),
            ];
            for (name, f, exp) in bin {
                check_prog(ctx, &format!("church {} {} {}", name, m, n), &app!(f, ch(m), ch(n)), &exp, &ALL4);
            }
            if m <= 4 && n <= 4 {
                check_prog(ctx, &format!("church pow {} {}", m, n), &app!(pow(), ch(m), ch(n)), &ch(m.pow(n as u32)), &ALL4);
            }
            if n <= 4 {
                check_prog(ctx, &format!("church shl {} {}", m, n), &app!(shl(), ch(m), ch(n)), &ch(m << n), &ALL4);
                // shr goes through QUOT (Z-based): not claimed for APP
                check_prog(ctx, &format!("church shr {} {}", m, n), &app!(shr(), ch(m), ch(n)), &ch(m >> n), &LAZY_HAP);
            }
            if n != 0 {
                check_prog(ctx, &format!("church div {} {}", m, n), &app!(div(), ch(m), ch(n)),
                    &IntoChurchNum::into_church((m / n, m % n)), &LAZY_HAP);
                check_prog(ctx, &format!("church quot {} {}", m, n), &app!(quot(), ch(m), ch(n)), &ch(m / n), &LAZY_HAP);
                check_prog(ctx, &format!("church rem {} {}", m, n), &app!(rem(), ch(m), ch(n)), &ch(m % n), &LAZY_HAP);
            }
        }
    }
    c13_sparse(ctx);
}

/// beyond the exhaustive square: a sparse sample of LARGER arguments (an operation can be right on every small
/// argument and wrong from some size on — a wrong constant inside, a fixed unrolling, a budget)
fn c13_sparse(ctx: &mut Ctx) {
    use lambda_calculus::data::num::church::*;
    let ch = |n: usize| n.into_church();
    let mut pairs: Vec<(usize, usize)> = vec![(7, 3), (9, 2), (12, 5), (8, 8), (10, 1), (6, 11), (13, 4), (3, 9), (16, 7), (11, 0), (0, 9)];
    if ctx.thorough {
        for _ in 0..150 {
            pairs.push((ctx.rng.below(22), ctx.rng.below(22)));
        }
    }
    for (m, n) in pairs {
        let bin: Vec<(&str, Term, Term)> = vec![
            ("add", add(), ch(m + n)),
            ("sub", sub(), ch(m.saturating_sub(n))),
            ("mul", mul(), ch(m * n)),
            ("min", min(), ch(m.min(n))),
            ("max", max(), ch(m.max(n))),
            ("lt", lt(), b(m < n)),
            ("leq", leq(), b(m <= n)),
            ("eq", eq(), b(m == n)),
            ("neq", neq(), b(m != n)),
            ("geq", geq(), b(m >= n)),
            ("gt", gt(), b(m > n)),
        ];
        for (name, f, exp) in bin {
            check_prog(ctx, &format!("church {} {} {}", name, m, n), &app!(f, ch(m), ch(n)), &exp, &ALL4);
        }
        let k = n % 5;
        check_prog(ctx, &format!("church shr {} {}", m, k), &app!(shr(), ch(m), ch(k)), &ch(m >> k), &LAZY_HAP);
        check_prog(ctx, &format!("church shl {} {}", m % 8, k), &app!(shl(), ch(m % 8), ch(k)), &ch((m % 8) << k), &ALL4);
        if n != 0 {
            check_prog(ctx, &format!("church div {} {}", m, n), &app!(div(), ch(m), ch(n)),
                &IntoChurchNum::into_church((m / n, m % n)), &LAZY_HAP);
            check_prog(ctx, &format!("church quot {} {}", m, n), &app!(quot(), ch(m), ch(n)), &ch(m / n), &LAZY_HAP);
            check_prog(ctx, &format!("church rem {} {}", m, n), &app!(rem(), ch(m), ch(n)), &ch(m % n), &LAZY_HAP);
        }
        for (name, f, exp) in [
            ("succ", succ(), ch(m + n + 1)),
            ("pred", pred(), ch((m + n).saturating_sub(1))),
            ("is_zero", is_zero(), b(m + n == 0)),
            ("is_even", is_even(), b((m + n) % 2 == 0)),
            ("is_odd", is_odd(), b((m + n) % 2 == 1)),
        ] {
            check_prog(ctx, &format!("church {} {}", name, m + n), &app(f, ch(m + n)), &exp, &ALL4);
        }
    }
    check_prog(ctx, "church pow 2 6", &app!(pow(), ch(2), ch(6)), &ch(64), &ALL4);
    check_prog(ctx, "church pow 5 2", &app!(pow(), ch(5), ch(2)), &ch(25), &ALL4);
}

// ------------------------------------------------------------------------------------------ C14
pub fn c14(ctx: &mut Ctx) {
    encoders_sane(ctx, 40, 40, 300);
    use lambda_calculus::data::num::{binary, church, parigot, scott, stumpfu};
    let g = if ctx.thorough { 6usize } else { 4 };
    let sc = |n: usize| n.into_scott();
    let pa = |n: usize| n.into_parigot();
    let sf = |n: usize| n.into_stumpfu();
    let bi = |n: usize| n.into_binary();
    for n in 0..=(g + 1) {
        // Scott
        check_prog(ctx, &format!("scott succ {}", n), &app(scott::succ(), sc(n)), &sc(n + 1), &ALL4);
        check_prog(ctx, &format!("scott pred {}", n), &app(scott::pred(), sc(n)), &sc(n.saturating_sub(1)), &ALL4);
        check_prog(ctx, &format!("scott is_zero {}", n), &app(scott::is_zero(), sc(n)), &b(n == 0), &ALL4);
        // documented: Z-based Scott operations are unsuitable for APP and HAP
        check_prog(ctx, &format!("scott to_church {}", n), &app(scott::to_church(), sc(n)), &n.into_church(), &LAZY);
        // Parigot
        check_prog(ctx, &format!("parigot succ {}", n), &app(parigot::succ(), pa(n)), &pa(n + 1), &ALL4);
        check_prog(ctx, &format!("parigot pred {}", n), &app(parigot::pred(), pa(n)), &pa(n.saturating_sub(1)), &ALL4);
        check_prog(ctx, &format!("parigot is_zero {}", n), &app(parigot::is_zero(), pa(n)), &b(n == 0), &ALL4);
        // Stump-Fu
        check_prog(ctx, &format!("stumpfu succ {}", n), &app(stumpfu::succ(), sf(n)), &sf(n + 1), &ALL4);
        check_prog(ctx, &format!("stumpfu pred {}", n), &app(stumpfu::pred(), sf(n)), &sf(n.saturating_sub(1)), &ALL4);
        check_prog(ctx, &format!("stumpfu is_zero {}", n), &app(stumpfu::is_zero(), sf(n)), &b(n == 0), &ALL4);
        check_prog(ctx, &format!("stumpfu to_church {}", n), &app(stumpfu::to_church(), sf(n)), &n.into_church(), &ALL4);
        check_prog(ctx, &format!("stumpfu to_scott {}", n), &app(stumpfu::to_scott(), sf(n)), &sc(n), &ALL4);
        check_prog(ctx, &format!("stumpfu to_parigot {}", n), &app(stumpfu::to_parigot(), sf(n)), &pa(n), &ALL4);
        // out of Church
        check_prog(ctx, &format!("church to_scott {}", n), &app(church::to_scott(), n.into_church()), &sc(n), &ALL4);
        check_prog(ctx, &format!("church to_parigot {}", n), &app(church::to_parigot(), n.into_church()), &pa(n), &ALL4);
        check_prog(ctx, &format!("church to_stumpfu {}", n), &app(church::to_stumpfu(), n.into_church()), &sf(n), &ALL4);
    }
    for m in 0..=g {
        for n in 0..=g {
            check_prog(ctx, &format!("scott add {} {}", m, n), &app!(scott::add(), sc(m), sc(n)), &sc(m + n), &LAZY);
            if m * n <= 16 {
                check_prog(ctx, &format!("scott mul {} {}", m, n), &app!(scott::mul(), sc(m), sc(n)), &sc(m * n), &LAZY);
            }
            if m <= 3 && n <= 3 {
                check_prog(ctx, &format!("scott pow {} {}", m, n), &app!(scott::pow(), sc(m), sc(n)), &sc(m.pow(n as u32)), &LAZY);
            }
            check_prog(ctx, &format!("parigot add {} {}", m, n), &app!(parigot::add(), pa(m), pa(n)), &pa(m + n), &ALL4);
            check_prog(ctx, &format!("parigot sub {} {}", m, n), &app!(parigot::sub(), pa(m), pa(n)), &pa(m.saturating_sub(n)), &ALL4);
            if m * n <= 9 {
                check_prog(ctx, &format!("parigot mul {} {}", m, n), &app!(parigot::mul(), pa(m), pa(n)), &pa(m * n), &ALL4);
            }
            check_prog(ctx, &format!("stumpfu add {} {}", m, n), &app!(stumpfu::add(), sf(m), sf(n)), &sf(m + n), &ALL4);
            if m * n <= 16 {
                check_prog(ctx, &format!("stumpfu mul {} {}", m, n), &app!(stumpfu::mul(), sf(m), sf(n)), &sf(m * n), &ALL4);
            }
        }
    }
    // sparse sample of larger arguments (Parigot terms double with every successor: stay below 14)
    {
        let mut ns: Vec<usize> = vec![9, 11, 12];
        let mut pairs: Vec<(usize, usize)> = vec![(7, 5), (3, 9), (8, 4), (10, 2), (6, 6)];
        if ctx.thorough {
            for _ in 0..30 {
                ns.push(8 + ctx.rng.below(5));
                pairs.push((ctx.rng.below(8), ctx.rng.below(6)));
            }
        }
        for n in ns {
            check_prog(ctx, &format!("scott succ {}", n), &app(scott::succ(), sc(n)), &sc(n + 1), &ALL4);
            check_prog(ctx, &format!("scott pred {}", n), &app(scott::pred(), sc(n)), &sc(n - 1), &ALL4);
            check_prog(ctx, &format!("scott is_zero {}", n), &app(scott::is_zero(), sc(n)), &b(false), &ALL4);
            check_prog(ctx, &format!("scott to_church {}", n), &app(scott::to_church(), sc(n)), &n.into_church(), &LAZY);
            check_prog(ctx, &format!("parigot succ {}", n), &app(parigot::succ(), pa(n)), &pa(n + 1), &ALL4);
            check_prog(ctx, &format!("parigot pred {}", n), &app(parigot::pred(), pa(n)), &pa(n - 1), &ALL4);
            check_prog(ctx, &format!("parigot is_zero {}", n), &app(parigot::is_zero(), pa(n)), &b(false), &ALL4);
            check_prog(ctx, &format!("stumpfu succ {}", n), &app(stumpfu::succ(), sf(n)), &sf(n + 1), &ALL4);
            check_prog(ctx, &format!("stumpfu pred {}", n), &app(stumpfu::pred(), sf(n)), &sf(n - 1), &ALL4);
            check_prog(ctx, &format!("stumpfu is_zero {}", n), &app(stumpfu::is_zero(), sf(n)), &b(false), &ALL4);
            check_prog(ctx, &format!("stumpfu to_church {}", n), &app(stumpfu::to_church(), sf(n)), &n.into_church(), &ALL4);
            check_prog(ctx, &format!("stumpfu to_scott {}", n), &app(stumpfu::to_scott(), sf(n)), &sc(n), &ALL4);
            check_prog(ctx, &format!("stumpfu to_parigot {}", n), &app(stumpfu::to_parigot(), sf(n)), &pa(n), &ALL4);
            check_prog(ctx, &format!("church to_scott {}", n), &app(church::to_scott(), n.into_church()), &sc(n), &ALL4);
            check_prog(ctx, &format!("church to_parigot {}", n), &app(church::to_parigot(), n.into_church()), &pa(n), &ALL4);
            check_prog(ctx, &format!("church to_stumpfu {}", n), &app(church::to_stumpfu(), n.into_church()), &sf(n), &ALL4);
        }
        for (m, n) in pairs {
            check_prog(ctx, &format!("scott add {} {}", m, n), &app!(scott::add(), sc(m), sc(n)), &sc(m + n), &LAZY);
            check_prog(ctx, &format!("parigot add {} {}", m, n), &app!(parigot::add(), pa(m), pa(n)), &pa(m + n), &ALL4);
            check_prog(ctx, &format!("parigot sub {} {}", m, n), &app!(parigot::sub(), pa(m), pa(n)), &pa(m.saturating_sub(n)), &ALL4);
            check_prog(ctx, &format!("stumpfu add {} {}", m, n), &app!(stumpfu::add(), sf(m), sf(n)), &sf(m + n), &ALL4);
            if m * n <= 24 {
                check_prog(ctx, &format!("scott mul {} {}", m, n), &app!(scott::mul(), sc(m), sc(n)), &sc(m * n), &LAZY);
                check_prog(ctx, &format!("stumpfu mul {} {}", m, n), &app!(stumpfu::mul(), sf(m), sf(n)), &sf(m * n), &ALL4);
            }
            if m * n <= 12 {
                check_prog(ctx, &format!("parigot mul {} {}", m, n), &app!(parigot::mul(), pa(m), pa(n)), &pa(m * n), &ALL4);
            }
        }
    }
    // binary
    let top = if ctx.thorough { 1000usize } else { 34 };
    for n in 0..top {
        let strip = |t: Term| app(binary::strip(), t);
        check_prog(ctx, &format!("binary is_zero {}", n), &app(binary::is_zero(), bi(n)), &b(n == 0), &ALL4);
        // the bit itself is returned: B0 ≡ TRUE for a zero bit, B1 ≡ FALSE for a one bit (binary.rs, doc of b0/b1/lsb)
        check_prog(ctx, &format!("binary lsb {}", n), &app(binary::lsb(), bi(n)), &(if n % 2 == 1 { binary::b1() } else { binary::b0() }), &ALL4);
        check_prog(ctx, &format!("binary succ {}", n), &strip(app(binary::succ(), bi(n))), &bi(n + 1), &ALL4);
        check_prog(ctx, &format!("binary pred {}", n), &strip(app(binary::pred(), bi(n))), &bi(n.saturating_sub(1)), &ALL4);
        check_prog(ctx, &format!("binary shl0 {}", n), &strip(app(binary::shl0(), bi(n))), &bi(2 * n), &ALL4);
        check_prog(ctx, &format!("binary shl1 {}", n), &strip(app(binary::shl1(), bi(n))), &bi(2 * n + 1), &ALL4);
        check_prog(ctx, &format!("binary strip {}", n), &strip(bi(n)), &bi(n), &ALL4);
        // EXACT results (no strip) wherever the documentation does not allow leading zeroes: succ and shl1 always,
        // shl0 of a non-zero number, pred of a number that is not a power of two (and not zero)
        check_prog(ctx, &format!("binary succ {} exact", n), &app(binary::succ(), bi(n)), &bi(n + 1), &ALL4);
        check_prog(ctx, &format!("binary shl1 {} exact", n), &app(binary::shl1(), bi(n)), &bi(2 * n + 1), &ALL4);
        if n >= 1 {
            check_prog(ctx, &format!("binary shl0 {} exact", n), &app(binary::shl0(), bi(n)), &bi(2 * n), &ALL4);
            if !n.is_power_of_two() {
                check_prog(ctx, &format!("binary pred {} exact", n), &app(binary::pred(), bi(n)), &bi(n - 1), &ALL4);
            }
        }
    }
    // the top of the usize range: a 64-bit binary numeral is only 64 applications, so these are cheap in-range inputs
    // (succ of usize::MAX and shl of numbers >= 2^63 are left out: their results are not representable natively)
    {
        let strip = |t: Term| app(binary::strip(), t);
        let m = usize::MAX;
        let h = 1usize << (usize::BITS - 1);
        for &n in [h - 1, h, h + 1, m - 1, m, (1 << 32) - 1, 1 << 32, 0xAAAA_AAAA_AAAA_AAAA, 0x5555_5555_5555_5555].iter() {
            check_prog(ctx, &format!("binary is_zero {}", n), &app(binary::is_zero(), bi(n)), &b(n == 0), &ALL4);
            check_prog(ctx, &format!("binary lsb {}", n), &app(binary::lsb(), bi(n)), &(if n % 2 == 1 { binary::b1() } else { binary::b0() }), &ALL4);
            check_prog(ctx, &format!("binary pred {}", n), &strip(app(binary::pred(), bi(n))), &bi(n - 1), &ALL4);
            check_prog(ctx, &format!("binary strip {}", n), &strip(bi(n)), &bi(n), &ALL4);
            if n < m {
                check_prog(ctx, &format!("binary succ {}", n), &strip(app(binary::succ(), bi(n))), &bi(n + 1), &ALL4);
            }
            if n < h {
                check_prog(ctx, &format!("binary shl0 {}", n), &strip(app(binary::shl0(), bi(n))), &bi(2 * n), &ALL4);
                check_prog(ctx, &format!("binary shl1 {}", n), &strip(app(binary::shl1(), bi(n))), &bi(2 * n + 1), &ALL4);
            }
        }
    }
    // strip on bit strings with leading zeroes: k leading zero bits on top of n
    for n in 0..10usize {
        for k in 1..=3usize {
            // build λλλ. bits(n) with k extra most-significant zero bits: innermost position before the terminating 3
            let mut body = Var(3);
            for _ in 0..k {
                body = app(Var(2), body);
            }
            if n != 0 {
                for ch in format!("{:b}", n).chars() {
                    body = app(if ch == '0' { Var(2) } else { Var(1) }, body);
                }
            }
            let t = abs!(3, body);
            check_prog(ctx, &format!("binary strip {} with {} leading zeroes", n, k), &app(binary::strip(), t), &bi(n), &ALL4);
        }
    }
}

// ------------------------------------------------------------------------------------------ C15
pub fn c15(ctx: &mut Ctx) {
    encoders_sane(ctx, 30, 30, 0);
    use lambda_calculus::data::num::signed::*;
    let g: usize = if ctx.thorough { 4 } else { 2 };
    let encs = [
        ("church", Encoding::Church),
        ("scott", Encoding::Scott),
        ("parigot", Encoding::Parigot),
        ("stumpfu", Encoding::StumpFu),
    ];
    for (en, e) in encs {
        let pairt = |p: usize, n: usize| abs(app!(Var(1), into_num(e, p), into_num(e, n)));
        let canon = |z: i64| {
            if z >= 0 {
                pairt(z as usize, 0)
            } else {
                pairt(0, (-z) as usize)
            }
        };
        for p in 0..=(g + 1) {
            check_prog(ctx, &format!("signed to_signed {} {}", en, p), &app(to_signed(e), into_num(e, p)), &pairt(p, 0), &LAZY);
            for n in 0..=(g + 1) {
                let z = p as i64 - n as i64;
                check_prog(ctx, &format!("signed simplify {} ({},{})", en, p, n), &app(simplify(e), pairt(p, n)), &canon(z), &LAZY);
                check_prog(ctx, &format!("signed modulus {} ({},{})", en, p, n), &app(modulus(e), pairt(p, n)), &into_num(e, z.unsigned_abs() as usize), &LAZY);
                check_prog(ctx, &format!("signed neg {} ({},{})", en, p, n), &app(neg(), pairt(p, n)), &pairt(n, p), &LAZY);
            }
        }
        for p1 in 0..=g {
            for n1 in 0..=g {
                for p2 in 0..=g {
                    for n2 in 0..=g {
                        let (a, bb) = (p1 as i64 - n1 as i64, p2 as i64 - n2 as i64);
                        let x = pairt(p1, n1);
                        let y = pairt(p2, n2);
                        check_prog(ctx, &format!("signed add {} ({},{}) ({},{})", en, p1, n1, p2, n2), &app!(add(e), x.clone(), y.clone()), &canon(a + bb), &LAZY);
                        check_prog(ctx, &format!("signed sub {} ({},{}) ({},{})", en, p1, n1, p2, n2), &app!(sub(e), x.clone(), y.clone()), &canon(a - bb), &LAZY);
                        if (p1 + n1) * (p2 + n2) <= 9 {
                            check_prog(ctx, &format!("signed mul {} ({},{}) ({},{})", en, p1, n1, p2, n2), &app!(mul(e), x, y), &canon(a * bb), &LAZY);
                        }
                    }
                }
            }
        }
        // sparse sample of larger magnitudes and non-canonical pairs
        let singles: [(usize, usize); 8] = [(3, 0), (0, 3), (5, 2), (2, 5), (4, 4), (6, 1), (1, 7), (3, 6)];
        for (p, n) in singles {
            let z = p as i64 - n as i64;
            check_prog(ctx, &format!("signed simplify {} ({},{})", en, p, n), &app(simplify(e), pairt(p, n)), &canon(z), &LAZY);
            check_prog(ctx, &format!("signed modulus {} ({},{})", en, p, n), &app(modulus(e), pairt(p, n)), &into_num(e, z.unsigned_abs() as usize), &LAZY);
            check_prog(ctx, &format!("signed neg {} ({},{})", en, p, n), &app(neg(), pairt(p, n)), &pairt(n, p), &LAZY);
        }
        let doubles: [((usize, usize), (usize, usize)); 6] =
            [((3, 1), (1, 4)), ((5, 0), (0, 3)), ((2, 6), (3, 1)), ((0, 4), (0, 3)), ((4, 1), (2, 2)), ((1, 3), (5, 1))];
        for ((p1, n1), (p2, n2)) in doubles {
            let (a, bb) = (p1 as i64 - n1 as i64, p2 as i64 - n2 as i64);
            let (x, y) = (pairt(p1, n1), pairt(p2, n2));
            check_prog(ctx, &format!("signed add {} ({},{}) ({},{})", en, p1, n1, p2, n2), &app!(add(e), x.clone(), y.clone()), &canon(a + bb), &LAZY);
            check_prog(ctx, &format!("signed sub {} ({},{}) ({},{})", en, p1, n1, p2, n2), &app!(sub(e), x.clone(), y.clone()), &canon(a - bb), &LAZY);
            if (p1 + n1) * (p2 + n2) <= 9 {
                check_prog(ctx, &format!("signed mul {} ({},{}) ({},{})", en, p1, n1, p2, n2), &app!(mul(e), x, y), &canon(a * bb), &LAZY);
            }
        }
    }
}

// ------------------------------------------------------------------------------------------ C16
fn all_lists(maxlen: usize, alpha: usize) -> Vec<Vec<usize>> {
    let mut out: Vec<Vec<usize>> = vec![vec![]];
    let mut cur: Vec<Vec<usize>> = vec![vec![]];
    for _ in 0..maxlen {
        let mut nx = Vec::new();
        for v in &cur {
            for x in 0..alpha {
                let mut w = v.clone();
                w.push(x);
                nx.push(w);
            }
        }
        out.extend(nx.iter().cloned());
        cur = nx;
    }
    out
}

fn plist(v: &[usize]) -> Term {
    v.iter().map(|x| x.into_church()).collect::<Vec<Term>>().into_pair_list()
}

pub fn c16(ctx: &mut Ctx) {
    encoders_sane(ctx, 40, 12, 0);
    use lambda_calculus::data::list::{church as cl, pair as pl, parigot as gl, scott as sl};
    use lambda_calculus::data::num::church as cn;
    let (maxlen, alpha) = if ctx.thorough { (4, 3) } else { (3, 2) };
    let mut lists = all_lists(maxlen, alpha);
    // beyond the exhaustive part: a few LONGER lists with larger elements (a definition can be right up to length 3 and
    // wrong from 4 on — e.g. anything with a step budget or a fixed unrolling)
    for v in [vec![3, 1, 4, 1], vec![0, 0, 0, 0], vec![0, 2, 0, 5, 1], vec![1, 0, 0, 2, 0, 3], vec![2, 1, 2, 1, 2, 1, 2, 1], vec![5]] {
        lists.push(v);
    }
    if ctx.thorough {
        for _ in 0..40 {
            let l = 4 + ctx.rng.below(6);
            lists.push((0..l).map(|_| ctx.rng.below(6)).collect());
        }
    }
    let ch = |n: usize| n.into_church();
    // ---- four encodings: observers on converted lists
    for v in &lists {
        let nums: Vec<Term> = v.iter().map(|x| ch(*x)).collect();
        let encs: Vec<(&str, Term, Term, Term, Term, Box<dyn Fn(&[Term]) -> Term>)> = vec![
            ("pair", pl::is_nil(), pl::head(), pl::tail(), pl::cons(), Box::new(|t: &[Term]| t.to_vec().into_pair_list())),
            ("church", cl::is_nil(), cl::head(), cl::tail(), cl::cons(), Box::new(|t: &[Term]| IntoChurchList::into_church(t.to_vec()))),
            ("scott", sl::is_nil(), sl::head(), sl::tail(), sl::cons(), Box::new(|t: &[Term]| IntoScottList::into_scott(t.to_vec()))),
            ("parigot", gl::is_nil(), gl::head(), gl::tail(), gl::cons(), Box::new(|t: &[Term]| IntoParigotList::into_parigot(t.to_vec()))),
        ];
        for (en, is_nil, head, tail, cons, conv) in encs {
            let l = conv(&nums);
            check_prog(ctx, &format!("{} list is_nil {:?}", en, v), &app(is_nil, l.clone()), &b(v.is_empty()), &LAZY_HAP);
            if !v.is_empty() {
                check_prog(ctx, &format!("{} list head {:?}", en, v), &app(head, l.clone()), &nums[0], &LAZY_HAP);
                check_prog(ctx, &format!("{} list tail {:?}", en, v), &app(tail, l.clone()), &conv(&nums[1..]), &LAZY_HAP);
            }
            // conversion = repeated cons
            let nil = conv(&[]);
            let mut acc = nil;
            for x in nums.iter().rev() {
                acc = app!(cons.clone(), x.clone(), acc);
            }
            check_prog(ctx, &format!("{} list conversion = repeated cons {:?}", en, v), &acc, &l, &LAZY_HAP);
        }
    }
    // ---- symbolic head/tail/is_nil with free variables as payloads (NOR/HNO; open terms)
    {
        let a = app(Var(5), abs(app(Var(1), Var(7))));
        let x = Var(9);
        let encs: Vec<(&str, Term, Term, Term, Term)> = vec![
            ("pair", pl::is_nil(), pl::head(), pl::tail(), pl::cons()),
            ("scott", sl::is_nil(), sl::head(), sl::tail(), sl::cons()),
            ("parigot", gl::is_nil(), gl::head(), gl::tail(), gl::cons()),
        ];
        for (en, is_nil, head, tail, cons) in encs {
            let cell = app!(cons, a.clone(), x.clone());
            check_prog(ctx, &format!("{} head (cons a x), open a x", en), &app(head, cell.clone()), &beta(a.clone(), NOR, 0), &LAZY);
            check_prog(ctx, &format!("{} tail (cons a x), open a x", en), &app(tail, cell.clone()), &x, &LAZY);
            check_prog(ctx, &format!("{} is_nil (cons a x), open a x", en), &app(is_nil, cell), &b(false), &LAZY);
        }
        let cell = app!(cl::cons(), a.clone(), x.clone());
        check_prog(ctx, "church head (cons a x), open a x", &app(cl::head(), cell.clone()), &beta(a.clone(), NOR, 0), &LAZY);
        check_prog(ctx, "church is_nil (cons a x), open a x", &app(cl::is_nil(), cell.clone()), &b(false), &LAZY);
        // KNOWN FINDING (known_findings.json): the property's text asks `tail (cons a x) = x` "also for arbitrary …
        // tail terms" in all four encodings.  A Church (fold) list can only return a tail that is itself a list; for
        // x = Var(9) the crate returns a different term.  The negation is a Lean theorem
        // (C16_tail_cons_church_needs_list); the law for every LIST x is C16_tail_cons_church.
        check_prog(ctx, "church tail (cons a x), non-list tail x = Var(9)", &app(cl::tail(), cell), &x, &[NOR]);
    }
    // ---- pair-list library
    for v in &lists {
        let l = plist(v);
        check_prog(ctx, &format!("length {:?}", v), &app(pl::length(), l.clone()), &ch(v.len()), &LAZY_HAP);
        let mut rv = v.clone();
        rv.reverse();
        check_prog(ctx, &format!("reverse {:?}", v), &app(pl::reverse(), l.clone()), &plist(&rv), &LAZY_HAP);
        // list n x1..xn
        let mut t = app(pl::list(), ch(v.len()));
        for x in v {
            t = app(t, ch(*x));
        }
        check_prog(ctx, &format!("list {:?}", v), &t, &l, &LAZY_HAP);
        for i in 0..v.len() {
            check_prog(ctx, &format!("index {} {:?}", i, v), &app!(pl::index(), ch(i), l.clone()), &ch(v[i]), &LAZY_HAP);
        }
        let mapped: Vec<usize> = v.iter().map(|x| x + 1).collect();
        check_prog(ctx, &format!("map succ {:?}", v), &app!(pl::map(), cn::succ(), l.clone()), &plist(&mapped), &LAZY_HAP);
        check_prog(ctx, &format!("foldl add 0 {:?}", v), &app!(pl::foldl(), cn::add(), ch(0), l.clone()), &ch(v.iter().sum()), &LAZY_HAP);
        check_prog(ctx, &format!("foldr add 0 {:?}", v), &app!(pl::foldr(), cn::add(), ch(0), l.clone()), &ch(v.iter().sum()), &LAZY_HAP);
        // non-commutative folds pin the argument order
        let fl = v.iter().fold(1usize, |acc, x| acc.saturating_sub(*x));
        check_prog(ctx, &format!("foldl sub 1 {:?}", v), &app!(pl::foldl(), cn::sub(), ch(1), l.clone()), &ch(fl), &LAZY_HAP);
        let fr = v.iter().rev().fold(1usize, |acc, x| x.saturating_sub(acc));
        check_prog(ctx, &format!("foldr sub 1 {:?}", v), &app!(pl::foldr(), cn::sub(), ch(1), l.clone()), &ch(fr), &LAZY_HAP);
        let filt: Vec<usize> = v.iter().copied().filter(|x| *x == 0).collect();
        check_prog(ctx, &format!("filter is_zero {:?}", v), &app!(pl::filter(), cn::is_zero(), l.clone()), &plist(&filt), &LAZY_HAP);
        let tw: Vec<usize> = v.iter().copied().take_while(|x| *x == 0).collect();
        check_prog(ctx, &format!("take_while is_zero {:?}", v), &app!(pl::take_while(), cn::is_zero(), l.clone()), &plist(&tw), &LAZY_HAP);
        let dw: Vec<usize> = v.iter().copied().skip_while(|x| *x == 0).collect();
        check_prog(ctx, &format!("drop_while is_zero {:?}", v), &app!(pl::drop_while(), cn::is_zero(), l.clone()), &plist(&dw), &LAZY_HAP);
        if !v.is_empty() {
            check_prog(ctx, &format!("last {:?}", v), &app(pl::last(), l.clone()), &ch(*v.last().unwrap()), &LAZY_HAP);
            check_prog(ctx, &format!("init {:?}", v), &app(pl::init(), l.clone()), &plist(&v[..v.len() - 1]), &LAZY_HAP);
        }
        for n in 0..=(v.len() + 1) {
            check_prog(ctx, &format!("take {} {:?}", n, v), &app!(pl::take(), ch(n), l.clone()), &plist(&v[..n.min(v.len())]), &LAZY_HAP);
            check_prog(ctx, &format!("drop {} {:?}", n, v), &app!(pl::drop(), ch(n), l.clone()), &plist(&v[n.min(v.len())..]), &LAZY_HAP);
        }
    }
    for n in 0..=maxlen {
        for y in 0..alpha {
            check_prog(ctx, &format!("replicate {} {}", n, y), &app!(pl::replicate(), ch(n), ch(y)), &plist(&vec![y; n]), &LAZY_HAP);
        }
    }
    // binary functions on pairs of lists
    let short = all_lists(if ctx.thorough { 3 } else { 2 }, alpha);
    for v in &short {
        for w in &short {
            let (l, m) = (plist(v), plist(w));
            let mut cat = v.clone();
            cat.extend(w.iter().copied());
            check_prog(ctx, &format!("append {:?} {:?}", v, w), &app!(pl::append(), l.clone(), m.clone()), &plist(&cat), &LAZY_HAP);
            let zipped: Vec<Term> = v.iter().zip(w.iter()).map(|(x, y)| IntoChurchNum::into_church((*x, *y))).collect();
            check_prog(ctx, &format!("zip {:?} {:?}", v, w), &app!(pl::zip(), l.clone(), m.clone()), &zipped.into_pair_list(), &LAZY_HAP);
            let zw: Vec<usize> = v.iter().zip(w.iter()).map(|(x, y)| x.saturating_sub(*y)).collect();
            check_prog(ctx, &format!("zip_with sub {:?} {:?}", v, w), &app!(pl::zip_with(), cn::sub(), l.clone(), m.clone()), &plist(&zw), &LAZY_HAP);
        }
    }
}

// ------------------------------------------------------------------------------------------ C17
fn nf(t: &Term, lim: usize) -> Option<Term> {
    let mut u = t.clone();
    let c = u.reduce(NOR, lim);
    if c < lim {
        Some(u)
    } else {
        None
    }
}

/// step-wise normal-order run on the implementation with a size cap: Some(steps) if a normal form is reached
/// within the caps.  Payloads are arbitrary terms, so a law instance may diverge or explode; such instances are
/// skipped (counted), never executed with a large budget.
fn safe_steps(t: &Term, max_steps: usize, max_size: usize) -> Option<usize> {
    let mut u = t.clone();
    for k in 0..max_steps {
        if u.reduce(NOR, 1) == 0 {
            return Some(k);
        }
        if crate::codec::size(&u) > max_size {
            return None;
        }
    }
    None
}

/// both sides of an equation must have the same normal form (NOR, budgeted); recorded as two ops
fn check_eq(ctx: &mut Ctx, what: &str, lhs: &Term, rhs: &Term) {
    let (k1, k2) = match (safe_steps(lhs, 3000, 4000), safe_steps(rhs, 3000, 4000)) {
        (Some(a), Some(b)) => (a, b),
        _ => {
            if ctx.strict {
                // payloads that are variables or normal forms: both sides certainly normalise, a skip can only be a bug
                ctx.fail(&format!("{}: an instance with normal-form payloads did not normalise within 3000 steps / 4000 nodes", what), &[reduce_op(NOR, 3000, lhs), reduce_op(NOR, 3000, rhs)]);
            }
            ctx.count("law_instance_skipped_diverging_or_exploding_payload");
            return;
        }
    };
    let bgt = k1.max(k2) + 10;
    let l1 = reduce_op(NOR, bgt, lhs);
    let r1 = ctx.op(&l1);
    ctx.nontrivial(&l1);
    let l2 = reduce_op(NOR, bgt, rhs);
    let r2 = ctx.op(&l2);
    match (parse_reduce(&r1), parse_reduce(&r2)) {
        (Some((c1, a)), Some((c2, bb))) => {
            if c1 >= bgt || c2 >= bgt {
                ctx.count("law_inconclusive");
            } else if a != bb {
                ctx.fail(&format!("{}: the two sides of the equation have different normal forms", what), &[l1, l2]);
            }
        }
        _ => {}
    }
}

/// common reduct for terms without normal form: some limited run of each side coincide
fn check_conv_limited(ctx: &mut Ctx, what: &str, lhs: &Term, rhs: &Term, kmax: usize) {
    let mut ls = Vec::new();
    let mut rs = Vec::new();
    for k in 0..=kmax {
        ls.push(beta(lhs.clone(), NOR, k.max(1)).clone());
        rs.push(beta(rhs.clone(), NOR, k.max(1)).clone());
    }
    ls.push(lhs.clone());
    rs.push(rhs.clone());
    let ok = ls.iter().any(|a| rs.contains(a));
    let l1 = reduce_op(NOR, kmax, lhs);
    ctx.op(&l1);
    ctx.nontrivial(&l1);
    let l2 = reduce_op(NOR, kmax, rhs);
    ctx.op(&l2);
    if !ok {
        ctx.fail(&format!("{}: no common reduct found within {} normal-order steps of each side", what, kmax), &[l1, l2]);
    }
}

pub fn c17(ctx: &mut Ctx) {
    use lambda_calculus::combinators::*;
    use lambda_calculus::data::boolean as bo;
    use lambda_calculus::data::option as op;
    use lambda_calculus::data::pair as pr;
    use lambda_calculus::data::result as re;
    let n = if ctx.thorough { 400 } else { 40 };
    let mut payload_sets: Vec<Vec<Term>> = vec![
        vec![Var(1), Var(2), Var(3), Var(4)],
        vec![app(Var(3), Var(1)), abs(app(Var(1), Var(4))), Var(2), abs(Var(1))],
        // the undefined term UD = Var(0) is a payload like any other: it must come out of every law unshifted and uncaptured
        vec![Var(0), Var(2), Var(3), Var(1)],
        vec![Var(2), Var(0), Var(0), abs(app(Var(1), Var(0)))],
        vec![app(Var(0), Var(1)), Var(3), Var(0), Var(0)],
        // free variables whose index does not fit in 32 bits, bare and under binders of the payload
        vec![Var(1 << 32), abs(app(Var(1), Var((1 << 32) + 1))), Var((1 << 40) + 3), Var(2)],
        vec![abs(abs(app(Var(2), Var((1 << 32) + 2)))), Var(1 << 32), Var(1), abs(Var((1 << 32) + 1))],
    ];
    for _ in 0..n {
        let v: Vec<Term> = (0..4).map(|_| { let bb = 2 + ctx.rng.below(7); random_closed(&mut ctx.rng, bb, 0) }).collect();
        payload_sets.push(v);
        let w: Vec<Term> = (0..4).map(|_| { let bb = 1 + ctx.rng.below(5); random_term(&mut ctx.rng, bb, 0, false, 0) }).collect();
        payload_sets.push(w);
    }
    for (pi, ps) in payload_sets.iter().enumerate() {
        ctx.strict = pi < 7;
        let (x, y, z, f) = (ps[0].clone(), ps[1].clone(), ps[2].clone(), ps[3].clone());
        // payloads may themselves be reducible: compare normal forms of both sides
        check_eq(ctx, "I x = x", &app(I(), x.clone()), &x);
        check_eq(ctx, "K x y = x", &app!(K(), x.clone(), y.clone()), &x);
        check_eq(ctx, "S x y z = x z (y z)", &app!(S(), x.clone(), y.clone(), z.clone()), &app!(x.clone(), z.clone(), app(y.clone(), z.clone())));
        check_eq(ctx, "B x y z = x (y z)", &app!(B(), x.clone(), y.clone(), z.clone()), &app(x.clone(), app(y.clone(), z.clone())));
        check_eq(ctx, "C x y z = x z y", &app!(C(), x.clone(), y.clone(), z.clone()), &app!(x.clone(), z.clone(), y.clone()));
        check_eq(ctx, "W x y = x y y", &app!(W(), x.clone(), y.clone()), &app!(x.clone(), y.clone(), y.clone()));
        check_eq(ctx, "R x f = f x", &app!(R(), x.clone(), f.clone()), &app(f.clone(), x.clone()));
        // pairs
        let p = app!(pr::pair(), x.clone(), y.clone());
        check_eq(ctx, "fst (pair x y) = x", &app(pr::fst(), p.clone()), &x);
        check_eq(ctx, "snd (pair x y) = y", &app(pr::snd(), p.clone()), &y);
        check_eq(ctx, "swap (pair x y) = pair y x", &app(pr::swap(), p.clone()), &app!(pr::pair(), y.clone(), x.clone()));
        check_eq(ctx, "curry f x y = f (pair x y)", &app!(pr::curry(), f.clone(), x.clone(), y.clone()), &app(f.clone(), p.clone()));
        check_eq(ctx, "uncurry f (pair x y) = f x y", &app!(pr::uncurry(), f.clone(), p.clone()), &app!(f.clone(), x.clone(), y.clone()));
        // option
        let so = app(op::some(), x.clone());
        check_eq(ctx, "is_some (some x)", &app(op::is_some(), so.clone()), &b(true));
        check_eq(ctx, "is_none (some x)", &app(op::is_none(), so.clone()), &b(false));
        check_eq(ctx, "is_some none", &app(op::is_some(), op::none()), &b(false));
        check_eq(ctx, "is_none none", &app(op::is_none(), op::none()), &b(true));
        // the From conversions against the encoded constructors (compared in Rust, not only through the model)
        check_eq(ctx, "Term::from(None) = none", &Term::from(None::<Term>), &op::none());
        check_eq(ctx, "Term::from(true) = tru", &Term::from(true), &bo::tru());
        check_eq(ctx, "Term::from(false) = fls", &Term::from(false), &bo::fls());
        check_eq(ctx, "map f (some x) = some (f x)", &app!(op::map(), f.clone(), so.clone()), &app(op::some(), app(f.clone(), x.clone())));
        check_eq(ctx, "map f none = none", &app!(op::map(), f.clone(), op::none()), &op::none());
        check_eq(ctx, "map_or d f (some x) = f x", &app!(op::map_or(), y.clone(), f.clone(), so.clone()), &app(f.clone(), x.clone()));
        check_eq(ctx, "map_or d f none = d", &app!(op::map_or(), y.clone(), f.clone(), op::none()), &y);
        check_eq(ctx, "unwrap_or d (some x) = x", &app!(op::unwrap_or(), y.clone(), so.clone()), &x);
        check_eq(ctx, "unwrap_or d none = d", &app!(op::unwrap_or(), y.clone(), op::none()), &y);
        check_eq(ctx, "and_then (some x) f = f x", &app!(op::and_then(), so.clone(), f.clone()), &app(f.clone(), x.clone()));
        check_eq(ctx, "and_then none f = none", &app!(op::and_then(), op::none(), f.clone()), &op::none());
        // result
        let ok = app(re::ok(), x.clone());
        let er = app(re::err(), x.clone());
        check_eq(ctx, "is_ok (ok x)", &app(re::is_ok(), ok.clone()), &b(true));
        check_eq(ctx, "is_ok (err x)", &app(re::is_ok(), er.clone()), &b(false));
        check_eq(ctx, "is_err (ok x)", &app(re::is_err(), ok.clone()), &b(false));
        check_eq(ctx, "is_err (err x)", &app(re::is_err(), er.clone()), &b(true));
        check_eq(ctx, "option_ok (ok x) = some x", &app(re::option_ok(), ok.clone()), &so);
        check_eq(ctx, "option_ok (err x) = none", &app(re::option_ok(), er.clone()), &op::none());
        check_eq(ctx, "option_err (ok x) = none", &app(re::option_err(), ok.clone()), &op::none());
        check_eq(ctx, "option_err (err x) = some x", &app(re::option_err(), er.clone()), &so);
        check_eq(ctx, "unwrap_or d (ok x) = x", &app!(re::unwrap_or(), y.clone(), ok.clone()), &x);
        check_eq(ctx, "unwrap_or d (err x) = d", &app!(re::unwrap_or(), y.clone(), er.clone()), &y);
        check_eq(ctx, "map f (ok x) = ok (f x)", &app!(re::map(), f.clone(), ok.clone()), &app(re::ok(), app(f.clone(), x.clone())));
        check_eq(ctx, "map f (err x) = err x", &app!(re::map(), f.clone(), er.clone()), &er);
        check_eq(ctx, "map_err f (ok x) = ok x", &app!(re::map_err(), f.clone(), ok.clone()), &ok);
        check_eq(ctx, "map_err f (err x) = err (f x)", &app!(re::map_err(), f.clone(), er.clone()), &app(re::err(), app(f.clone(), x.clone())));
        check_eq(ctx, "and_then (ok x) f = f x", &app!(re::and_then(), ok.clone(), f.clone()), &app(f.clone(), x.clone()));
        check_eq(ctx, "and_then (err x) f = err x", &app!(re::and_then(), er.clone(), f.clone()), &er);
        // if_else
        check_eq(ctx, "if_else tru x y = x", &app!(bo::if_else(), b(true), x.clone(), y.clone()), &x);
        check_eq(ctx, "if_else fls x y = y", &app!(bo::if_else(), b(false), x.clone(), y.clone()), &y);
    }
    // fixed points with a variable and with closed functionals
    for f in [Var(1), abs(Var(2)), abs!(2, Var(2)), abs(app(Var(1), Var(3)))] {
        check_conv_limited(ctx, "Y f =β f (Y f)", &app(Y(), f.clone()), &app(f.clone(), app(Y(), f.clone())), 6);
        check_conv_limited(ctx, "T f =β f (T f)", &app(T(), f.clone()), &app(f.clone(), app(T(), f.clone())), 6);
        // Z f =β f (λv. Z f v) ; f is placed under the new binder, so its free indices are raised by one
        let mut fs = f.clone();
        shift_free(&mut fs, 0);
        check_conv_limited(ctx, "Z f =β f (λv. Z f v)", &app(Z(), f.clone()),
            &app(f.clone(), abs(app!(Z(), fs, Var(1)))), 8);
    }
    // ω, iota, truth tables
    check_eq(ctx, "ω x = x x", &app(o(), Var(1)), &app(Var(1), Var(1)));
    check_eq(ctx, "ι ι = I", &app(i(), i()), &I());
    check_eq(ctx, "ι (ι (ι ι)) = K", &app(i(), app(i(), app(i(), i()))), &K());
    check_eq(ctx, "ι (ι (ι (ι ι))) = S", &app(i(), app(i(), app(i(), app(i(), i())))), &S());
    for p in [false, true] {
        check_eq(ctx, "not", &app(bo::not(), b(p)), &b(!p));
        for q in [false, true] {
            check_eq(ctx, "and", &app!(bo::and(), b(p), b(q)), &b(p && q));
            check_eq(ctx, "or", &app!(bo::or(), b(p), b(q)), &b(p || q));
            check_eq(ctx, "xor", &app!(bo::xor(), b(p), b(q)), &b(p ^ q));
            check_eq(ctx, "nor", &app!(bo::nor(), b(p), b(q)), &b(!(p || q)));
            check_eq(ctx, "xnor", &app!(bo::xnor(), b(p), b(q)), &b(!(p ^ q)));
            check_eq(ctx, "nand", &app!(bo::nand(), b(p), b(q)), &b(!(p && q)));
            check_eq(ctx, "imply", &app!(bo::imply(), b(p), b(q)), &b(!p || q));
        }
    }
    // tuple! / pi!, From conversions of closed payloads
    for nn in 2..=6usize {
        let ts: Vec<Term> = (0..nn).map(|k| abs!(k + 1, Var(1))).collect();
        let mut line = format!("tuple {}", nn);
        for t in &ts {
            line.push(' ');
            line.push_str(&s(t));
        }
        let r = ctx.op(&line);
        let mut it = r.split_ascii_whitespace();
        if let Some(tup) = crate::codec::dec(&mut it) {
            for k in 1..=nn {
                let pl = format!("pi {} {}", k, nn);
                let pr_ = ctx.op(&pl);
                let mut it2 = pr_.split_ascii_whitespace();
                if let Some(pi) = crate::codec::dec(&mut it2) {
                    check_eq(ctx, "pi!(i,n) (tuple!(x1..xn)) = xi", &app(pi, tup.clone()), &ts[k - 1]);
                }
            }
        }
    }
    // open components.  `tuple!` is a term BUILDER like `abs`: it places its component expressions under the tuple's binder as they
    // are, so a component that mentions variables from outside is written one level up (its free indices + 1), exactly like the
    // body handed to `abs`.  The projections then return the component itself (`C17_tuple*_open`)
    {
        fn up(t: &Term, d: usize) -> Term {
            match t {
                Var(i) => if *i > d { Var(*i + 1) } else { Var(*i) },
                Abs(b) => abs(up(b, d + 1)),
                App(p) => app(up(&p.0, d), up(&p.1, d)),
            }
        }
        let xs = [Var(1), Var(5), app(Var(2), abs(app(Var(1), Var(3)))), abs(Var(2)), Var(0), abs(abs(app(Var(4), Var(1))))];
        for nn in 2..=5usize {
            let comps: Vec<Term> = (0..nn).map(|k| xs[(k + nn) % xs.len()].clone()).collect();
            let mut line = format!("tuple {}", nn);
            for t in &comps {
                line.push(' ');
                line.push_str(&s(&up(t, 0)));
            }
            let r = ctx.op(&line);
            let mut it = r.split_ascii_whitespace();
            if let Some(tup) = crate::codec::dec(&mut it) {
                for k in 1..=nn {
                    let pr_ = ctx.op(&format!("pi {} {}", k, nn));
                    let mut it2 = pr_.split_ascii_whitespace();
                    if let Some(pi) = crate::codec::dec(&mut it2) {
                        check_eq(ctx, "pi!(i,n) (tuple!(↑x1..↑xn)) = xi for open components written under the tuple's binder", &app(pi, tup.clone()), &comps[k - 1]);
                    }
                }
            }
        }
    }
    ctx.strict = false;
    for ps in payload_sets.iter().skip(7).step_by(2).take(if ctx.thorough { 100 } else { 15 }) {
        let (x, y) = (ps[0].clone(), ps[1].clone());
        // closed payloads: the From conversion is the normal form of the constructor application
        if let (Some(nx), Some(ny)) = (nf(&x, 2000), nf(&y, 2000)) {
            let fp: Term = (nx.clone(), ny.clone()).into();
            check_eq(ctx, "From<(a,b)> = nf (pair a b)", &app!(pr::pair(), x.clone(), y.clone()), &fp);
            let fo: Term = Some(nx.clone()).into();
            check_eq(ctx, "From<Some(a)> = nf (some a)", &app(op::some(), x.clone()), &fo);
            let fr: Term = Ok::<Term, Term>(nx.clone()).into();
            check_eq(ctx, "From<Ok(a)> = nf (ok a)", &app(re::ok(), x.clone()), &fr);
            let fe: Term = Err::<Term, Term>(nx.clone()).into();
            check_eq(ctx, "From<Err(a)> = nf (err a)", &app(re::err(), x.clone()), &fe);
        }
    }
}

fn shift_free(t: &mut Term, d: usize) {
    match t {
        Var(i) => {
            if *i > d {
                *i += 1
            }
        }
        Abs(bd) => shift_free(bd, d + 1),
        App(p) => {
            shift_free(&mut p.0, d);
            shift_free(&mut p.1, d);
        }
    }
}
