//! Input generation: one xorshift PRNG, bounded-exhaustive enumeration, structured random terms.
use lambda_calculus::*;

#[derive(Clone)]
pub struct Rng(pub u64);

impl Rng {
    pub fn new(seed: u64) -> Rng {
        Rng(seed.wrapping_mul(0x9E3779B97F4A7C15) ^ 0xD1B54A32D192ED03 | 1)
    }
    pub fn next(&mut self) -> u64 {
        let mut x = self.0;
        x ^= x >> 12;
        x ^= x << 25;
        x ^= x >> 27;
        self.0 = x;
        x.wrapping_mul(0x2545F4914F6CDD1D)
    }
    pub fn below(&mut self, n: usize) -> usize {
        if n == 0 {
            0
        } else {
            (self.next() >> 11) as usize % n
        }
    }
    pub fn chance(&mut self, num: usize, den: usize) -> bool {
        self.below(den) < num
    }
    pub fn pick<'a, T>(&mut self, v: &'a [T]) -> &'a T {
        &v[self.below(v.len())]
    }
}

/// all terms with exactly `size` constructors, occurring under `depth` binders,
/// variable indices in 0..=depth+free
pub fn enum_exact(size: usize, depth: usize, free: usize, out: &mut Vec<Term>) {
    if size == 0 {
        return;
    }
    if size == 1 {
        for i in 0..=depth + free {
            out.push(Var(i));
        }
        return;
    }
    // abs
    let mut bodies = Vec::new();
    enum_exact(size - 1, depth + 1, free, &mut bodies);
    for b in bodies {
        out.push(abs(b));
    }
    // app
    for ls in 1..size - 1 {
        let rs = size - 1 - ls;
        let mut l = Vec::new();
        enum_exact(ls, depth, free, &mut l);
        let mut r = Vec::new();
        enum_exact(rs, depth, free, &mut r);
        for a in &l {
            for b in &r {
                out.push(app(a.clone(), b.clone()));
            }
        }
    }
}

pub fn enum_upto(max_size: usize, free: usize) -> Vec<Term> {
    let mut out = Vec::new();
    for s in 1..=max_size {
        enum_exact(s, 0, free, &mut out);
    }
    out
}

/// random term: `budget` constructors (approximately), depth-aware index choice:
/// ~70% bound, ~25% free (small), ~5% UD when `ud` is allowed
pub fn random_term(r: &mut Rng, budget: usize, depth: usize, ud: bool, redex_bias: usize) -> Term {
    if budget <= 1 {
        return random_var(r, depth, ud);
    }
    let c = r.below(100);
    if c < 30 {
        abs(random_term(r, budget - 1, depth + 1, ud, redex_bias))
    } else if c < 30 + redex_bias && budget >= 3 {
        // a redex
        let lb = 1 + r.below(budget - 2);
        let body = random_term(r, lb.saturating_sub(1).max(1), depth + 1, ud, redex_bias);
        let arg = random_term(r, (budget - 1 - lb).max(1), depth, ud, redex_bias);
        app(abs(body), arg)
    } else if c < 92 {
        let lb = 1 + r.below(budget - 1);
        let l = random_term(r, lb, depth, ud, redex_bias);
        let rt = random_term(r, (budget - 1).saturating_sub(lb).max(1), depth, ud, redex_bias);
        app(l, rt)
    } else {
        random_var(r, depth, ud)
    }
}

pub fn random_var(r: &mut Rng, depth: usize, ud: bool) -> Term {
    let c = r.below(100);
    if ud && c < 5 {
        Var(0)
    } else if ud && c < 7 {
        // free variables whose index does not fit in 32 bits (the model's indices are unbounded naturals; the
        // crate's are usize): exercises index arithmetic far away from the small values every test uses
        let big: [usize; 5] = [1 << 32, (1 << 32) + 1, 1 << 31, (1 << 33) - 1, (1 << 40) + 3];
        Var(depth + big[r.below(big.len())])
    } else if depth > 0 && c < 75 {
        Var(1 + r.below(depth))
    } else {
        Var(depth + 1 + r.below(3))
    }
}

/// a closed random term (all indices bound), used for payloads
pub fn random_closed(r: &mut Rng, budget: usize, depth: usize) -> Term {
    if depth == 0 {
        return abs(random_closed(r, budget.saturating_sub(1), 1));
    }
    if budget <= 1 {
        return Var(1 + r.below(depth));
    }
    let c = r.below(100);
    if c < 35 {
        abs(random_closed(r, budget - 1, depth + 1))
    } else {
        let lb = 1 + r.below(budget - 1);
        app(
            random_closed(r, lb, depth),
            random_closed(r, (budget - 1).saturating_sub(lb).max(1), depth),
        )
    }
}

/// mutate a term slightly (for near-equal pairs)
pub fn mutate(r: &mut Rng, t: &Term) -> Term {
    match t {
        Var(i) => {
            if r.chance(1, 2) {
                Var(i + 1)
            } else {
                abs(Var(*i))
            }
        }
        Abs(b) => {
            if r.chance(1, 3) {
                (**b).clone()
            } else {
                abs(mutate(r, b))
            }
        }
        App(b) => {
            let c = r.below(5);
            if c == 4 {
                // drop an INNER argument of an application spine: f a b  ->  f b
                if let App(inner) = &b.0 {
                    return app(inner.0.clone(), b.1.clone());
                }
                return app(b.0.clone(), mutate(r, &b.1));
            }
            if c == 0 {
                app(b.1.clone(), b.0.clone())
            } else if c == 1 {
                app(mutate(r, &b.0), b.1.clone())
            } else if c == 2 {
                app(b.0.clone(), mutate(r, &b.1))
            } else {
                b.0.clone()
            }
        }
    }
}
