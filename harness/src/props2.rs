//! Property runners C09–C12 (parser, printers, encoders) with their independent oracles.
use crate::codec::{self, s, size};
use crate::ctx::*;
use crate::gen::*;
use crate::ops2::{into_num, string_wire};
use crate::refeng::*;
use lambda_calculus::data::num::convert::Encoding;
/// the lambda glyph this build of the crate must print: decided by the cargo feature the HARNESS was built with (which
/// switches the crate's `backslash_lambda` feature on), not read from the crate's own constant
const EXPECTED_LAMBDA: char = if cfg!(feature = "backslash") { '\\' } else { 'λ' };
use lambda_calculus::*;

// ---------------------------------------------------------------- reference grammar (token level)
#[derive(Clone, Debug, PartialEq)]
pub enum Tk {
    Lam(Option<String>), // binder name for Classic
    LP,
    RP,
    Idx(usize),
    Name(String),
}

#[derive(Clone, Debug)]
enum NT {
    Var(usize),
    Name(String),
    Lam(Option<String>, Box<NT>),
    Ap(Box<NT>, Box<NT>),
}

/// expr ::= 'λ' expr | atom+ ('λ' expr)?     atom ::= index | name | '(' expr ')'
fn ref_expr(ts: &[Tk], pos: &mut usize) -> Option<NT> {
    let mut acc: Option<NT> = None;
    loop {
        match ts.get(*pos) {
            Some(Tk::Lam(n)) => {
                *pos += 1;
                let body = ref_expr(ts, pos)?;
                let l = NT::Lam(n.clone(), Box::new(body));
                return Some(match acc {
                    None => l,
                    Some(a) => NT::Ap(Box::new(a), Box::new(l)),
                });
            }
            Some(Tk::Idx(i)) => {
                *pos += 1;
                let a = NT::Var(*i);
                acc = Some(match acc {
                    None => a,
                    Some(f) => NT::Ap(Box::new(f), Box::new(a)),
                });
            }
            Some(Tk::Name(n)) => {
                *pos += 1;
                let a = NT::Name(n.clone());
                acc = Some(match acc {
                    None => a,
                    Some(f) => NT::Ap(Box::new(f), Box::new(a)),
                });
            }
            Some(Tk::LP) => {
                *pos += 1;
                let e = ref_expr(ts, pos)?;
                if ts.get(*pos) != Some(&Tk::RP) {
                    return None;
                }
                *pos += 1;
                acc = Some(match acc {
                    None => e,
                    Some(f) => NT::Ap(Box::new(f), Box::new(e)),
                });
            }
            Some(Tk::RP) | None => return acc,
        }
    }
}

fn ref_parse_tokens(ts: &[Tk]) -> Option<NT> {
    let mut pos = 0;
    let e = ref_expr(ts, &mut pos)?;
    if pos == ts.len() {
        Some(e)
    } else {
        None
    }
}

/// names to indices: innermost binder wins; free names numbered by first appearance above the binders in scope
fn to_db(t: &NT, binders: &mut Vec<String>, free: &mut Vec<String>) -> Term {
    match t {
        NT::Var(i) => Var(*i),
        NT::Name(n) => {
            if let Some(p) = binders.iter().rposition(|b| b == n) {
                Var(binders.len() - p)
            } else {
                let r = match free.iter().position(|f| f == n) {
                    Some(r) => r,
                    None => {
                        free.push(n.clone());
                        free.len() - 1
                    }
                };
                Var(binders.len() + r + 1)
            }
        }
        NT::Lam(n, b) => {
            binders.push(n.clone().unwrap_or_default());
            let r = to_db(b, binders, free);
            binders.pop();
            abs(r)
        }
        NT::Ap(l, r) => {
            let a = to_db(l, binders, free);
            let b = to_db(r, binders, free);
            app(a, b)
        }
    }
}

pub fn ref_parse(ts: &[Tk]) -> Option<Term> {
    ref_parse_tokens(ts).map(|e| to_db(&e, &mut Vec::new(), &mut Vec::new()))
}

fn render(ts: &[Tk], style: usize, r: &mut Rng) -> String {
    let mut out = String::new();
    for (i, t) in ts.iter().enumerate() {
        let piece = match t {
            Tk::Lam(None) => (if style % 2 == 0 { "λ" } else { "\\" }).to_string(),
            Tk::Lam(Some(n)) => format!("{}{}.", if style % 2 == 0 { "λ" } else { "\\" }, n),
            Tk::LP => "(".into(),
            Tk::RP => ")".into(),
            // both cases of the hexadecimal digits are documented input (styles 2 and 5 write lower case)
            Tk::Idx(i) => if style == 2 || style == 5 { format!("{:x}", i) } else { format!("{:X}", i) },
            Tk::Name(n) => n.clone(),
        };
        // separator before this token
        // a variable name must be separated from a following name; either glyph ends an identifier (repairs F9, F11:
        // `x\y.y` and `xλy.y` are both `x (λy.y)`), so a binder needs no separator
        let need = i > 0 && matches!(ts[i - 1], Tk::Name(_)) && matches!(t, Tk::Name(_));
        let sep = match style {
            0 | 1 => if need { " " } else { "" }.to_string(),
            2 | 3 => " ".to_string(),
            _ => {
                let k = r.below(3);
                let ws = [" ", "\t", "\n", "  ", "\u{3000}", "\r", "\u{00A0}", "\u{0085}", "\u{2028}", "\u{000B}", "\u{000C}"];
                let mut sx = String::new();
                for _ in 0..k {
                    sx.push_str(ws[r.below(ws.len())]);
                }
                if need && sx.is_empty() {
                    sx.push(' ');
                }
                sx
            }
        };
        out.push_str(&sep);
        out.push_str(&piece);
    }
    if style >= 4 && r.chance(1, 2) {
        out.push(' ');
    }
    out
}

fn enum_tokens(alpha: &[Tk], len: usize, cur: &mut Vec<Tk>, out: &mut Vec<Vec<Tk>>) {
    if cur.len() == len {
        out.push(cur.clone());
        return;
    }
    for a in alpha {
        cur.push(a.clone());
        enum_tokens(alpha, len, cur, out);
        cur.pop();
    }
}

fn parse_result(r: &str) -> Option<Result<Term, String>> {
    if let Some(rest) = r.strip_prefix("ok ") {
        let mut it = rest.split_ascii_whitespace();
        codec::dec(&mut it).map(Ok)
    } else if r.starts_with("err ") {
        Some(Err(r.to_string()))
    } else {
        None
    }
}

/// to the De Bruijn token sequence corresponding to a Classic one (same structure, names replaced by indices)
fn corresponding_dbr(cts: &[Tk]) -> Option<Vec<Tk>> {
    // resolve names with the reference translation on the flat token list: binder stack per parenthesis level
    let mut out = Vec::new();
    let mut binders: Vec<String> = Vec::new();
    let mut frames: Vec<usize> = vec![0];
    let mut free: Vec<String> = Vec::new();
    for t in cts {
        match t {
            Tk::Lam(Some(n)) => {
                binders.push(n.clone());
                *frames.last_mut().unwrap() += 1;
                out.push(Tk::Lam(None));
            }
            Tk::LP => {
                frames.push(0);
                out.push(Tk::LP);
            }
            Tk::RP => {
                let k = frames.pop()?;
                if frames.is_empty() {
                    return None;
                }
                for _ in 0..k {
                    binders.pop();
                }
                out.push(Tk::RP);
            }
            Tk::Name(n) => {
                if let Some(p) = binders.iter().rposition(|b| b == n) {
                    out.push(Tk::Idx(binders.len() - p));
                } else {
                    let r = match free.iter().position(|f| f == n) {
                        Some(r) => r,
                        None => {
                            free.push(n.clone());
                            free.len() - 1
                        }
                    };
                    out.push(Tk::Idx(binders.len() + r + 1));
                }
            }
            _ => return None,
        }
    }
    Some(out)
}

/// The Lean theorems about the lexers are proved for ANY character classification satisfying a short list of
/// hypotheses (DESIGN §3.4); here those hypotheses are checked against Rust's `char` methods for ALL code points.
pub fn check_char_classes(ctx: &mut Ctx) {
    let mut n = 0u64;
    let mut bad: Vec<String> = Vec::new();
    for cp in 0..=0x10FFFFu32 {
        let c = match char::from_u32(cp) {
            Some(c) => c,
            None => continue,
        };
        n += 1;
        let (ws, al, an, dg) = (c.is_whitespace(), c.is_alphabetic(), c.is_alphanumeric(), c.to_digit(16));
        let expect_dg = match c {
            '0'..='9' => Some(cp - 48),
            'A'..='F' => Some(cp - 55),
            'a'..='f' => Some(cp - 87),
            _ => None,
        };
        if dg != expect_dg {
            bad.push(format!("to_digit(16) of U+{:04X}", cp));
        }
        if ws && (al || an || dg.is_some()) {
            bad.push(format!("whitespace U+{:04X} is alphabetic/alphanumeric/hex", cp));
        }
        if al && !an {
            bad.push(format!("alphabetic U+{:04X} is not alphanumeric", cp));
        }
        if ('a'..='z').contains(&c) && !al {
            bad.push(format!("lower-case letter U+{:04X} is not alphabetic", cp));
        }
        if matches!(c, '(' | ')' | '.' | '\\') && (ws || al || an || dg.is_some()) {
            bad.push(format!("delimiter U+{:04X} misclassified", cp));
        }
        if c == 'λ' && (ws || dg.is_some()) {
            bad.push("lambda glyph misclassified".into());
        }
        if c == ' ' && !ws {
            bad.push("space is not whitespace".into());
        }
    }
    ctx.add("char_class_code_points_checked", n);
    for b in bad.iter().take(5) {
        ctx.fail(&format!("character-class hypothesis of the lexer theorems does not hold: {}", b), &[]);
    }
}

pub fn c09(ctx: &mut Ctx) {
    check_char_classes(ctx);
    // soak shards: short exhaustive part (the main run has the long one), the random parts below carry the weight
    let (ld, lc) = if ctx.soak { (4, 3) } else if ctx.thorough { (8, 7) } else { (6, 5) };
    // ---------------- De Bruijn
    let alpha_d = vec![Tk::Lam(None), Tk::LP, Tk::RP, Tk::Idx(1), Tk::Idx(2), Tk::Idx(11)];
    let mut seqs = Vec::new();
    for l in 0..=ld {
        let mut v = Vec::new();
        enum_tokens(&alpha_d, l, &mut Vec::new(), &mut v);
        seqs.extend(v);
    }
    ctx.add("dbr_token_sequences", seqs.len() as u64);
    for (k, ts) in seqs.iter().enumerate() {
        let expect = ref_parse(ts);
        if expect.is_some() {
            ctx.count("dbr_well_formed");
        }
        let styles: Vec<usize> = if ts.len() <= 4 || k % 7 == 0 { vec![0, 3, 4] } else { vec![k % 5] };
        for st in styles {
            let sx = render(ts, st, &mut ctx.rng);
            check_parse(ctx, "d", &sx, &expect);
        }
        // stage level: the public pipeline stages get_ast and fold_exprs on the same token sequence (with indices
        // of any size, which the lexer can never produce but the public functions accept)
        if k % 2 == 0 {
            check_stages(ctx, ts, &expect, if k % 6 == 0 { 1 << 33 } else { 0 });
        }
    }
    // random Expression trees for fold_exprs (empty groups, lone abstractions, big variables): tie only
    let n_expr = if ctx.thorough { 20000 } else { 3000 };
    for _ in 0..n_expr {
        let n = ctx.rng.below(5);
        let mut words = vec![format!("fold {}", n)];
        for _ in 0..n {
            random_expr(&mut ctx.rng, 3, &mut words);
        }
        let line = words.join(" ");
        let r = ctx.op(&line);
        if r.starts_with("ok ") {
            ctx.nontrivial(&line);
        }
        ctx.count("fold_exprs_random_trees");
    }
    // every hexadecimal digit in both cases (0 is UD), alone, under a binder and in operand position
    for d in 0..16usize {
        let cases: Vec<(String, Term)> = vec![
            (format!("{:x}", d), Var(d)),
            (format!("{:X}", d), Var(d)),
            (format!("λ{:x}", d), abs(Var(d))),
            (format!("\\{:X}", d), abs(Var(d))),
            (format!("1{:x}", d), app(Var(1), Var(d))),
            (format!("({:X}) {:x}", d, d), app(Var(d), Var(d))),
        ];
        for (sx, expect) in cases {
            check_parse(ctx, "d", &sx, &Some(expect));
            ctx.count("hex_digit_inputs");
        }
    }
    // ---------------- Classic
    let alpha_c = vec![
        Tk::Lam(Some("x".into())),
        Tk::Lam(Some("y".into())),
        Tk::LP,
        Tk::RP,
        Tk::Name("x".into()),
        Tk::Name("y".into()),
        Tk::Name("z".into()),
    ];
    let mut seqs = Vec::new();
    for l in 0..=lc {
        let mut v = Vec::new();
        enum_tokens(&alpha_c, l, &mut Vec::new(), &mut v);
        seqs.extend(v);
    }
    ctx.add("cla_token_sequences", seqs.len() as u64);
    for (k, ts) in seqs.iter().enumerate() {
        let expect = ref_parse(ts);
        if expect.is_some() {
            ctx.count("cla_well_formed");
        }
        let styles: Vec<usize> = if ts.len() <= 3 || k % 7 == 0 { vec![0, 3, 4] } else { vec![k % 5] };
        for st in styles {
            let sx = render(ts, st, &mut ctx.rng);
            check_parse(ctx, "c", &sx, &expect);
        }
        // the two notations agree on corresponding inputs
        if k % 3 == 0 {
            if let Some(d) = corresponding_dbr(ts) {
                if d.iter().all(|t| !matches!(t, Tk::Idx(i) if *i > 15)) {
                    let e2 = ref_parse(&d);
                    if expect.is_some() && e2 != expect {
                        ctx.fail("oracle bug: corresponding token sequences differ in the reference", &[]);
                    }
                    let sd = render(&d, 0, &mut ctx.rng);
                    check_parse(ctx, "d", &sd, &expect);
                    ctx.count("notation_pairs");
                }
            }
        }
    }
    // longer structured random expressions: print a random term in both notations by hand-made renderers
    let n = if ctx.thorough { 20000 } else { 2500 };
    for k3 in 0..n {
        let b = 3 + ctx.rng.below(25);
        let t = random_term(&mut ctx.rng, b, 0, false, 10);
        // every third term uses identifiers that LOOK special (the word Display prints for UD, constructor names, the
        // spelled-out glyph) but are ordinary names by the documented lexical rules
        let plain = ["a", "b", "x", "y", "foo", "x1", "ƒ", "ℵ", "é2"];
        let wordy = ["undefined", "UD", "lambda", "undefine", "undefined1", "nil", "Var", "x", "y"];
        let names = if k3 % 3 == 2 { wordy } else { plain };
        let mut ts = Vec::new();
        term_tokens_named(&t, 0, &mut Vec::new(), &names, &mut ctx.rng, k3 % 3 == 2, &mut ts);
        let expect = ref_parse(&ts);
        let st = ctx.rng.below(6);
        let sx = render(&ts, st, &mut ctx.rng);
        check_parse(ctx, "c", &sx, &expect);
        // redundant parentheses around the whole input and De Bruijn rendering with max index 15
        if max_index(&t) <= 15 {
            let mut td = Vec::new();
            term_tokens_dbr(&t, 0, &mut ctx.rng, &mut td);
            let ed = ref_parse(&td);
            if ed.as_ref() != Some(&t) {
                ctx.fail("oracle bug: reference parse of a rendered term differs from the term", &[]);
            }
            let st = ctx.rng.below(6);
            let sx = render(&td, st, &mut ctx.rng);
            check_parse(ctx, "d", &sx, &ed);
            let wrapped = format!("({})", sx);
            check_parse(ctx, "d", &wrapped, &ed);
        }
    }
    // ---------------- DEEP structures (nothing above nests more than a dozen levels): parentheses nested 254/255/256/257/300/600 deep
    // in both notations, a Classic variable referring to a binder that many levels up, and that many distinct free names
    for n in [254usize, 255, 256, 257, 300, 600] {
        // right-nested applications 1(1(1(…))) : n opening parentheses
        let mut t = Var(1);
        for _ in 0..n {
            t = app(Var(1), t);
        }
        let mut td = Vec::new();
        term_tokens_dbr(&t, 0, &mut Rng::new(7), &mut td);
        let ed = ref_parse(&td);
        let sx = render(&td, 0, &mut ctx.rng);
        check_parse(ctx, "d", &sx, &ed);
        let sc: String = format!("{}{}", "x (".repeat(n), "x") + &")".repeat(n);
        check_parse(ctx, "c", &sc, &Some(t.clone()));
        // abstractions in operand position, n deep: 1(λ1(λ1(…)))
        let mut u = Var(1);
        for _ in 0..n {
            u = app(Var(1), abs(u));
        }
        let mut tu = Vec::new();
        term_tokens_dbr(&u, 0, &mut Rng::new(9), &mut tu);
        let eu = ref_parse(&tu);
        let su = render(&tu, 1, &mut ctx.rng);
        check_parse(ctx, "d", &su, &eu);
        // λx. λy.…(n times)… x   : the variable refers to the binder n + 1 levels up
        let sb: String = format!("λx.{}x", "λy.".repeat(n));
        let mut eb = Var(n + 1);
        for _ in 0..=n {
            eb = abs(eb);
        }
        check_parse(ctx, "c", &sb, &Some(eb));
        // n distinct free names, the first one used again at the end: v0 v1 … v(n-1) v0
        let names: Vec<String> = (0..n).map(|i| format!("v{}", i)).collect();
        let sf = format!("{} v0", names.join(" "));
        let mut ef = Var(1);
        for i in 1..n {
            ef = app(ef, Var(i + 1));
        }
        ef = app(ef, Var(1));
        check_parse(ctx, "c", &sf, &Some(ef));
        ctx.count("deep_structures");
    }
    // ---------------- lexical errors: first character that cannot start/continue a token
    let bad = ['-', '+', '#', '_', '.', '!', 'g', 'z', 'G', '[', 'ƒ'];
    let n = if ctx.thorough { 6000 } else { 1200 };
    for _ in 0..n {
        let l = ctx.rng.below(7);
        let mut chars: Vec<char> = Vec::new();
        let ok_chars = ['λ', '\\', '(', ')', '1', '2', 'a', 'F', ' ', '\t', '0', 'c', 'd', 'e', 'f', 'E', '7', '8'];
        for _ in 0..l {
            chars.push(*ctx.rng.pick(&ok_chars));
        }
        let pos = ctx.rng.below(chars.len() + 1);
        let c = *ctx.rng.pick(&bad);
        chars.insert(pos, c);
        let sx: String = chars.iter().collect();
        let line = format!("parse d {}", string_wire(&sx));
        let r = ctx.op(&line);
        ctx.nontrivial(&line);
        // first offending char by the documented lexical rules of the De Bruijn notation
        let first = sx.chars().enumerate().find(|(_, ch)| {
            !(*ch == 'λ' || *ch == '\\' || *ch == '(' || *ch == ')' || ch.is_ascii_hexdigit() || ch.is_whitespace())
        });
        if let Some((i, ch)) = first {
            if r != format!("err IC {} {}", i, ch as u32) {
                ctx.fail("invalid character not reported as InvalidCharacter with its character index", &[line.clone()]);
            }
        }
        let line2 = format!("lexd {}", string_wire(&sx));
        ctx.op(&line2);
    }
    // Classic: a character that cannot start a token, at a token boundary
    for _ in 0..n {
        let good = ["λx.", "\\y.", "(", ")", "x", "y1", "ab", " ", " "];
        let k = ctx.rng.below(6);
        let mut sx = String::new();
        for _ in 0..k {
            let g: &str = *ctx.rng.pick(&good[..]);
            sx.push_str(g);
            sx.push(' ');
        }
        let idx = sx.chars().count();
        let c = *ctx.rng.pick(&['-', '+', '#', '1', '.', '!', '9', '[']);
        sx.push(c);
        sx.push_str(" x");
        let line = format!("parse c {}", string_wire(&sx));
        let r = ctx.op(&line);
        ctx.nontrivial(&line);
        if r != format!("err IC {} {}", idx, c as u32) {
            ctx.fail("Classic: character that cannot start a token not reported as InvalidCharacter(index, char)", &[line.clone()]);
        }
        let line2 = format!("lexc {}", string_wire(&sx));
        ctx.op(&line2);
    }
    // Classic: a character that cannot start a token DIRECTLY AFTER a variable name (no separator): an identifier is
    // its alphabetic first character plus alphanumeric ones, so the junk is not part of it and must be reported with
    // its own index (repair F10: it used to be swallowed into the name — `λx.x-` parsed as λ2)
    for _ in 0..n {
        let good = ["λx.", "\\y.", "(", ")", "x ", "y1 ", "ab ", " "];
        let k = ctx.rng.below(5);
        let mut sx = String::new();
        for _ in 0..k {
            let g: &str = *ctx.rng.pick(&good[..]);
            sx.push_str(g);
        }
        let name: &str = *ctx.rng.pick(&["x", "y1", "ab", "é2", "foo"][..]);
        sx.push_str(name);
        let idx = sx.chars().count();
        let c = *ctx.rng.pick(&['-', '+', '#', '.', '!', '[', '_', '\'', '*']);
        sx.push(c);
        if ctx.rng.chance(1, 2) {
            sx.push_str(" x");
        }
        let line = format!("parse c {}", string_wire(&sx));
        let r = ctx.op(&line);
        ctx.nontrivial(&line);
        if r != format!("err IC {} {}", idx, c as u32) {
            ctx.fail("Classic: a character that cannot start a token, directly after a name, is not reported as InvalidCharacter(index, char)", &[line.clone()]);
        }
        ctx.count("junk_directly_after_name");
    }
    // Classic: an invalid character INSIDE a binder name (λname.), in the first binder or in a later one: the first
    // character of every binder name must be a letter, the others alphanumeric, up to the dot
    for _ in 0..n {
        let good = ["λx.", "\\y1.", "λab.", "(", "x ", " "];
        let k = ctx.rng.below(4);
        let mut sx = String::new();
        for _ in 0..k {
            let g: &str = *ctx.rng.pick(&good[..]);
            sx.push_str(g);
        }
        sx.push(if ctx.rng.chance(1, 2) { 'λ' } else { '\\' });
        // a bad binder: (prefix of valid name characters, offending character)
        // (("", '.') is the EMPTY binder name, `λ.x`: repair F12)
        let (pre, c): (&str, char) = *ctx.rng.pick(&[("", '1'), ("", '9'), ("", ' '), ("", '('), ("", '-'), ("x", ' '), ("x", '-'), ("ab", '('),
            ("y1", ')'), ("x", 'λ'), ("", '\\'), ("a", '#'), ("", '\u{0660}'), ("z", '\t'), ("", '.'), ("", '.')][..]);
        // the glyph λ INSIDE a binder name is read as a letter by the crate (pinned by its test `λλλ`): known finding, checked
        // separately below on fixed inputs
        if c == 'λ' {
            continue;
        }
        sx.push_str(pre);
        let idx = sx.chars().count();
        sx.push(c);
        sx.push_str(if ctx.rng.chance(1, 2) { ".x" } else { "x. x" });
        let line = format!("parse c {}", string_wire(&sx));
        let r = ctx.op(&line);
        ctx.nontrivial(&line);
        if r != format!("err IC {} {}", idx, c as u32) {
            ctx.fail("Classic: an invalid character inside a binder name is not reported as InvalidCharacter(index, char)", &[line.clone()]);
        }
        ctx.count("invalid_char_in_binder");
    }
    // Classic: a glyph DIRECTLY after a variable name opens a binder, whichever glyph it is (repairs F9, F11); the two
    // spellings must give the same result, which is the reference parse
    {
        let heads = ["", "λf.", "(", "\\g. g ", "a b "];
        let names = ["x", "y1", "ab", "é2", "f"];
        let tails = ["y.y", "y.x", "x.x y", "z1.(z1 x)", "y.λz.y", "y.y)"];
        for h in heads.iter() {
            for nm in names.iter() {
                for t in tails.iter() {
                    let mk = |g: char| format!("{}{}{}{}", h, nm, g, t);
                    let (l1, l2) = (format!("parse c {}", string_wire(&mk('λ'))), format!("parse c {}", string_wire(&mk('\\'))));
                    let (r1, r2) = (ctx.op(&l1), ctx.op(&l2));
                    ctx.nontrivial(&l1);
                    if r1 != r2 {
                        ctx.fail("Classic: a glyph directly after a variable name gives different results for the two glyphs", &[l1.clone(), l2.clone()]);
                    }
                    // with a separator in front of the glyph the input is an ordinary rendering: same result again
                    let l3 = format!("parse c {}", string_wire(&format!("{}{} λ{}", h, nm, t)));
                    let r3 = ctx.op(&l3);
                    if r1 != r3 {
                        ctx.fail("Classic: a glyph directly after a variable name does not open a binder (result differs from the separated spelling)", &[l1, l3]);
                    }
                    ctx.count("glyph_directly_after_name");
                }
            }
        }
    }
    // KNOWN FINDING (known_findings.json, DESIGN §8b): INSIDE a binder name the crate reads the glyph λ as a letter (the
    // crate's own test `parse("λλλ", Classic) = EmptyExpression` pins exactly that), so these ill-formed inputs are
    // accepted with λ and rejected with the backslash
    for (with_lambda, with_backslash) in [("λxλy.x", "\\x\\y.x"), ("\\λ.x", "\\\\.x")] {
        let (l1, l2) = (format!("parse c {}", string_wire(with_lambda)), format!("parse c {}", string_wire(with_backslash)));
        let (r1, r2) = (ctx.op(&l1), ctx.op(&l2));
        ctx.nontrivial(&l1);
        let glyphless = |r: &str| r.replace(" 955", " G").replace(" 92", " G");
        if glyphless(&r1) != glyphless(&r2) {
            ctx.fail(&format!("Classic: the glyph λ inside a binder name is read as a letter: {:?} and {:?} give different results", with_lambda, with_backslash), &[l1, l2]);
        }
    }
    // ---------------- Display of ParseError (string table with formatting of index and character)
    for line in ["errmsg parse IE", "errmsg parse EE"] {
        ctx.op(line);
        ctx.nontrivial(line);
    }
    for _ in 0..(if ctx.thorough { 2000 } else { 300 }) {
        let i = match ctx.rng.below(4) { 0 => 0, 1 => ctx.rng.below(10), 2 => ctx.rng.below(1000), _ => ctx.rng.below(1 << 40) };
        let c = *ctx.rng.pick(&['x', '-', '\'', 'ƒ', '\u{3000}', '9', '\\']);
        let line = format!("errmsg parse IC {} {}", i, c as u32);
        let r = ctx.op(&line);
        ctx.nontrivial(&line);
        let want = format!("lexical error; invalid character '{}' at {}", c, i);
        let w: Vec<String> = want.chars().map(|ch| (ch as u32).to_string()).collect();
        if r != format!("{} {}", w.len(), w.join(" ")) {
            // the wording of messages is behaviour no property speaks about: advisory
            ctx.note("Display of ParseError::InvalidCharacter is not the message the harness expects");
        }
    }
    // ---------------- arbitrary strings: no panic (PANIC is flagged by ctx.op), stages agree with the model
    let pool: Vec<char> = "λ\\().  \t\n\r\u{000B}\u{000C}\u{0085}\u{00A0}\u{2028}abcdefxyzAF0123456789gG-_#ƒℵé\u{3000}\u{0660}Ⅷ𝒳".chars().collect();
    let n = if ctx.thorough { 60000 } else { 8000 };
    for i in 0..n {
        let l = ctx.rng.below(13);
        let sx: String = (0..l).map(|_| *ctx.rng.pick(&pool)).collect();
        let which = if i % 2 == 0 { "d" } else { "c" };
        let line = format!("parse {} {}", which, string_wire(&sx));
        ctx.op(&line);
        if i % 4 == 1 {
            let line = format!("lexc {}", string_wire(&sx));
            let r = ctx.op(&line);
            // feed the token list to the converter stage
            if let Some(rest) = r.strip_prefix("ok") {
                let toks: Vec<&str> = rest.split_ascii_whitespace().collect();
                let line = format!("conv {} {}", toks.len(), toks.join(" "));
                ctx.op(&line);
            }
        }
        ctx.count("arbitrary_strings");
    }
}

fn max_index(t: &Term) -> usize {
    match t {
        Var(i) => *i,
        Abs(b) => max_index(b),
        App(p) => max_index(&p.0).max(max_index(&p.1)),
    }
}

fn random_expr(r: &mut Rng, depth: usize, out: &mut Vec<String>) {
    let c = r.below(10);
    if c < 2 {
        out.push("A".into());
    } else if c < 6 || depth == 0 {
        let big: [usize; 4] = [0, 16, 1 << 32, usize::MAX];
        let i = if r.chance(1, 10) { big[r.below(4)] } else { 1 + r.below(5) };
        out.push(format!("V{}", i));
    } else {
        let n = r.below(4);
        out.push(format!("S{}", n));
        for _ in 0..n {
            random_expr(r, depth - 1, out);
        }
    }
}

/// get_ast and fold_exprs, called directly: together they must accept exactly the well-formed token sequences
/// and give the denoted term; `bump` is added to every index (the lexer only produces 0..=15, the stages take any)
fn check_stages(ctx: &mut Ctx, ts: &[Tk], expect: &Option<Term>, bump: usize) {
    fn bump_term(t: &Term, b: usize) -> Term {
        match t {
            Var(i) => Var(i + b),
            Abs(x) => abs(bump_term(x, b)),
            App(p) => app(bump_term(&p.0, b), bump_term(&p.1, b)),
        }
    }
    let words: Vec<String> = ts
        .iter()
        .map(|t| match t {
            Tk::Lam(_) => "L".to_string(),
            Tk::LP => "(".to_string(),
            Tk::RP => ")".to_string(),
            Tk::Idx(i) => format!("N{}", i + bump),
            Tk::Name(_) => "N1".to_string(),
        })
        .collect();
    let line = format!("ast {} {}", words.len(), words.join(" "));
    let r = ctx.op(&line);
    ctx.count("stage_get_ast");
    if let Some(rest) = r.strip_prefix("ok ") {
        // the result of get_ast is a Sequence; parse() folds its children
        let mut it = rest.split_ascii_whitespace();
        let head = it.next().unwrap_or("");
        if !head.starts_with('S') {
            ctx.note("get_ast returned something that is not a Sequence");
            return;
        }
        let fl = format!("fold {} {}", &head[1..], it.collect::<Vec<_>>().join(" "));
        let fr = ctx.op(&fl);
        ctx.count("stage_fold_exprs");
        let want = expect.as_ref().map(|e| bump_term(e, bump));
        match (parse_result(&fr), &want) {
            (Some(Ok(t)), Some(e)) => {
                ctx.nontrivial(&fl);
                if &t != e {
                    ctx.note("get_ast + fold_exprs give a term different from the one the tokens denote");
                }
            }
            (Some(Ok(_)), None) => ctx.note("get_ast + fold_exprs accept an ill-formed token sequence"),
            (Some(Err(_)), Some(_)) => ctx.note("fold_exprs rejects a well-formed expression"),
            _ => {}
        }
    } else if r.starts_with("err ") && expect.is_some() {
        ctx.note("get_ast rejects a well-formed token sequence");
    }
}

fn check_parse(ctx: &mut Ctx, nota: &str, sx: &str, expect: &Option<Term>) {
    let line = format!("parse {} {}", nota, string_wire(sx));
    let r = ctx.op(&line);
    match (parse_result(&r), expect) {
        (Some(Ok(t)), Some(e)) => {
            ctx.nontrivial(&line);
            if &t != e {
                ctx.fail("parse returned a term different from the one the input denotes", &[line]);
            }
        }
        (Some(Ok(_)), None) => {
            ctx.fail("parse accepted an ill-formed expression (reference grammar rejects it)", &[line]);
        }
        (Some(Err(_)), Some(_)) => {
            ctx.fail("parse rejected a well-formed expression", &[line]);
        }
        (Some(Err(_)), None) => {
            ctx.count("rejected_ill_formed");
        }
        (None, _) => {}
    }
}

/// tokens of a term in De Bruijn notation with random redundant parentheses
fn term_tokens_dbr(t: &Term, ctxp: usize, r: &mut Rng, out: &mut Vec<Tk>) {
    let extra = r.chance(1, 8);
    match t {
        Var(i) => {
            if extra {
                out.push(Tk::LP);
            }
            out.push(Tk::Idx(*i));
            if extra {
                out.push(Tk::RP);
            }
        }
        Abs(b) => {
            let p = ctxp >= 2 || extra;
            if p {
                out.push(Tk::LP);
            }
            out.push(Tk::Lam(None));
            term_tokens_dbr(b, 0, r, out);
            if p {
                out.push(Tk::RP);
            }
        }
        App(q) => {
            let p = ctxp == 3 || extra;
            if p {
                out.push(Tk::LP);
            }
            term_tokens_dbr(&q.0, 2, r, out);
            // an abstraction in last operand position may go unparenthesised at the end of a group
            term_tokens_dbr(&q.1, 3, r, out);
            if p {
                out.push(Tk::RP);
            }
        }
    }
}

/// tokens of a term in Classic notation with chosen binder names (possibly shadowing) and free names
fn term_tokens_named(
    t: &Term,
    ctxp: usize,
    binders: &mut Vec<String>,
    names: &[&str],
    r: &mut Rng,
    wordy: bool,
    out: &mut Vec<Tk>,
) {
    // free names that look special but are ordinary identifiers (binder names always end in a digit: no collision)
    const WORDS: [&str; 6] = ["undefined", "UD", "lambda", "nil", "undefine", "Var"];
    match t {
        Var(i) => {
            let d = binders.len();
            if *i >= 1 && *i <= d {
                // must print a name that resolves to exactly this binder: the binder's name, provided no inner
                // binder shadows it; we guarantee that by construction of binder names below
                out.push(Tk::Name(binders[d - i].clone()));
            } else {
                let k = i.saturating_sub(d);
                if wordy && k >= 1 && k <= WORDS.len() {
                    out.push(Tk::Name(WORDS[k - 1].to_string()));
                } else {
                    out.push(Tk::Name(format!("free{}", k)));
                }
            }
        }
        Abs(b) => {
            let p = ctxp >= 2;
            if p {
                out.push(Tk::LP);
            }
            // unique binder names along a path (suffix with depth) so that resolution is unambiguous
            let base = names[r.below(names.len())];
            let n = format!("{}{}", base, binders.len());
            out.push(Tk::Lam(Some(n.clone())));
            binders.push(n);
            term_tokens_named(b, 0, binders, names, r, wordy, out);
            binders.pop();
            if p {
                out.push(Tk::RP);
            }
        }
        App(q) => {
            let p = ctxp == 3;
            if p {
                out.push(Tk::LP);
            }
            term_tokens_named(&q.0, 2, binders, names, r, wordy, out);
            term_tokens_named(&q.1, 3, binders, names, r, wordy, out);
            if p {
                out.push(Tk::RP);
            }
        }
    }
}

// ---------------------------------------------------------------- printers (C10, C11)
/// bijective base-26 numeral of n+1 over a..z, written independently of the crate (recursive form)
fn ref_base26(n: u128) -> String {
    // names in order: a..z, aa..az, ba.. : the k-th name (k = n) of the length-ordered list
    // (u128: an index is a usize and the ordinal of a free name is index + number of binder names)
    let mut len = 1usize;
    let mut count = 26u128;
    let mut k = n;
    while k >= count {
        k -= count;
        len += 1;
        count *= 26;
    }
    let mut digits = vec![0u8; len];
    for i in (0..len).rev() {
        digits[i] = (k % 26) as u8;
        k /= 26;
    }
    digits.iter().map(|d| (b'a' + d) as char).collect()
}

fn ref_print_cla(t: &Term, lam: char) -> String {
    fn md(t: &Term) -> usize {
        match t {
            Var(_) => 0,
            Abs(b) => 1 + md(b),
            App(p) => md(&p.0).max(md(&p.1)),
        }
    }
    #[derive(PartialEq, Clone, Copy)]
    enum P {
        Top,
        Operator,
        Operand,
    }
    fn go(t: &Term, pos: P, d: usize, m: usize, lam: char, out: &mut String) {
        match t {
            Var(0) => out.push_str("undefined"),
            Var(i) => {
                if *i <= d {
                    out.push_str(&ref_base26((d - i) as u128)) // the binder i levels up was introduced at depth d-i
                } else {
                    out.push_str(&ref_base26(m as u128 + (i - d) as u128 - 1)) // after all binder names
                }
            }
            Abs(b) => {
                let p = pos != P::Top;
                if p {
                    out.push('(');
                }
                out.push(lam);
                out.push_str(&ref_base26(d as u128));
                out.push('.');
                go(b, P::Top, d + 1, m, lam, out);
                if p {
                    out.push(')');
                }
            }
            App(q) => {
                let p = pos == P::Operand;
                if p {
                    out.push('(');
                }
                go(&q.0, P::Operator, d, m, lam, out);
                out.push(' ');
                go(&q.1, P::Operand, d, m, lam, out);
                if p {
                    out.push(')');
                }
            }
        }
    }
    let mut out = String::new();
    go(t, P::Top, 0, md(t), lam, &mut out);
    out
}

fn ref_print_dbr(t: &Term, lam: char) -> String {
    fn go(t: &Term, pos: u8, lam: char, out: &mut String) {
        match t {
            Var(0) => out.push_str("undefined"),
            Var(i) => out.push_str(&format!("{:X}", i)),
            Abs(b) => {
                let p = pos != 0;
                if p {
                    out.push('(');
                }
                out.push(lam);
                go(b, 0, lam, out);
                if p {
                    out.push(')');
                }
            }
            App(q) => {
                let p = pos == 2;
                if p {
                    out.push('(');
                }
                go(&q.0, 1, lam, out);
                go(&q.1, 2, lam, out);
                if p {
                    out.push(')');
                }
            }
        }
    }
    let mut out = String::new();
    go(t, 0, lam, &mut out);
    out
}

/// free variables renumbered by rank of first (left-to-right) occurrence
fn canon(t: &Term) -> Term {
    fn go(t: &Term, d: usize, order: &mut Vec<usize>) -> Term {
        match t {
            Var(i) => {
                if *i > d {
                    let j = i - d;
                    let r = match order.iter().position(|x| *x == j) {
                        Some(r) => r,
                        None => {
                            order.push(j);
                            order.len() - 1
                        }
                    };
                    Var(d + r + 1)
                } else {
                    Var(*i)
                }
            }
            Abs(b) => abs(go(b, d + 1, order)),
            App(p) => {
                let a = go(&p.0, d, order);
                let b = go(&p.1, d, order);
                app(a, b)
            }
        }
    }
    go(t, 0, &mut Vec::new())
}

fn cps_to_string(r: &str) -> Option<String> {
    let mut it = r.split_ascii_whitespace();
    let n: usize = it.next()?.parse().ok()?;
    let mut out = String::new();
    for _ in 0..n {
        out.push(char::from_u32(it.next()?.parse().ok()?)?);
    }
    Some(out)
}

fn printer_universe(ctx: &mut Ctx, max_idx_15: bool) -> Vec<Term> {
    let sz = if ctx.soak {
        crate::props::Sizes { enum_size: 3, enum_free: 1, n_random: 30000, rand_size: 70 }
    } else if ctx.thorough {
        crate::props::Sizes { enum_size: 7, enum_free: 2, n_random: 20000, rand_size: 50 }
    } else {
        crate::props::Sizes { enum_size: 6, enum_free: 2, n_random: 3000, rand_size: 40 }
    };
    let mut uni = crate::props::universe(ctx, &sz, false);
    // deep nesting: parentheses 255/256/257/300 levels deep in the printed form (operand applications, operand abstractions)
    for n in [255usize, 256, 257, 300] {
        let mut t = Var(2);
        let mut u = Var(1);
        for k in 0..n {
            t = app(Var(1 + k % 3), t);
            u = app(Var(1), abs(u));
        }
        uni.push(t);
        uni.push(u.clone());
        uni.push(abs(u));
    }
    // every parenthesisation case at EVERY nesting depth up to 130 (and around 255/256, 511/512, 1023/1024): a printer that changes its
    // method at some depth — hands over to an iterative renderer, to another buffer, to a narrower counter — is wrong at exactly one
    // depth (seed a11: an abstraction in operator position at depth 64 lost its parentheses).  Contexts: d binders, a left spine with d
    // operands, a right spine of d operand applications; holes: abstraction in operator position, abstraction in operand position,
    // application in operand position, a lone abstraction
    {
        let holes = [app(abs(Var(1)), Var(2)), app(Var(1), abs(Var(1))), app(Var(1), app(Var(2), Var(3))), abs(Var(1)),
            app(app(abs(Var(1)), abs(Var(2))), app(abs(Var(1)), Var(1)))];
        let mut depths: Vec<usize> = (1..=130).collect();
        depths.extend([254usize, 255, 256, 257, 510, 511, 512, 513, 1022, 1023, 1024, 1025]);
        let stride = if ctx.soak { 7 } else { 1 };
        for (k, &d) in depths.iter().enumerate() {
            if k % stride != 0 {
                continue;
            }
            for h in holes.iter() {
                let mut a = h.clone();
                let mut l = h.clone();
                let mut r = h.clone();
                for j in 0..d {
                    a = abs(a);
                    l = app(l, Var(1 + j % 3));
                    r = app(Var(1 + j % 2), r);
                }
                uni.push(a);
                uni.push(l);
                uni.push(r);
            }
        }
    }
    // repeated identical subterms: M M, M M M, λ.M M, M (M M) … for small random M (variables, abstractions AND applications)
    let nself = if ctx.thorough { 3000 } else { 400 };
    for _ in 0..nself {
        let b = 1 + ctx.rng.below(7);
        let m = random_term(&mut ctx.rng, b, 0, false, 10);
        uni.push(app(m.clone(), m.clone()));
        uni.push(app(app(m.clone(), m.clone()), m.clone()));
        uni.push(app(m.clone(), app(m.clone(), m.clone())));
        uni.push(abs(app(Var(1), app(m.clone(), m.clone()))));
        uni.push(abs(abs(app(app(m.clone(), m.clone()), app(m.clone(), m.clone())))));
    }
    uni.retain(|t| !free_vars(t).1);
    if max_idx_15 {
        uni.retain(|t| idx_range(t).map_or(true, |(_, hi)| hi < (1usize << 31)));
    }
    // deep binders (names of 2 and 3 letters) and large free indices
    if !max_idx_15 {
        for depth in [26usize, 27, 28, 52, 702, 703, 704, 18278, 18279, 18280] {
            let mut leaves = app!(Var(1), Var(depth), Var(depth + 1), Var(depth + 30), Var(depth.saturating_sub(25).max(1)));
            if depth >= 700 {
                leaves = app(leaves, Var(depth + 800));
            }
            uni.push(abs!(depth, leaves));
            uni.push(app(abs!(depth, Var(depth + 2)), abs!(3, app(Var(4), Var(depth + 5)))));
        }
        for i in [1usize, 26, 27, 702, 703, 18278, 18279] {
            uni.push(Var(i));
            uni.push(abs(app(Var(i + 1), Var(1))));
        }
        // free variables whose generated NAME is an English-looking word — in particular the word Display prints for UD
        // ("undefined" is the name of the free variable with ordinal 4 499 111 678 181): they are ordinary variables
        for w in ["undefined", "ud", "lambda", "nil", "undefine", "undefinee", "abs", "app"] {
            let ord = w.bytes().fold(0u128, |a, c| a * 26 + (c - b'a' + 1) as u128) - 1;
            if ord + 3 >= usize::MAX as u128 {
                continue;
            }
            let o = ord as usize;
            uni.push(Var(o + 1)); // depth 0, no binders: ordinal = i - 1
            uni.push(app(abs(Var(1)), Var(o))); // one binder elsewhere: ordinal = 1 + i - 0 - 1
            uni.push(abs!(2, app!(Var(1), Var(o + 1), Var(2)))); // under two binders: ordinal = 2 + i - 2 - 1
            uni.push(app!(Var(1), abs(app(Var(o + 1), Var(2))), Var(o))); // twice, among other free variables
        }
        // free indices that do not fit in 32 bits (an index is a usize; the names get up to 14 letters): distinct free
        // variables must keep distinct names, must not collide with binder names, and nothing may overflow
        let big: [usize; 9] = [(1 << 32) - 1, 1 << 32, (1 << 32) + 1, (1 << 32) + 2, (1 << 33) + 1, (1 << 40) + 3,
            usize::MAX >> 1, usize::MAX - 1, usize::MAX];
        for &b in big.iter() {
            uni.push(Var(b));
            uni.push(app(Var(b), Var(1)));
            uni.push(app(Var(1), Var(b)));
            uni.push(abs(Var(b)));
            uni.push(abs(app(Var(1), Var(b))));
            uni.push(app(abs(Var(1)), Var(b)));
            uni.push(abs!(3, app!(Var(3), Var(b), Var(4), abs(Var(b)))));
            uni.push(app(Var(b), Var(b - 1)));
        }
    } else {
        // all hex digits, nested operand applications, deep operator chains
        for i in 1..=15usize {
            uni.push(Var(i));
            uni.push(abs!(i, app(Var(i), Var(16 - i))));
            uni.push(app(Var(i), app(Var(16 - i), app(Var(i), abs(Var(15))))));
        }
        let n = if ctx.thorough { 20000 } else { 3000 };
        for _ in 0..n {
            let b = 4 + ctx.rng.below(40);
            let t = random_term(&mut ctx.rng, b, 0, false, 10);
            uni.push(clamp_indices(&t, &mut ctx.rng));
        }
        uni.retain(|t| idx_range(t).map_or(true, |(lo, hi)| lo >= 1 && hi <= 15));
    }
    uni
}

fn clamp_indices(t: &Term, r: &mut Rng) -> Term {
    match t {
        Var(_) => Var(1 + r.below(15)),
        Abs(b) => abs(clamp_indices(b, r)),
        App(p) => app(clamp_indices(&p.0, r), clamp_indices(&p.1, r)),
    }
}

fn idx_range(t: &Term) -> Option<(usize, usize)> {
    match t {
        Var(i) => Some((*i, *i)),
        Abs(b) => idx_range(b),
        App(p) => {
            let a = idx_range(&p.0)?;
            let b = idx_range(&p.1)?;
            Some((a.0.min(b.0), a.1.max(b.1)))
        }
    }
}


/// Display / Debug on terms CONTAINING UD: outside the domain of C10 ("every term without UD") and C11 (indices 1..=15), so nothing
/// is demanded of the crate here; the lines only tie the `undefined` arm of the two printers to the model (advisory operation,
/// found unexecuted by the coverage measurement of tools/coverage.py)
fn show_ud_terms(ctx: &mut Ctx, which: &str) {
    let lam = EXPECTED_LAMBDA as u32;
    let mut ts = vec![Var(0), abs(Var(0)), app(Var(0), Var(0)), abs(app(Var(1), Var(0))), app(abs(Var(0)), abs(abs(app(Var(2), Var(0))))),
        app(Var(3), app(Var(0), abs(Var(0))))];
    for _ in 0..200 {
        let b = 2 + ctx.rng.below(14);
        let t = random_term(&mut ctx.rng, b, 0, true, 12);
        if matches!(idx_range(&t), Some((0, _))) {
            ts.push(t);
        }
    }
    for t in &ts {
        let line = format!("showu {} {} {}", which, lam, s(t));
        ctx.op(&line);
        ctx.nontrivial(&line);
        ctx.count("advisory_show_ud");
    }
}

pub fn c10(ctx: &mut Ctx) {
    check_char_classes(ctx);
    show_ud_terms(ctx, "c");
    let uni = printer_universe(ctx, false);
    let lam = EXPECTED_LAMBDA as u32;
    ctx.add(if lam == 955 { "build_lambda_glyph" } else { "build_backslash_glyph" }, 1);
    for (k, t) in uni.iter().enumerate() {
        // every now and then a parse that FAILS (lexically, after some valid tokens; or syntactically) comes first: the round trip
        // must not depend on what was parsed before on this thread
        let mut pre: Vec<String> = Vec::new();
        if k % 17 == 3 {
            let bad = ["λx.x ?", "(λy.y", "\\a.a #b", "x y )"][(k / 17) % 4];
            pre.push(format!("parse c {}", string_wire(bad)));
            let e = ctx.op(&pre[0]);
            if !e.starts_with("err") {
                ctx.fail("Classic: ill-formed input accepted", &pre);
            }
        }
        let line = format!("show c {} {}", lam, s(t));
        let r = ctx.op(&line);
        let sx = match cps_to_string(&r) {
            Some(x) => x,
            None => continue,
        };
        ctx.nontrivial(&line);
        if sx != ref_print_cla(t, EXPECTED_LAMBDA) {
            ctx.fail("Display output differs from the documented Classic format", &[line.clone()]);
        }
        if size(t) < 3000 {
            let pl = format!("parse c {}", string_wire(&sx));
            let pr = ctx.op(&pl);
            let expect = canon(t);
            match parse_result(&pr) {
                Some(Ok(u)) => {
                    if u != expect {
                        let mut ops = pre.clone();
                        ops.extend([line.clone(), pl]);
                        ctx.fail("parsing the Display output does not give back the term (up to renumbering of free variables by first appearance)", &ops);
                    }
                    if !t.has_free_variables() && u != *t {
                        ctx.fail("closed term does not round-trip through Display/parse", &[line.clone()]);
                    }
                }
                _ => {
                    let mut ops = pre.clone();
                    ops.extend([line.clone(), pl]);
                    ctx.fail("Display output does not parse", &ops)
                }
            }
        }
    }
}

pub fn c11(ctx: &mut Ctx) {
    check_char_classes(ctx);
    show_ud_terms(ctx, "d");
    let uni = printer_universe(ctx, true);
    let lam = EXPECTED_LAMBDA as u32;
    ctx.add(if lam == 955 { "build_lambda_glyph" } else { "build_backslash_glyph" }, 1);
    for (k, t) in uni.iter().enumerate() {
        // every now and then a parse that FAILS (lexically, after some valid tokens; or syntactically) comes first: the round trip
        // must not depend on what was parsed before on this thread
        let mut pre: Vec<String> = Vec::new();
        if k % 17 == 3 {
            let bad = ["λλx2", "3(?", "(λ1", "12)", "λλ2 1 g"][(k / 17) % 5];
            pre.push(format!("parse d {}", string_wire(bad)));
            let e = ctx.op(&pre[0]);
            if !e.starts_with("err") {
                ctx.fail("De Bruijn: ill-formed input accepted", &pre);
            }
        }
        let line = format!("show d {} {}", lam, s(t));
        let r = ctx.op(&line);
        let sx = match cps_to_string(&r) {
            Some(x) => x,
            None => continue,
        };
        ctx.nontrivial(&line);
        if sx != ref_print_dbr(t, EXPECTED_LAMBDA) {
            ctx.fail("Debug output differs from the documented De Bruijn format", &[line.clone()]);
        }
        let pl = format!("parse d {}", string_wire(&sx));
        let pr = ctx.op(&pl);
        match parse_result(&pr) {
            Some(Ok(u)) => {
                if u != *t {
                    let mut ops = pre.clone();
                    ops.extend([line.clone(), pl]);
                    ctx.fail("parsing the Debug output does not give back the identical term", &ops);
                }
            }
            _ => {
                let mut ops = pre.clone();
                ops.extend([line.clone(), pl]);
                ctx.fail("Debug output does not parse", &ops)
            }
        }
    }
}

// ---------------------------------------------------------------- C12 encoders
pub fn dec_church(t: &Term) -> Option<usize> {
    if let Abs(a) = t {
        if let Abs(b) = &**a {
            let mut n = 0;
            let mut cur = &**b;
            loop {
                match cur {
                    Var(1) => return Some(n),
                    App(p) if p.0 == Var(2) => {
                        n += 1;
                        cur = &p.1;
                    }
                    _ => return None,
                }
            }
        }
    }
    None
}
pub fn dec_scott(t: &Term) -> Option<usize> {
    let mut n = 0;
    let mut cur = t;
    loop {
        if let Abs(a) = cur {
            if let Abs(b) = &**a {
                match &**b {
                    Var(2) => return Some(n),
                    App(p) if p.0 == Var(1) => {
                        n += 1;
                        cur = &p.1;
                        continue;
                    }
                    _ => return None,
                }
            }
        }
        return None;
    }
}
pub fn dec_parigot(t: &Term) -> Option<usize> {
    // λλ.1 = 0 ; λλ. 2 p (body of p) = p + 1
    if let Abs(a) = t {
        if let Abs(b) = &**a {
            match &**b {
                Var(1) => return Some(0),
                App(p) => {
                    if let App(q) = &p.0 {
                        if q.0 == Var(2) {
                            let pred = &q.1;
                            let n = dec_parigot(pred)?;
                            if let Abs(x) = pred {
                                if let Abs(y) = &**x {
                                    if **y == p.1 {
                                        return Some(n + 1);
                                    }
                                }
                            }
                        }
                    }
                    return None;
                }
                _ => return None,
            }
        }
    }
    None
}
pub fn dec_stumpfu(t: &Term) -> Option<usize> {
    if let Abs(a) = t {
        if let Abs(b) = &**a {
            match &**b {
                Var(1) => return Some(0),
                App(p) => {
                    if let App(q) = &p.0 {
                        if q.0 == Var(2) {
                            let c = dec_church(&q.1)?;
                            let r = dec_stumpfu(&p.1)?;
                            if c == r + 1 {
                                return Some(c);
                            }
                        }
                    }
                    return None;
                }
                _ => return None,
            }
        }
    }
    None
}
pub fn dec_binary(t: &Term) -> Option<usize> {
    if let Abs(a) = t {
        if let Abs(b) = &**a {
            if let Abs(c) = &**b {
                // bits LSB outermost, ending in 3; most significant bit must be one
                let mut bits = Vec::new();
                let mut cur = &**c;
                loop {
                    match cur {
                        Var(3) => break,
                        App(p) if p.0 == Var(1) => {
                            bits.push(1usize);
                            cur = &p.1;
                        }
                        App(p) if p.0 == Var(2) => {
                            bits.push(0usize);
                            cur = &p.1;
                        }
                        _ => return None,
                    }
                }
                if let Some(last) = bits.last() {
                    if *last == 0 {
                        return None; // leading zero
                    }
                }
                let mut n = 0usize;
                for (i, b) in bits.iter().enumerate() {
                    n += b << i;
                }
                return Some(n);
            }
        }
    }
    None
}

fn decode(e: Encoding, t: &Term) -> Option<usize> {
    match e {
        Encoding::Church => dec_church(t),
        Encoding::Scott => dec_scott(t),
        Encoding::Parigot => dec_parigot(t),
        Encoding::StumpFu => dec_stumpfu(t),
        Encoding::Binary => dec_binary(t),
    }
}

fn dec_pair(t: &Term) -> Option<(Term, Term)> {
    if let Abs(a) = t {
        if let App(p) = &**a {
            if let App(q) = &p.0 {
                if q.0 == Var(1) {
                    return Some((q.1.clone(), p.1.clone()));
                }
            }
        }
    }
    None
}

const ENCS: [(&str, Encoding); 5] = [
    ("church", Encoding::Church),
    ("scott", Encoding::Scott),
    ("parigot", Encoding::Parigot),
    ("stumpfu", Encoding::StumpFu),
    ("binary", Encoding::Binary),
];

pub fn c12(ctx: &mut Ctx) {
    use lambda_calculus::data::num::{binary, church, parigot, scott, stumpfu};
    let consts = [
        (church::zero(), church::one()),
        (scott::zero(), scott::one()),
        (parigot::zero(), parigot::one()),
        (stumpfu::zero(), stumpfu::one()),
        (binary::zero(), binary::one()),
    ];
    let (small, nrand) = if ctx.thorough { (200usize, 1500) } else { (40usize, 60) };
    for (k, (name, e)) in ENCS.iter().enumerate() {
        // Parigot numerals double in size with every successor (2^n nodes), Stump-Fu grow quadratically
        let small_e = match e {
            Encoding::Parigot => 14.min(small),
            Encoding::StumpFu => 60.min(small),
            _ => small,
        };
        let mut ns: Vec<usize> = (0..=small_e).collect();
        for _ in 0..nrand {
            let cap = match e {
                Encoding::Binary => 1usize << 31,
                Encoding::Church | Encoding::Scott => 5000,
                Encoding::StumpFu => 150,
                Encoding::Parigot => 15,
            };
            ns.push(ctx.rng.below(cap));
        }
        // numbers around the widths an intermediate counter might have
        match e {
            Encoding::Church | Encoding::Scott => ns.extend([127usize, 128, 255, 256, 257, 511, 512, 1023, 1024, 1025, 4095, 4096, 4097, 65535, 65536, 65537]),
            Encoding::StumpFu => ns.extend([127usize, 128, 129, 255, 256, 257]),
            Encoding::Parigot => ns.extend([15usize, 16, 17]),
            Encoding::Binary => {}
        }
        if let Encoding::Binary = e {
            // including numbers that use the top bits of usize
            ns.extend([255, 256, 1023, 1024, 65535, 65536, (1 << 31) - 1, 1 << 31, usize::MAX >> 1, 1 << 62, 1 << 63, (1 << 63) + 1,
                usize::MAX - 1, usize::MAX, (1 << 63) | (1 << 31), 0xAAAA_AAAA_AAAA_AAAA, 0x5555_5555_5555_5555]);
        }
        for n in ns {
            let line = format!("enc {} {}", name, n);
            let r = ctx.op(&line);
            ctx.nontrivial(&line);
            let mut it = r.split_ascii_whitespace();
            let t = match codec::dec(&mut it) {
                Some(t) => t,
                None => continue,
            };
            if decode(*e, &t) != Some(n) {
                ctx.fail("numeral does not have the documented shape / does not decode to its number", &[line.clone()]);
            }
            if t.has_free_variables() {
                ctx.fail("numeral is not closed", &[line.clone()]);
            }
            if !is_normal(&t) {
                ctx.fail("numeral is not in beta-normal form", &[line.clone()]);
            }
            if n == 0 && t != consts[k].0 {
                ctx.fail("encoding of 0 differs from the module's zero()", &[line.clone()]);
            }
            if n == 1 && t != consts[k].1 {
                ctx.fail("encoding of 1 differs from the module's one()", &[line.clone()]);
            }
        }
    }
    // signed
    let range: i32 = if ctx.thorough { 120 } else { 40 };
    for (name, e) in ENCS.iter().take(4) {
        let mut is: Vec<i32> = (-range..=range).collect();
        is.extend([i32::MIN + 1, -1000, 1000]);
        for i in is {
            if (*name == "parigot" && i.unsigned_abs() > 13) || (*name == "stumpfu" && i.unsigned_abs() > 150) {
                continue;
            }
            if i.unsigned_abs() > 100000 {
                continue;
            }
            let line = format!("signed {} {}", name, i);
            let r = ctx.op(&line);
            ctx.nontrivial(&line);
            let mut it = r.split_ascii_whitespace();
            let t = match codec::dec(&mut it) {
                Some(t) => t,
                None => continue,
            };
            match dec_pair(&t) {
                Some((p, n)) => {
                    let (dp, dn) = (decode(*e, &p), decode(*e, &n));
                    let m = i.unsigned_abs() as usize;
                    let expect = if i > 0 { (Some(m), Some(0)) } else { (Some(0), Some(m)) };
                    if (dp, dn) != expect {
                        ctx.fail("signed value is not the pair (n, zero) / (zero, n) of numerals of the same encoding", &[line.clone()]);
                    }
                }
                None => ctx.fail("signed value is not a pair", &[line.clone()]),
            }
        }
    }
    // the documented refusal: signed BINARY numbers are not supported — `into_signed(Binary)` panics, for every value (the model's
    // `intoSignedChecked` is `none` exactly there; found unexecuted by tools/coverage.py)
    for i in [0i32, 1, -1, 7, -300, i32::MAX, i32::MIN + 1] {
        let line = format!("signed binary {}", i);
        let r = ctx.op(&line);
        ctx.nontrivial(&line);
        if r != "PANIC" {
            ctx.note("into_signed(Binary) returned a term: the documented refusal of signed binary numbers is gone");
        }
        ctx.count("signed_binary_refused");
    }
    // containers of numerals at the top of the usize range (binary only: the others would be astronomically large)
    for a in [usize::MAX, 1usize << 63] {
        for line in [format!("numpair binary {} 3", a), format!("numopt binary some {}", a), format!("numres binary ok {}", a), format!("numres binary err {}", a)] {
            let r = ctx.op(&line);
            ctx.nontrivial(&line);
            let num = s(&into_num(Encoding::Binary, a));
            if !r.contains(&num) || dec_binary(&into_num(Encoding::Binary, a)) != Some(a) {
                ctx.fail("container of a large binary numeral does not hold the canonical numeral", &[line]);
            }
        }
    }
    // containers of numerals
    for (name, e) in ENCS.iter() {
        for a in 0..4usize {
            for b in 0..3usize {
                let line = format!("numpair {} {} {}", name, a, b);
                let r = ctx.op(&line);
                ctx.nontrivial(&line);
                let mut it = r.split_ascii_whitespace();
                if let Some(t) = codec::dec(&mut it) {
                    if dec_pair(&t).map(|(x, y)| (decode(*e, &x), decode(*e, &y))) != Some((Some(a), Some(b))) {
                        ctx.fail("pair of numerals is not the canonical pair of their encodings", &[line.clone()]);
                    }
                }
            }
            for line in [
                format!("numopt {} some {}", name, a),
                format!("numopt {} none", name),
                format!("numres {} ok {}", name, a),
                format!("numres {} err {}", name, a),
            ] {
                let r = ctx.op(&line);
                ctx.nontrivial(&line);
                let mut it = r.split_ascii_whitespace();
                if let Some(t) = codec::dec(&mut it) {
                    let num = into_num(*e, a);
                    let expect = if line.contains("none") {
                        abs!(2, Var(2))
                    } else if line.contains("some") || line.contains("err") {
                        abs!(2, app(Var(1), num))
                    } else {
                        abs!(2, app(Var(2), num))
                    };
                    if t != expect {
                        ctx.fail("option/result of a numeral is not the documented container", &[line.clone()]);
                    }
                }
            }
        }
    }
    // vectors
    let maxlen = if ctx.thorough { 5 } else { 4 };
    let mut vecs: Vec<Vec<usize>> = vec![vec![]];
    for l in 1..=maxlen {
        let mut cur = vec![vec![]];
        for _ in 0..l {
            let mut nx = Vec::new();
            for v in &cur {
                for x in 0..3usize {
                    let mut w: Vec<usize> = v.clone();
                    w.push(x);
                    nx.push(w);
                }
            }
            cur = nx;
        }
        vecs.extend(cur);
    }
    // long vectors, beyond any unrolling or table size a conversion might use, with larger elements (Parigot lists double
    // with every element: only up to 10)
    for l in [6usize, 7, 8, 9, 10, 12, 16, 17, 33, 64, 65] {
        vecs.push((0..l).map(|i| (i * 7 + 3) % 9).collect());
        vecs.push((0..l).map(|i| (l - i) % 4).collect());
    }
    for v in &vecs {
        for kind in ["church", "scott", "parigot"] {
            if kind == "parigot" && v.len() > 10 {
                continue;
            }
            let line = format!("vecn {} {} {}", kind, v.len(), v.iter().map(|x| x.to_string()).collect::<Vec<_>>().join(" "));
            let r = ctx.op(&line);
            ctx.nontrivial(&line);
            let mut it = r.split_ascii_whitespace();
            if let Some(t) = codec::dec(&mut it) {
                // what repeated cons produces (normal form of the cons applications), computed by the reference engine
                let e = match kind {
                    "church" => Encoding::Church,
                    "scott" => Encoding::Scott,
                    _ => Encoding::Parigot,
                };
                let (nil, cons) = match kind {
                    "church" => (lambda_calculus::data::list::church::nil(), lambda_calculus::data::list::church::cons()),
                    "scott" => (lambda_calculus::data::list::scott::nil(), lambda_calculus::data::list::scott::cons()),
                    _ => (lambda_calculus::data::list::parigot::nil(), lambda_calculus::data::list::parigot::cons()),
                };
                let mut acc = nil;
                for x in v.iter().rev() {
                    acc = app!(cons.clone(), into_num(e, *x), acc);
                }
                if v.len() <= 3 {
                    match ref_normalise(&acc, 3000, 200000) {
                        Some((n, _)) => {
                            if n != t {
                                ctx.fail("list conversion differs from what repeated cons produces", &[line.clone()]);
                            }
                        }
                        None => ctx.count("cons_normalisation_inconclusive"),
                    }
                }
                if t.has_free_variables() || !is_normal(&t) {
                    ctx.fail("converted list is not a closed normal form", &[line.clone()]);
                }
            }
        }
        // Vec<Term> conversions with numerals and with small closed payload terms
        let ts: Vec<Term> = v.iter().map(|x| x.into_church()).collect();
        for kind in ["pair", "from", "church", "scott", "parigot"] {
            if kind == "parigot" && ts.len() > 10 {
                continue;
            }
            let line = format!("vect {} {} {}", kind, ts.len(), ts.iter().map(s).collect::<Vec<_>>().join(" "));
            let r = ctx.op(&line);
            ctx.nontrivial(&line);
            if kind == "pair" || kind == "from" {
                let mut it = r.split_ascii_whitespace();
                if let Some(t) = codec::dec(&mut it) {
                    let mut acc = lambda_calculus::data::list::pair::nil();
                    for x in ts.iter().rev() {
                        acc = app!(lambda_calculus::data::list::pair::cons(), x.clone(), acc);
                    }
                    if let Some((n, _)) = ref_normalise(&acc, 3000, 200000) {
                        if n != t {
                            ctx.fail("pair-list conversion differs from what repeated cons produces", &[line.clone()]);
                        }
                    }
                }
            }
        }
    }
    // From conversions, tuple!, pi!
    let payloads = [abs(Var(1)), abs!(2, Var(2)), 2.into_church(), abs(app(Var(1), Var(1)))];
    for a in &payloads {
        for b in &payloads {
            let line = format!("frompair {} {}", s(a), s(b));
            let r = ctx.op(&line);
            ctx.nontrivial(&line);
            if r != s(&abs(app!(Var(1), a.clone(), b.clone()))) {
                ctx.fail("From<(Term,Term)> is not the documented pair", &[line.clone()]);
            }
        }
        for line in [format!("fromopt some {}", s(a)), format!("fromres ok {}", s(a)), format!("fromres err {}", s(a))] {
            ctx.op(&line);
            ctx.nontrivial(&line);
        }
    }
    for line in ["fromopt none", "frombool 0", "frombool 1"] {
        ctx.op(line);
    }
    for n in 2..=6usize {
        let ts: Vec<Term> = (0..n).map(|i| if i % 2 == 0 { Var(i + 2) } else { abs(Var(i + 1)) }).collect();
        let line = format!("tuple {} {}", n, ts.iter().map(s).collect::<Vec<_>>().join(" "));
        ctx.op(&line);
        ctx.nontrivial(&line);
        for i in 1..=n {
            let line = format!("pi {} {}", i, n);
            ctx.op(&line);
            ctx.nontrivial(&line);
        }
    }
}
