//! Per-property generation + independent oracles (C01–C08, C18, C19).
use crate::codec::{self, order_name, s, size, ORDERS};
use crate::ctx::*;
use crate::gen::*;
use crate::refeng::*;
use lambda_calculus::*;
use lambda_calculus::reduction::Order;

pub fn named_terms() -> Vec<Term> {
    let om = abs(app(Var(1), Var(1)));
    let omega = app(om.clone(), om.clone());
    let y = lambda_calculus::combinators::Y();
    let z = lambda_calculus::combinators::Z();
    let t = lambda_calculus::combinators::T();
    let k = abs!(2, Var(2));
    let i = abs(Var(1));
    let om3 = abs(app!(Var(1), Var(1), Var(1)));
    vec![
        omega.clone(),
        app(abs(Var(2)), omega.clone()),                      // (λ.2) Ω
        app!(abs!(2, Var(1)), omega.clone(), Var(3)),         // (λλ.1) Ω x
        app(abs(app(Var(1), abs(Var(3)))), abs(omega.clone())), // (λ.1 (λ.3)) (λ.Ω)
        app(k.clone(), i.clone()),
        app!(k.clone(), i.clone(), omega.clone()),
        app(y.clone(), k.clone()),
        app(y.clone(), abs(Var(2))),
        app(t.clone(), abs(Var(2))),
        app!(z.clone(), abs!(2, Var(1)), Var(1)),
        app(abs(app(Var(1), Var(1))), abs(app!(Var(1), Var(1), Var(2)))),
        app(om3.clone(), om3.clone()),
        app(abs(app(abs(Var(2)), Var(1))), omega.clone()),
        abs(app(abs(abs(app(Var(3), Var(1)))), app(Var(1), Var(2)))),
        app(abs(abs(app(Var(2), abs(app(Var(3), Var(1)))))), abs(app(Var(2), Var(1)))),
        // doctest of apply
        app(
            abs!(2, app!(Var(4), Var(2), abs(app(Var(1), Var(3))))),
            abs(app(Var(5), Var(1))),
        ),
        app(abs(app(Var(1), abs(Var(0)))), app(Var(0), abs(Var(2)))),
        // indices beyond 32 bits crossing two binders
        app(abs!(3, app!(Var(3), Var(1), Var(1 << 32))), abs(app(Var(1 << 32), Var((1 << 32) + 2)))),
        app(abs(abs(app(Var(2), Var(2)))), Var(1 << 32)),
        app!(lambda_calculus::data::num::church::add(), 2.into_church(), 1.into_church()),
        app!(lambda_calculus::data::num::church::pred(), 2.into_church()),
        app!(lambda_calculus::data::num::church::fac(), 2.into_church()),
    ]
}

pub struct Sizes {
    pub enum_size: usize,
    pub enum_free: usize,
    pub n_random: usize,
    pub rand_size: usize,
}

pub fn sizes(ctx: &Ctx, scale: usize) -> Sizes {
    if ctx.soak {
        // random-only shard: no enumeration beyond the trivial sizes, larger random terms
        Sizes { enum_size: 3, enum_free: 1, n_random: 40000 * scale, rand_size: 70 }
    } else if ctx.thorough {
        Sizes { enum_size: 9, enum_free: 2, n_random: 40000 * scale, rand_size: 50 }
    } else {
        Sizes { enum_size: 8, enum_free: 2, n_random: 4000 * scale, rand_size: 40 }
    }
}

/// universe of terms for the reducer properties: named + enumerated + random
pub fn universe(ctx: &mut Ctx, sz: &Sizes, ud: bool) -> Vec<Term> {
    let mut v = named_terms();
    // redexes whose bound variable occurs at two different (deep) depths with an open argument
    for (f, a) in deep_substitution_family().into_iter().step_by(7) {
        v.push(app(f, a));
    }
    for (f, a) in very_deep_substitution_family(257).into_iter().skip(2).step_by(4) {
        v.push(app(f, a));
    }
    let mut e = enum_upto(sz.enum_size, sz.enum_free);
    if !ud {
        e.retain(|t| !free_vars(t).1);
    }
    ctx.add("universe_enumerated", e.len() as u64);
    v.extend(e);
    for k in 0..sz.n_random {
        let b = 6 + ctx.rng.below(sz.rand_size);
        let bias = if k % 2 == 0 { 25 } else { 8 };
        v.push(random_term(&mut ctx.rng, b, 0, ud, bias));
    }
    ctx.add("universe_random", sz.n_random as u64);
    v
}

fn bucket(n: usize) -> &'static str {
    match n {
        0..=3 => "size_1_3",
        4..=6 => "size_4_6",
        7..=15 => "size_7_15",
        16..=40 => "size_16_40",
        _ => "size_41_up",
    }
}

// ------------------------------------------------------------------------------- representation boundary
fn has_ud(t: &Term) -> bool {
    match t {
        Var(i) => *i == 0,
        Abs(b) => has_ud(b),
        App(p) => has_ud(&p.0) || has_ud(&p.1),
    }
}

/// `(λ.body) arg` contracted with all index arithmetic in u128; None if some index of the result exceeds usize::MAX
fn wide_apply(body: &Term, arg: &Term) -> Option<Term> {
    fn shift(t: &Term, by: u128, own: u128) -> Option<Term> {
        Some(match t {
            Var(i) => {
                let i = *i as u128;
                if i > own {
                    let j = i + by;
                    if j > usize::MAX as u128 {
                        return None;
                    }
                    Var(j as usize)
                } else {
                    Var(i as usize)
                }
            }
            Abs(b) => abs(shift(b, by, own + 1)?),
            App(p) => app(shift(&p.0, by, own)?, shift(&p.1, by, own)?),
        })
    }
    fn go(t: &Term, arg: &Term, d: u128) -> Option<Term> {
        Some(match t {
            Var(i) => {
                let i = *i as u128;
                if i == d {
                    shift(arg, d - 1, 0)?
                } else if i > d {
                    Var((i - 1) as usize)
                } else {
                    Var(i as usize)
                }
            }
            Abs(b) => abs(go(b, arg, d + 1)?),
            App(p) => app(go(&p.0, arg, d)?, go(&p.1, arg, d)?),
        })
    }
    go(body, arg, 1)
}

/// Single substitutions with indices close to usize::MAX.  An index is a usize; where the mathematically correct
/// result needs an index above usize::MAX the crate must REFUSE (panic), never return a term in which the index has
/// wrapped around to UD or to a bound variable.  Which case applies is decided twice, independently: by the model
/// (unbounded naturals, through the driver) and by `wide_apply` below (128-bit arithmetic, for every `applyb`); the oracle
/// additionally flags the tell-tale symptom by itself: UD in a result whose inputs contain none.
/// This run uses a harness binary built WITHOUT overflow checks (what a release build of a user's program does).
pub fn boundary(ctx: &mut Ctx) {
    let m = usize::MAX;
    let bigs = [m, m - 1, m - 2, m - 3, 1usize << 63, (1usize << 63) + 1, m >> 1];
    let mut bodies: Vec<Term> = vec![
        Var(1),                                             // λ1: substituted at depth 1, no shift
        abs(Var(2)),                                        // λλ2 (K): shift by 1
        abs!(2, Var(3)),                                    // shift by 2
        abs!(3, app(Var(4), Var(1))),                       // shift by 3
        app(Var(1), abs(Var(2))),                           // both depths
        abs(app(Var(2), abs(app(Var(3), Var(1))))),
        abs(Var(1)),                                        // argument discarded
        abs(abs(app(Var(1), Var(2)))),
    ];
    for &b in bigs.iter() {
        bodies.push(Var(b));                                // an outer reference of the body: lowered by one
        bodies.push(abs(app(Var(2), Var(b))));
    }
    let mut args: Vec<Term> = Vec::new();
    for &b in bigs.iter() {
        args.push(Var(b));
        args.push(app(Var(b), Var(1)));
        args.push(abs(Var(b)));                             // under the argument's own binder
        args.push(abs(app(Var(1), Var(b))));
        args.push(app(abs(Var(b)), Var(b - 1)));
    }
    args.push(Var(1));
    args.push(abs(Var(1)));
    for body in &bodies {
        for a in &args {
            let f = abs(body.clone());
            let line = format!("applyb {} {}", s(&f), s(a));
            let r = ctx.op(&line);
            ctx.nontrivial(&line);
            ctx.count(if r == "PANIC" { "boundary_refused" } else { "boundary_returned" });
            // independent oracle in 128-bit arithmetic (neither the crate's nor the model's code): the substitution either
            // needs an index above usize::MAX — then the crate must refuse — or has exactly this result
            match wide_apply(body, a) {
                None => {
                    if r != "PANIC" {
                        ctx.fail("apply returned although the correct result needs an index above usize::MAX", &[line.clone()]);
                    }
                }
                Some(exp) => {
                    if r != format!("ok {}", s(&exp)) {
                        ctx.fail("apply near usize::MAX: result differs from capture-avoiding substitution computed in 128-bit arithmetic", &[line.clone()]);
                    }
                }
            }
            if let Some(rest) = r.strip_prefix("ok ") {
                let mut it = rest.split_ascii_whitespace();
                if let Some(t) = codec::dec(&mut it) {
                    if has_ud(&t) && !has_ud(&f) && !has_ud(a) {
                        ctx.fail("apply returned a term containing UD although neither the abstraction nor the argument contains it (an index wrapped around usize::MAX)", &[line.clone()]);
                    }
                }
            }
            for &o in [NOR, APP, HAP, HSP].iter() {
                let t = app(f.clone(), a.clone());
                let line = format!("reduceb {} {}", order_name(o), s(&t));
                let r = ctx.op(&line);
                ctx.nontrivial(&line);
                if let Some((_, u)) = parse_reduce(&r) {
                    if has_ud(&u) && !has_ud(&t) {
                        ctx.fail("reduce returned a term containing UD although the input contains none (an index wrapped around usize::MAX)", &[line.clone()]);
                    }
                }
            }
        }
    }
}

/// a supercombinator by construction: λ^n.E where E is built from the n parameters and from inner supercombinators
fn build_supercombinator(r: &mut Rng, levels: usize) -> Term {
    let n = 1 + r.below(3);
    fn body(r: &mut Rng, n: usize, levels: usize, budget: usize) -> Term {
        if budget <= 1 {
            return Var(1 + r.below(n));
        }
        let c = r.below(10);
        if c < 3 && levels > 0 {
            build_supercombinator(r, levels - 1)
        } else if c < 9 {
            let l = 1 + r.below(budget - 1);
            app(body(r, n, levels, l), body(r, n, levels, budget - l))
        } else {
            Var(1 + r.below(n))
        }
    }
    let budget = 4 + r.below(8);
    let mut e = body(r, n, levels, budget);
    // E itself must not be an abstraction (it would merge with the prefix): apply a parameter to it in that case
    if let Abs(_) = e {
        e = app(Var(1), e);
    }
    abs!(n, e)
}

/// one variable under an INNER abstraction is redirected to a binder of an enclosing level: closed, but not a supercombinator
fn spoil_supercombinator(r: &mut Rng, t: &Term) -> Term {
    fn go(r: &mut Rng, t: &Term, depth: usize, inner: bool, done: &mut bool) -> Term {
        match t {
            Var(i) => {
                if inner && !*done && *i >= 1 && *i < depth && r.chance(1, 2) {
                    *done = true;
                    Var(depth) // the outermost binder in scope
                } else {
                    Var(*i)
                }
            }
            Abs(b) => abs(go(r, b, depth + 1, inner, done)),
            App(p) => {
                let l = go(r, &p.0, depth, true, done);
                let rr = go(r, &p.1, depth, true, done);
                app(l, rr)
            }
        }
    }
    let mut done = false;
    go(r, t, 0, false, &mut done)
}

/// pairs of DIFFERENT terms whose `Debug` strings coincide: indices are printed as hexadecimal digits without separators, so the
/// application `2 1` and the single variable `Var(0x21)` both print as "21".  Anything that identifies a term by its printed form
/// (a cache, a memo table) confuses them
pub fn debug_lookalikes() -> Vec<(Term, Term)> {
    vec![
        (abs!(2, app(Var(2), Var(1))), abs!(2, Var(0x21))),                                   // λλ21
        (app!(Var(2), Var(1), Var(3)), Var(0x213)),                                           // 213
        (app!(Var(2), Var(1), Var(3)), app(Var(0x21), Var(3))),                               // 213
        (app(abs(app(Var(1), Var(2))), Var(3)), app(abs(Var(0x12)), Var(3))),                 // (λ12)3
        (app(abs!(2, app(Var(2), Var(1))), abs(Var(1))), app(abs!(2, Var(0x21)), abs(Var(1)))), // (λλ21)(λ1)
        (abs(app(abs(app(Var(1), Var(1))), app(Var(1), Var(2)))), abs(app(abs(Var(0x11)), Var(0x12)))), // λ(λ11)(12) / λ(λ11)12 differ; kept as a near miss
        (app(abs(app(Var(1), Var(1))), abs(app(Var(2), Var(1)))), app(abs(Var(0x11)), abs(Var(0x21)))), // (λ11)(λ21)
    ]
}

/// the result of a call must not depend on what was reduced before on the same thread: look-alike terms reduced back to back
/// with the same order and limit, then again after an unrelated call
pub fn history_independence(ctx: &mut Ctx) {
    for (a, b) in debug_lookalikes() {
        for (x, y) in [(&a, &b), (&b, &a)] {
            let (fv, ud) = free_vars(y);
            for &o in ORDERS.iter() {
                for l in [0usize, 1, 2] {
                    for kind in ["reduce", "beta"] {
                        let mk = |t: &Term| format!("{} {} {} {}", kind, order_name(o), l, s(t));
                        let (la, lb, lc) = (mk(x), mk(y), mk(&Var(1)));
                        ctx.op(&la);
                        let rb = ctx.op(&lb);
                        ctx.op(&lc);
                        let rd = ctx.op(&lb);
                        ctx.nontrivial(&lb);
                        if rb != rd {
                            ctx.fail("the result of a reduction depends on which term was reduced before it (same order, same limit)", &[la.clone(), lb.clone(), lc, lb.clone()]);
                        }
                        let res = if kind == "reduce" {
                            parse_reduce(&rb).map(|p| p.1)
                        } else {
                            let mut it = rb.split_ascii_whitespace();
                            codec::dec(&mut it)
                        };
                        if let Some(u) = res {
                            let (fv2, ud2) = free_vars(&u);
                            if !fv2.is_subset(&fv) || (ud2 && !ud) {
                                ctx.fail("reduction produced a free variable (or UD) the input does not have", &[la, lb]);
                            }
                        }
                        ctx.count("history_independence_checks");
                    }
                }
            }
        }
    }
}

/// limits far above the length of any run ("practically unlimited": 2^31 … usize::MAX): the count and the result must be
/// those of a run that never reaches its limit.  A limit or counter kept in fewer bits, or in a signed type, shows here only
pub fn huge_limit_checks(ctx: &mut Ctx) {
    let limits: [usize; 10] = [1 << 31, (1 << 32) - 1, 1 << 32, (1 << 32) + 1, (1 << 32) + 2, (1 << 63) - 1, 1 << 63, (1 << 63) + 1,
        usize::MAX - 1, usize::MAX];
    let mut terms = named_terms();
    terms.extend(long_programs());
    for k in [1usize, 2, 5, 40] {
        terms.push(app!(k.into_church(), abs(Var(1)), abs(Var(1))));
    }
    for _ in 0..(if ctx.thorough { 400 } else { 60 }) {
        let b = 6 + ctx.rng.below(30);
        terms.push(random_term(&mut ctx.rng, b, 0, true, 25));
    }
    let cap = 400usize;
    for t in &terms {
        for &o in ORDERS.iter() {
            let base = ctx.op(&reduce_op(o, cap, t));
            let count = base.split_ascii_whitespace().next().and_then(|c| c.parse::<usize>().ok());
            match count {
                Some(c) if c < cap => {
                    for &l in limits.iter() {
                        let line = reduce_op(o, l, t);
                        let r = ctx.op(&line);
                        if c > 0 {
                            ctx.nontrivial(&line);
                        }
                        if r != base {
                            ctx.fail("a limit far above the length of the run changes the count or the result (the run must be the one that never reaches its limit)", &[line, reduce_op(o, cap, t)]);
                        }
                    }
                    ctx.count("huge_limit_runs");
                }
                _ => ctx.count("huge_limit_skipped_long_or_divergent"),
            }
        }
    }
}

// ------------------------------------------------------------------------------------------ C01
pub fn c01(ctx: &mut Ctx) {
    history_independence(ctx);
    huge_limit_checks(ctx);
    let sz = sizes(ctx, 1);
    let uni = universe(ctx, &sz, true);
    let (steps, cap) = if ctx.thorough { (14, 600) } else { (8, 300) };
    for t in &uni {
        ctx.count(bucket(size(t)));
        for &o in ORDERS.iter() {
            let tr = stepwise(ctx, t, o, steps, cap);
            if tr.broken {
                continue;
            }
            // every single step is a valid contraction (both reference engines)
            for w in tr.terms.windows(2) {
                let line = reduce_op(o, 1, &w[0]);
                if !engines_agree(&w[0]) {
                    ctx.fail("reference engines disagree (oracle bug)", &[line.clone()]);
                }
                if !one_step_reducts(&w[0]).contains(&w[1]) {
                    ctx.fail("result of reduce(o,1) is not a one-step beta-reduct of the input", &[line]);
                }
            }
            let k = tr.terms.len() - 1;
            if tr.reached_nf {
                ctx.count("reached_nf");
            } else {
                ctx.count("hit_cap");
            }
            // larger limits: result reachable in exactly `count` steps
            let mut limits: Vec<usize> = vec![2, 3, 5];
            limits.retain(|l| *l <= k || tr.reached_nf);
            if tr.reached_nf {
                limits.push(0);
            }
            for l in limits {
                let line = reduce_op(o, l, t);
                let r = ctx.op(&line);
                if let Some((c, u)) = parse_reduce(&r) {
                    if c > 0 {
                        ctx.nontrivial(&line);
                    }
                    if c == 0 && u != *t {
                        ctx.fail("count 0 but term changed", &[line.clone()]);
                    }
                    if c < tr.terms.len() && tr.terms[c] == u {
                        ctx.count("multi_step_on_trace");
                    } else if !reachable_exact(t, &u, c) {
                        ctx.fail("result not reachable in exactly `count` beta-steps", &[line.clone()]);
                    }
                    // beta() agrees with reduce()
                    let bl = format!("beta {} {} {}", order_name(o), l, s(t));
                    let br = ctx.op(&bl);
                    if br != s(&u) {
                        ctx.fail("beta() and reduce() leave different terms", &[line, bl]);
                    }
                }
            }
        }
    }
}

/// is `u` reachable from `t` in exactly `c` steps of the reference one-step relation? (bounded search;
/// returns true when the search is inconclusive, so this can only *exhibit* failures)
fn reachable_exact(t: &Term, u: &Term, c: usize) -> bool {
    let mut frontier = vec![t.clone()];
    for _ in 0..c {
        let mut next = Vec::new();
        for x in &frontier {
            for r in one_step_reducts(x) {
                if !next.contains(&r) {
                    next.push(r);
                }
            }
            if next.len() > 3000 {
                return true; // inconclusive
            }
        }
        frontier = next;
    }
    frontier.contains(u)
}

// ------------------------------------------------------------------------------------------ C02
pub fn c02(ctx: &mut Ctx) {
    let (sb, sa, free) = if ctx.thorough { (6, 4, 3) } else { (5, 3, 3) };
    let mut bodies = Vec::new();
    for sx in 1..=sb {
        enum_exact(sx, 1, free, &mut bodies);
    }
    let args = enum_upto(sa, free);
    ctx.add("enumerated_bodies", bodies.len() as u64);
    ctx.add("enumerated_args", args.len() as u64);
    let mut pairs: Vec<(Term, Term)> = Vec::new();
    let stride = if ctx.thorough { 1 } else { 3 };
    let mut k = 0usize;
    for b in &bodies {
        for a in &args {
            k += 1;
            if k % stride == 0 || size(b) + size(a) <= 5 {
                pairs.push((abs(b.clone()), a.clone()));
            }
        }
    }
    let nrand = if ctx.thorough { 200000 } else { 10000 };
    for _ in 0..nrand {
        let bb = 3 + ctx.rng.below(36);
        let ab = 1 + ctx.rng.below(12);
        // arguments whose free variables sit under several binders
        let d = ctx.rng.below(3);
        let mut a = random_term(&mut ctx.rng, ab, d, true, 5);
        for _ in 0..d {
            a = abs(a);
        }
        let a = if ctx.rng.chance(1, 2) { app(a, Var(1 + ctx.rng.below(4))) } else { a };
        pairs.push((abs(random_term(&mut ctx.rng, bb, 1, true, 10)), a));
    }
    for t in named_terms() {
        if let App(p) = &t {
            pairs.push((p.0.clone(), p.1.clone()));
        }
    }
    pairs.extend(deep_substitution_family());
    pairs.extend(very_deep_substitution_family(usize::MAX));
    for (f, a) in &pairs {
        let line = format!("apply {} {}", s(f), s(a));
        let r = ctx.op(&line);
        if let Abs(b) = f {
            let e1 = subst_top(b, a);
            let e2 = subst_top_named(b, a);
            if e1 != e2 {
                ctx.fail("reference engines disagree (oracle bug)", &[line.clone()]);
            }
            if r != format!("ok {}", s(&e1)) {
                ctx.fail("apply differs from reference capture-avoiding substitution", &[line.clone()]);
            }
            if e1 != **b {
                ctx.nontrivial(&line);
            }
            ctx.count("apply_ok");
        }
    }
    call_count_wraparound(ctx);
    // error path
    let mut non_abs = enum_upto(4, 2);
    non_abs.retain(|t| !matches!(t, Abs(_)));
    for t in &non_abs {
        for a in [Var(1), abs(Var(1)), app(Var(2), Var(0))] {
            let line = format!("apply {} {}", s(t), s(&a));
            let r = ctx.op(&line);
            if r != "err NotAbs" {
                ctx.fail("apply on a non-abstraction must return Err(NotAbs) and leave the term untouched", &[line.clone()]);
            }
            ctx.nontrivial(&line);
            ctx.count("apply_err");
        }
    }
}

/// State carried from one call to the next that is recycled after a fixed NUMBER of calls — an epoch, generation or sequence
/// counter kept in 8 or 16 bits, a ring of scratch buffers: a substitution under several binders, then exactly 2^k - 1
/// substitutions that never go under a binder, then the deep one again with ANOTHER argument (and once more with the first).
/// Every call must be the reference substitution of ITS OWN body and argument, whatever was substituted before (seed a02)
pub fn call_count_wraparound(ctx: &mut Ctx) {
    // λ. λλ 3 (λ 4) (λλλ 6) : the bound variable at binder depths 3, 4 and 6 of the body
    let deep = abs(abs(abs(app!(Var(3), abs(Var(4)), abs(abs(abs(Var(6))))))));
    let shallow = abs(app(Var(1), Var(1)));
    let xs = [app(Var(2), abs(Var(3))), Var(7), abs(app(Var(1), Var(4)))];
    for (round, &n) in [256usize, 65536, 65536].iter().enumerate() {
        let first = format!("apply {} {}", s(&deep), s(&xs[round % 3]));
        let second = format!("apply {} {}", s(&deep), s(&xs[(round + 1) % 3]));
        let filler = format!("apply {} {}", s(&shallow), s(&Var(9)));
        let want = |a: &Term| match &deep { Abs(b) => format!("ok {}", s(&subst_top(b, a))), _ => unreachable!() };
        let r1 = ctx.op(&first);
        ctx.nontrivial(&first);
        if r1 != want(&xs[round % 3]) {
            ctx.fail("apply differs from reference capture-avoiding substitution", &[first.clone()]);
        }
        for _ in 0..n - 1 {
            ctx.op(&filler);
        }
        let r2 = ctx.op(&second);
        if r2 != want(&xs[(round + 1) % 3]) {
            ctx.fail(&format!("apply depends on the substitutions made before it: the third line, issued after the first and {} repetitions of the second, returned something other than the reference substitution of its own body and argument", n - 1),
                &[first.clone(), filler.clone(), second.clone()]);
        }
        ctx.count("call_count_wraparound_rounds");
    }
}

// ------------------------------------------------------------------------------------------ C03
pub fn c03(ctx: &mut Ctx) {
    huge_limit_checks(ctx);
    let sz = sizes(ctx, 1);
    let uni = universe(ctx, &sz, true);
    let (steps, cap) = if ctx.thorough { (40, 800) } else { (20, 400) };
    for t in &uni {
        ctx.count(bucket(size(t)));
        for &o in ORDERS.iter() {
            if nf_for(o, t) {
                // converse: a term already in the documented form is left unchanged with count 0
                ctx.count("already_nf");
                for l in [0usize, 1, 3] {
                    let line = reduce_op(o, l, t);
                    let r = ctx.op(&line);
                    ctx.nontrivial(&line);
                    if parse_reduce(&r) != Some((0, t.clone())) {
                        ctx.fail("term already in the documented normal form was changed or counted", &[line]);
                    }
                }
                continue;
            }
            let tr = stepwise(ctx, t, o, steps, cap);
            if tr.broken {
                continue;
            }
            let k = tr.terms.len() - 1;
            if tr.reached_nf {
                ctx.count("reached_nf");
                let fin = tr.terms.last().unwrap();
                if !nf_for(o, fin) {
                    ctx.fail("reduce stopped (count 0) at a term that is not in the documented normal form",
                        &[reduce_op(o, 1, fin)]);
                }
                // limit larger than the run: stops below the limit, in normal form
                for l in [0usize, k + 1, k + 3] {
                    let line = reduce_op(o, l, t);
                    let r = ctx.op(&line);
                    if let Some((c, u)) = parse_reduce(&r) {
                        ctx.nontrivial(&line);
                        if (l == 0 || c < l) && !nf_for(o, &u) {
                            ctx.fail("reduce stopped below its limit at a term not in the documented normal form", &[line]);
                        }
                    }
                }
            } else {
                ctx.count("hit_cap");
            }
        }
    }
}

/// limits of 6 and more exhausted in the middle of a run, limit 0 / limits beyond the end of a long run, long splits
fn long_run_checks(ctx: &mut Ctx, t: &Term, o: Order, cap: usize) {
    let tr = stepwise(ctx, t, o, 40, cap);
    if tr.broken {
        return;
    }
    let k = tr.terms.len() - 1;
    if k < 6 {
        return;
    }
    ctx.count("long_runs");
    let mut ls = vec![6usize, 7, 8, k - 1, k];
    ls.push(6 + ctx.rng.below(k - 5));
    ls.push(6 + ctx.rng.below(k - 5));
    if tr.reached_nf {
        ls.extend([0, k + 1, k + 3, 2 * k + 10]);
    }
    ls.sort();
    ls.dedup();
    for l in ls {
        if l > k && !tr.reached_nf {
            continue; // the trace was cut (size cap): nothing is known beyond its end
        }
        let line = reduce_op(o, l, t);
        let r = ctx.op(&line);
        ctx.nontrivial(&line);
        let e = if l == 0 { k } else { l.min(k) };
        if parse_reduce(&r) != Some((e, tr.terms[e].clone())) {
            ctx.fail("a long limited run is not the prefix of the step-wise run (term or count): limit exhausted in the middle of a run, at its end, or beyond", &[line]);
        }
        ctx.count("long_limits");
    }
    for (n1, n2) in [(4usize, 4usize), (5, 3), (3, 6), (6, 6), (1, 9)] {
        if n1 + n2 > k && !tr.reached_nf {
            continue;
        }
        let line = format!("hist 2 {} {} {} {} {}", order_name(o), n1, order_name(o), n2, s(t));
        let r = ctx.op(&line);
        let mut it = r.split_ascii_whitespace();
        let c1: usize = it.next().and_then(|x| x.parse().ok()).unwrap_or(usize::MAX);
        let c2: usize = it.next().and_then(|x| x.parse().ok()).unwrap_or(usize::MAX);
        let u = codec::dec(&mut it);
        let e = (n1 + n2).min(k);
        if c1 != usize::MAX && c2 != usize::MAX && (c1 > n1 || c2 > n2 || c1 + c2 != e || u.as_ref() != Some(&tr.terms[e])) {
            ctx.fail("reduce(o,n) then reduce(o,m) differs from reduce(o,n+m) on a long run", &[line]);
        }
        ctx.count("long_splits");
    }
}

/// (abstraction, argument) pairs in which the bound variable occurs at TWO different depths, shallow and deep (1 … 65 binders
/// below the removed one, in both visiting orders), and the argument is open with binders of its own: anything that remembers a
/// shifted copy of the argument between occurrences, or treats large depths specially, shows here
pub fn deep_substitution_family() -> Vec<(Term, Term)> {
    let depths = [0usize, 1, 2, 3, 4, 5, 7, 8, 14, 15, 16, 17, 18, 31, 32, 33, 64, 65];
    let args: Vec<Term> = vec![
        Var(1),
        Var(3),
        abs(app!(Var(1), Var(2), Var(3))),            // λ.1 2 3: bound, and two free variables
        app(Var(2), abs(abs(app(Var(4), Var(1))))),
        abs(abs(app(Var(3), app(Var(1), Var(5))))),
    ];
    let mut out = Vec::new();
    for (i, &d1) in depths.iter().enumerate() {
        for &d2 in depths.iter().skip(i % 3).step_by(3) {
            if d1 == d2 {
                continue;
            }
            // λ. (λ^d1. x) (λ^d2. x y) where x is the variable of the outer λ and y a free variable of the body
            let occ = |d: usize, extra: bool| -> Term {
                let mut e = if extra { app(Var(d + 1), Var(d + 3)) } else { Var(d + 1) };
                for _ in 0..d {
                    e = abs(e);
                }
                e
            };
            let body = app!(occ(d1, false), occ(d2, true), Var(1));
            for a in &args {
                out.push((abs(body.clone()), a.clone()));
            }
        }
    }
    out
}

/// the same idea with the occurrences 254 … 65 537 binders below the removed one (and the argument open, with a binder of its
/// own): a depth counter narrower than `usize`, or a table/cache indexed by depth, wraps or clamps here and nowhere above
pub fn very_deep_substitution_family(max_depth: usize) -> Vec<(Term, Term)> {
    let depths = [254usize, 255, 256, 257, 511, 512, 65535, 65536, 65537];
    let args: Vec<Term> = vec![Var(1), Var(3), abs(app!(Var(1), Var(2), Var(3)))];
    let mut out = Vec::new();
    for &d in depths.iter().filter(|&&d| d <= max_depth) {
        // λ. (λ^d. x y z 1) x : x the variable of the outer λ, y a free variable of the body, z bound by the first of the d binders
        let mut e = app!(Var(d + 1), Var(d + 3), Var(d), Var(1));
        for _ in 0..d {
            e = abs(e);
        }
        let body = app(e, Var(1));
        for a in &args {
            out.push((abs(body.clone()), a.clone()));
        }
    }
    out
}

// ------------------------------------------------------------------------------------------ C04
pub fn c04(ctx: &mut Ctx) {
    huge_limit_checks(ctx);
    let sz = sizes(ctx, 1);
    let uni = universe(ctx, &sz, true);
    let (steps, cap, maxsum) = if ctx.thorough { (12, 500, 7) } else { (8, 300, 5) };
    for t in long_programs().iter() {
        for &o in ORDERS.iter() {
            long_run_checks(ctx, t, o, 3000);
        }
    }
    // VERY long runs: a Church numeral applied to I I needs n + 2 contractions under every order.  Limits just below, at and
    // just above powers of two (256 … 2048) and splits across them: anything that processes a run in blocks, or packs limit and
    // count into fewer bits, shows here and nowhere below
    {
        let n = 2500usize;
        let t = app!(n.into_church(), abs(Var(1)), abs(Var(1)));
        for &o in ORDERS.iter() {
            let tr = stepwise(ctx, &t, o, n + 10, 100000);
            if tr.broken || !tr.reached_nf {
                continue;
            }
            let k = tr.terms.len() - 1;
            for l in [255usize, 256, 257, 511, 512, 513, 1000, 1023, 1024, 1025, 2047, 2048, 2049, k - 1, k, k + 1, 4096, 0] {
                let line = reduce_op(o, l, &t);
                let r = ctx.op(&line);
                ctx.nontrivial(&line);
                let e = if l == 0 { k } else { l.min(k) };
                if parse_reduce(&r) != Some((e, tr.terms[e].clone())) {
                    ctx.fail("a very long limited run is not the prefix of the step-wise run (term or count): limit at or around a power of two", &[line]);
                }
                ctx.count("very_long_limits");
            }
            for ls in [vec![400usize, 400, 224], vec![1000, 24], vec![1024, 1024], vec![1500, 548], vec![512, 512, 512, 512, 512]] {
                let mut line = format!("hist {}", ls.len());
                for l in &ls {
                    line.push_str(&format!(" {} {}", order_name(o), l));
                }
                line.push(' ');
                line.push_str(&s(&t));
                let r = ctx.op(&line);
                let toks: Vec<&str> = r.split_ascii_whitespace().collect();
                let total: usize = ls.iter().sum::<usize>().min(k);
                let got: usize = toks.iter().take(ls.len()).filter_map(|x| x.parse::<usize>().ok()).sum();
                let mut it = toks.iter().skip(ls.len()).copied();
                let u = codec::dec(&mut it);
                if got != total || u.as_ref() != Some(&tr.terms[total]) {
                    ctx.fail("a sequence of long limited runs differs from one run with the summed limit", &[line]);
                }
                ctx.count("very_long_splits");
            }
        }
    }
    for t in &uni {
        ctx.count(bucket(size(t)));
        for &o in ORDERS.iter() {
            let tr = stepwise(ctx, t, o, steps, cap);
            if tr.broken {
                continue;
            }
            let k = tr.terms.len() - 1;
            let safe = |n: usize| n <= k || tr.reached_nf;
            // single limited calls agree with the step-wise run
            for n in 1..=maxsum {
                if !safe(n) {
                    break;
                }
                let line = reduce_op(o, n, t);
                let r = ctx.op(&line);
                if let Some((c, u)) = parse_reduce(&r) {
                    if c > 1 {
                        ctx.nontrivial(&line);
                    }
                    if c > n {
                        ctx.fail("count exceeds the limit", &[line.clone()]);
                    }
                    let expect = n.min(k);
                    if c != expect || u != tr.terms[expect] {
                        ctx.fail("limited run is not the prefix of the step-wise run (term or count)", &[line.clone()]);
                    }
                }
            }
            // splits
            for n1 in 1..maxsum {
                for n2 in 1..=(maxsum - n1) {
                    if !safe(n1 + n2) {
                        continue;
                    }
                    let line = format!("hist 2 {} {} {} {} {}", order_name(o), n1, order_name(o), n2, s(t));
                    let r = ctx.op(&line);
                    let single = reduce_op(o, n1 + n2, t);
                    let mut it = r.split_ascii_whitespace();
                    let c1: usize = it.next().and_then(|x| x.parse().ok()).unwrap_or(usize::MAX);
                    let c2: usize = it.next().and_then(|x| x.parse().ok()).unwrap_or(usize::MAX);
                    let u = codec::dec(&mut it);
                    let expect = (n1 + n2).min(k);
                    if c1 != usize::MAX && c2 != usize::MAX {
                        if c1 + c2 > 1 {
                            ctx.nontrivial(&line);
                        }
                        if c1 > n1 || c2 > n2 {
                            ctx.fail("count exceeds the limit in a split run", &[line.clone()]);
                        }
                        if c1 + c2 != expect || u.as_ref() != Some(&tr.terms[expect]) {
                            ctx.fail("reduce(o,n) then reduce(o,m) differs from reduce(o,n+m)", &[line.clone(), single]);
                        }
                    }
                    ctx.count("splits");
                }
            }
            // unlimited = fixpoint of single steps
            if tr.reached_nf {
                let line = reduce_op(o, 0, t);
                let r = ctx.op(&line);
                if parse_reduce(&r) != Some((k, tr.terms[k].clone())) {
                    ctx.fail("limit 0 differs from repeating reduce(o,1) until it returns 0", &[line]);
                }
                ctx.count("unlimited_checked");
            }
        }
        // LONG runs: the limits above stop at 5 (7).  Every 6th term (and every named one) is traced for up to 40 steps under
        // one order and reduced with limits in the MIDDLE of that run, at its end and beyond, and with splits summing to 8+
        if ctx.n_long % 6 == 0 {
            let o = *ctx.rng.pick(&ORDERS);
            long_run_checks(ctx, t, o, cap);
        }
        ctx.n_long += 1;
        // a longer random sequence of limits
        if ctx.rng.chance(1, 4) {
            let o = *ctx.rng.pick(&ORDERS);
            let tr = stepwise(ctx, t, o, steps, cap);
            let k = tr.terms.len() - 1;
            if !tr.broken && k >= 2 {
                let mut ls = Vec::new();
                let mut sum = 0;
                while sum < k && ls.len() < 5 {
                    let l = 1 + ctx.rng.below(3);
                    ls.push(l);
                    sum += l;
                }
                if sum <= k || tr.reached_nf {
                    let mut line = format!("hist {}", ls.len());
                    for l in &ls {
                        line.push_str(&format!(" {} {}", order_name(o), l));
                    }
                    line.push(' ');
                    line.push_str(&s(t));
                    let r = ctx.op(&line);
                    let toks: Vec<&str> = r.split_ascii_whitespace().collect();
                    if toks.len() > ls.len() {
                        let total: usize = toks[..ls.len()].iter().filter_map(|x| x.parse::<usize>().ok()).sum();
                        let mut it = toks[ls.len()..].iter().copied();
                        let u = codec::dec(&mut it);
                        let expect = sum.min(k);
                        if total != expect || u.as_ref() != Some(&tr.terms[expect]) {
                            ctx.fail("sequence of limited calls differs from one call with the summed limit", &[line.clone()]);
                        }
                        ctx.nontrivial(&line);
                    }
                }
            }
        }
    }
}

// ------------------------------------------------------------------------------------------ C05
pub fn c05(ctx: &mut Ctx) {
    let sz = sizes(ctx, 2);
    let uni = universe(ctx, &sz, true);
    let (steps, cap) = if ctx.thorough { (10, 500) } else { (5, 300) };
    for t in &uni {
        ctx.count(bucket(size(t)));
        // multi-step runs: "EVERY single step" also holds inside a run with a larger limit — the result of
        // reduce(o, L) must be the term reached by L steps of the reference positional strategy (reference
        // engine + reference selectors only; the implementation is not consulted for the expected trace)
        for &o in [NOR, CBN, APP, CBV].iter() {
            let mut rtrace = vec![t.clone()];
            let mut complete = false; // the reference strategy selects nothing in the last term
            for _ in 0..6 {
                let cur = rtrace.last().unwrap();
                let sel = match o {
                    NOR => sel_lmo(cur),
                    CBN => sel_cbn(cur),
                    APP => sel_lmi(cur),
                    _ => sel_lmi_weak(cur),
                };
                match sel {
                    None => {
                        complete = true;
                        break;
                    }
                    Some(p) => {
                        let n = contract_at(cur, &p).unwrap();
                        if size(&n) > cap {
                            break;
                        }
                        rtrace.push(n);
                    }
                }
            }
            let k = rtrace.len() - 1;
            for l in [2usize, 3, 5] {
                if l > k && !complete {
                    continue;
                }
                let line = reduce_op(o, l, t);
                let r = ctx.op(&line);
                let e = l.min(k);
                if e >= 2 {
                    ctx.nontrivial(&line);
                }
                if parse_reduce(&r) != Some((e, rtrace[e].clone())) {
                    ctx.fail(&format!("{}: a run with limit {} is not {} steps of the documented positional strategy", order_name(o), l, e), &[line]);
                }
                ctx.count("multi_step_runs");
            }
        }
        for &o in [NOR, CBN, APP, CBV, HSP].iter() {
            let tr = stepwise(ctx, t, o, steps, cap);
            if tr.broken {
                continue;
            }
            for (i, w) in tr.terms.iter().enumerate() {
                let next = tr.terms.get(i + 1);
                let sel = match o {
                    NOR => sel_lmo(w),
                    CBN => sel_cbn(w),
                    APP => sel_lmi(w),
                    CBV => sel_lmi_weak(w),
                    _ => None,
                };
                let line = reduce_op(o, 1, w);
                if o == HSP {
                    if let Some(n) = next {
                        let ok = redex_positions(w)
                            .iter()
                            .filter(|p| !p.contains(&Dir::R))
                            .any(|p| contract_at(w, p).as_ref() == Some(n));
                        if !ok {
                            ctx.fail("HSP contracted a redex that is not on the head spine", &[line]);
                        }
                    }
                    continue;
                }
                match (sel, next) {
                    (Some(p), Some(n)) => {
                        ctx.count(&format!("step_{}", order_name(o)));
                        if contract_at(w, &p).as_ref() != Some(n) {
                            ctx.fail(&format!("{} did not contract the redex its documentation names", order_name(o)), &[line]);
                        }
                    }
                    (None, Some(_)) => {
                        ctx.fail(&format!("{} performed a step although the positional definition selects no redex", order_name(o)), &[line]);
                    }
                    (Some(_), None) => {
                        if i + 1 == tr.terms.len() && tr.reached_nf {
                            ctx.fail(&format!("{} stopped although the positional definition selects a redex", order_name(o)), &[line]);
                        }
                    }
                    (None, None) => {}
                }
            }
        }
    }
}

// ------------------------------------------------------------------------------------------ C06
pub fn c06(ctx: &mut Ctx) {
    history_independence(ctx);
    let sz = sizes(ctx, 1);
    let uni = universe(ctx, &sz, true);
    let (steps, cap) = if ctx.thorough { (60, 1500) } else { (30, 600) };
    for t in &uni {
        ctx.count(bucket(size(t)));
        let refnf = ref_normalise(t, 200, 2000);
        // the four normalising orders
        let mut nfs: Vec<(Order, Term)> = Vec::new();
        for &o in [NOR, HNO, APP, HAP].iter() {
            let tr = stepwise(ctx, t, o, steps, cap);
            if tr.reached_nf && !tr.broken {
                nfs.push((o, tr.terms.last().unwrap().clone()));
                // the whole run in ONE call (limit 0) must end where the single steps ended, with their count
                let k = tr.terms.len() - 1;
                if k >= 2 {
                    let line = reduce_op(o, 0, t);
                    let r = ctx.op(&line);
                    ctx.nontrivial(&line);
                    if parse_reduce(&r) != Some((k, tr.terms[k].clone())) {
                        ctx.fail("an unlimited run of a normalising order differs from its own single steps (term or count)", &[line]);
                    }
                    ctx.count("unlimited_runs_vs_single_steps");
                }
            }
        }
        for w in nfs.windows(2) {
            ctx.count("order_pairs_compared");
            if w[0].1 != w[1].1 {
                ctx.fail("two normalising orders terminate with different terms",
                    &[reduce_op(w[0].0, 0, t), reduce_op(w[1].0, 0, t)]);
            }
        }
        if let (Some((n, _)), Some((o, r))) = (&refnf, nfs.first()) {
            if n != r {
                ctx.fail("normal form differs from the reference normal form", &[reduce_op(*o, 0, t)]);
            }
        }
        // weak orders' results normalise to the same term
        if let Some((n, _)) = &refnf {
            for &o in [CBN, CBV, HSP].iter() {
                let tr = stepwise(ctx, t, o, steps, cap);
                if tr.reached_nf && !tr.broken {
                    let w = tr.terms.last().unwrap();
                    if let Some((n2, _)) = ref_normalise(w, 400, 4000) {
                        ctx.count("weak_results_checked");
                        if n2 != *n {
                            ctx.fail("result of a weak order does not normalise to the term's normal form", &[reduce_op(o, 0, t)]);
                        }
                    }
                }
            }
            // random history
            let hl = 1 + ctx.rng.below(6);
            let mut calls = Vec::new();
            for _ in 0..hl {
                calls.push((*ctx.rng.pick(&ORDERS), 1 + ctx.rng.below(4)));
            }
            // establish safety of the history by running it call by call through step-wise ops
            let mut cur = t.clone();
            let mut ok = true;
            for (o, l) in &calls {
                let tr = stepwise(ctx, &cur, *o, *l, cap);
                if tr.broken || size(tr.terms.last().unwrap()) > cap {
                    ok = false;
                    break;
                }
                cur = tr.terms.last().unwrap().clone();
            }
            if ok {
                let mut line = format!("hist {}", calls.len());
                for (o, l) in &calls {
                    line.push_str(&format!(" {} {}", order_name(*o), l));
                }
                line.push(' ');
                line.push_str(&s(t));
                let r = ctx.op(&line);
                let toks: Vec<&str> = r.split_ascii_whitespace().collect();
                if toks.len() > calls.len() {
                    let mut it = toks[calls.len()..].iter().copied();
                    if let Some(u) = codec::dec(&mut it) {
                        ctx.nontrivial(&line);
                        ctx.count("histories");
                        if u != cur {
                            ctx.fail("history through one hist op differs from the same calls issued one by one", &[line.clone()]);
                        }
                        match ref_normalise(&u, 400, 6000) {
                            Some((n2, _)) => {
                                if n2 != *n {
                                    ctx.fail("after a history of reduce calls the term no longer has the original normal form", &[line]);
                                }
                            }
                            None => ctx.count("history_inconclusive"),
                        }
                    }
                }
            }
        }
    }
}

// ------------------------------------------------------------------------------------------ C07
pub fn c07(ctx: &mut Ctx) {
    let sz = if ctx.thorough {
        Sizes { enum_size: 8, enum_free: 1, n_random: 20000, rand_size: 30 }
    } else {
        Sizes { enum_size: 7, enum_free: 1, n_random: 2500, rand_size: 24 }
    };
    let mut uni = universe(ctx, &sz, true);
    uni.extend(divergent_family(ctx));
    uni.extend(headform_family());
    uni.extend(long_programs());
    let big = 3000usize; // step budget no correct implementation can need here (k <= 200 by construction)
    for t in &uni {
        ctx.count(bucket(size(t)));
        // terms on which some eager order diverges are the interesting ones; keep all that have a NF
        // a normal form exists if the breadth-first search of the reduction graph finds one, or — when that search is
        // inconclusive because the graph is large — if leftmost-outermost reference reduction reaches one
        let found = graph_normal_form(t, if ctx.thorough { 1500 } else { 400 }, 300)
            .or_else(|| ref_normalise(t, 200, 3000).map(|(n, _)| n));
        let nf = match found {
            Some(n) => n,
            None => {
                ctx.count("no_nf_found");
                // head forms
                head_part(ctx, t, big);
                continue;
            }
        };
        let k = match ref_normalise(t, 200, 3000) {
            Some((n, k)) => {
                if n != nf {
                    ctx.fail("oracle bug: reference normal forms differ", &[reduce_op(NOR, 0, t)]);
                }
                k
            }
            None => {
                ctx.count("nf_but_reference_run_too_long");
                continue;
            }
        };
        ctx.count("has_nf");
        if k > 0 {
            ctx.count("has_nf_nontrivial");
        }
        // "peek, then normalise": calls that are CUT OFF by their limit come first (one step, half the run, under both orders, and
        // through the free function `beta`): whatever they leave behind on this thread — a memo of contracted redexes, a reused
        // buffer — the unlimited runs below must still reach the normal form (seed a07)
        let mut peeks: Vec<String> = Vec::new();
        if k > 1 {
            for (o, l) in [(NOR, 1usize), (HNO, 1), (NOR, k / 2), (HNO, (k / 2).max(1)), (HSP, 1), (CBN, 1)] {
                let pl = reduce_op(o, l, t);
                ctx.op(&pl);
                peeks.push(pl);
            }
            let pl = format!("beta NOR 1 {}", s(t));
            ctx.op(&pl);
            peeks.push(pl);
            ctx.count("peek_then_normalise");
        }
        // NOR: exactly the reference count (every step is pinned by C05)
        let line = reduce_op(NOR, big, t);
        let r = ctx.op(&line);
        if k > 0 {
            ctx.nontrivial(&line);
        }
        match parse_reduce(&r) {
            Some((c, u)) => {
                if c >= big {
                    ctx.fail("NOR did not reach an existing normal form within the step budget", &[line.clone()]);
                } else if u != nf {
                    let mut ops = peeks.clone();
                    ops.push(line.clone());
                    ctx.fail("NOR stopped at a term different from the normal form (the last line; the lines before it are the limited calls issued first)", &ops);
                } else if c != k {
                    ctx.fail("NOR needed a different number of steps than leftmost-outermost reduction", &[line.clone()]);
                } else {
                    // the property speaks about limit 0: issued once the budgeted run has shown that it returns
                    let l0 = reduce_op(NOR, 0, t);
                    let r0 = ctx.op(&l0);
                    if parse_reduce(&r0) != Some((k, nf.clone())) {
                        ctx.fail("NOR with limit 0 does not return the existing normal form", &[l0]);
                    }
                }
            }
            None => {}
        }
        let line = reduce_op(HNO, big, t);
        let r = ctx.op(&line);
        match parse_reduce(&r) {
            Some((c, u)) => {
                if c >= big {
                    ctx.count("hno_budget_hit");
                    ctx.fail("HNO did not reach an existing normal form within the step budget", &[line.clone()]);
                } else if u != nf {
                    let mut ops = peeks.clone();
                    ops.push(line.clone());
                    ctx.fail("HNO stopped at a term different from the normal form (the last line; the lines before it are the limited calls issued first)", &ops);
                } else {
                    let l0 = reduce_op(HNO, 0, t);
                    let r0 = ctx.op(&l0);
                    if parse_reduce(&r0).map(|x| x.1) != Some(nf.clone()) {
                        ctx.fail("HNO with limit 0 does not return the existing normal form", &[l0]);
                    }
                }
            }
            None => {}
        }
        // does some eager order diverge here? (statistics only)
        if ref_eager_loops(t) {
            ctx.count("eager_order_would_diverge");
        }
        head_part(ctx, t, big);
    }
}

/// terms WITHOUT a normal form that have a weak head normal form and/or a head normal form: CBN resp. HSP must
/// terminate on them (the rest of C07), placed at top level, under binders and in operator position
fn headform_family() -> Vec<Term> {
    let om = abs(app(Var(1), Var(1)));
    let omega = app(om.clone(), om.clone());
    let k = abs!(2, Var(2));
    let y = lambda_calculus::combinators::Y();
    let base: Vec<Term> = vec![
        abs(omega.clone()),                                        // λ.Ω : whnf, no hnf
        app(Var(1), omega.clone()),                                // x Ω : hnf and whnf, no nf
        abs(app!(Var(1), omega.clone(), abs(omega.clone()))),      // λ.1 Ω (λ.Ω) : hnf
        app(abs!(2, omega.clone()), Var(1)),                       // (λλ.Ω) a -> λ.Ω : whnf only
        app!(k.clone(), abs(omega.clone()), omega.clone()),        // K (λ.Ω) Ω -> λ.Ω : whnf only, discards Ω
        app(y.clone(), Var(1)),                                    // Y f, f free -> f (Y f): hnf, no nf
        app(abs(app(Var(2), Var(1))), omega.clone()),              // (λ.2 1) Ω -> 1 Ω : hnf
        abs(app(Var(2), app(abs(Var(1)), omega.clone()))),         // λ.2 ((λ.1) Ω) : hnf without touching the argument
    ];
    let mut out = Vec::new();
    for g in &base {
        out.push(g.clone());
        out.push(abs(g.clone()));
        out.push(app(abs(Var(1)), g.clone()));                     // I g -> g
        out.push(app(abs!(2, Var(2)), g.clone()));                 // K g -> λ.g'
        out.push(app(g.clone(), Var(1)));
    }
    out
}

/// closed programs with runs of 10–200 steps under every order (Church arithmetic and a list function): long limited
/// runs, limits in the middle of a run, and terms the breadth-first search of C07 cannot finish
pub fn long_programs() -> Vec<Term> {
    use lambda_calculus::data::num::church::*;
    let ch = |n: usize| n.into_church();
    vec![
        app!(add(), ch(3), ch(4)),
        app!(mul(), ch(2), ch(3)),
        app!(sub(), ch(4), ch(2)),
        app!(pow(), ch(2), ch(3)),
        app(pred(), ch(4)),
        app(fac(), ch(3)),
        app(is_zero(), ch(3)),
        app!(leq(), ch(2), ch(3)),
        app!(lambda_calculus::data::list::pair::length(), vec![ch(1), ch(2)].into_pair_list()),
        app!(ch(3), abs(app(abs(Var(1)), Var(1))), abs(Var(1))),
    ]
}

/// terms that HAVE a normal form but contain a diverging subterm that must be discarded unreduced, placed in
/// every kind of position: argument of a redex, any argument of a variable-headed spine (first, middle, last),
/// under a binder in an argument, inside the operator, nested two levels deep, inside pair/list bodies
fn divergent_family(ctx: &mut Ctx) -> Vec<Term> {
    let om = abs(app(Var(1), Var(1)));
    let omega = app(om.clone(), om.clone());
    let om3 = abs(app!(Var(1), Var(1), Var(1)));
    let k = abs!(2, Var(2));
    let i = abs(Var(1));
    let gadgets: Vec<Term> = vec![
        app(abs(Var(3)), omega.clone()),                 // (λ.3) Ω   ->  2
        app!(k.clone(), i.clone(), omega.clone()),       // K I Ω     ->  I
        app(abs!(2, Var(1)), omega.clone()),             // (λλ.1) Ω  ->  I
        app(abs(Var(2)), app(om3.clone(), om3.clone())), // (λ.2) (ω₃ ω₃), growing divergence
        app(abs(abs(Var(3))), abs(omega.clone())),       // discards λ.Ω
        app!(abs!(2, app(Var(1), Var(4))), omega.clone(), i.clone()), // (λλ.1 4) Ω I -> 2
        app!(k.clone(), Var(0), omega.clone()),          // K UD Ω    ->  UD  (UD passed as a bare argument, under a binder)
        app!(abs!(3, app(Var(3), Var(1))), Var(0), omega.clone(), Var(0)), // (λλλ.3 1) UD Ω UD -> UD UD
    ];
    type C = Box<dyn Fn(Term) -> Term>;
    let contexts: Vec<C> = vec![
        Box::new(|g| g),
        Box::new(|g| app!(Var(1), g, Var(3))),
        Box::new(|g| app!(Var(1), Var(2), g)),
        Box::new(|g| app!(Var(1), Var(2), g, Var(3))),
        Box::new(|g| app!(Var(1), app(Var(2), g), Var(3))),
        Box::new(|g| abs(app!(Var(1), g, abs(Var(1))))),
        Box::new(|g| abs(app!(Var(1), abs(Var(1)), g, abs(Var(2))))),
        Box::new(|g| app!(Var(1), abs(app(Var(1), g)), Var(2))),
        Box::new(|g| app(abs(app!(Var(1), g, Var(2))), Var(5))),
        Box::new(|g| app!(abs!(3, app!(Var(1), Var(3), Var(2))), g, abs(Var(1)))), // pair constructor applied
        Box::new(|g| abs(abs(app!(Var(2), g.clone(), app(Var(1), g))))),
        Box::new(|g| app!(Var(2), app!(Var(1), g, Var(1)), Var(3))),
        Box::new(|g| app(abs(app(Var(1), Var(1))), abs(app!(Var(2), g, Var(2))))),
    ];
    let mut out = Vec::new();
    for c in &contexts {
        for g in &gadgets {
            out.push(c(g.clone()));
        }
    }
    // two-level nesting
    for a in 0..contexts.len() {
        let b = ctx.rng.below(contexts.len());
        for g in gadgets.iter().take(3) {
            out.push(contexts[a](contexts[b](g.clone())));
        }
    }
    ctx.add("divergent_family_terms", out.len() as u64);
    out
}

fn head_part(ctx: &mut Ctx, t: &Term, big: usize) {
    if let Some(kh) = ref_head_terminates(t, 200, 3000, true) {
        let line = reduce_op(CBN, big, t);
        let r = ctx.op(&line);
        if kh > 0 {
            ctx.nontrivial(&line);
        }
        if let Some((c, u)) = parse_reduce(&r) {
            if c >= big {
                ctx.fail("CBN did not terminate although weak head reduction does", &[line.clone()]);
            } else if !is_whnf(&u) {
                ctx.fail("CBN stopped outside weak head normal form", &[line.clone()]);
            }
        }
        ctx.count("has_whnf");
    }
    if let Some(kh) = ref_head_terminates(t, 200, 3000, false) {
        let line = reduce_op(HSP, big, t);
        let r = ctx.op(&line);
        if kh > 0 {
            ctx.nontrivial(&line);
        }
        if let Some((c, u)) = parse_reduce(&r) {
            if c >= big {
                ctx.fail("HSP did not terminate although head reduction does", &[line.clone()]);
            } else if !is_hnf(&u) {
                ctx.fail("HSP stopped outside head normal form", &[line.clone()]);
            }
        }
        ctx.count("has_hnf");
    }
}

/// reference applicative-order run exceeds 300 steps (statistics only)
fn ref_eager_loops(t: &Term) -> bool {
    let mut cur = t.clone();
    for _ in 0..300 {
        match sel_lmi(&cur) {
            None => return false,
            Some(p) => {
                cur = contract_at(&cur, &p).unwrap();
                if size(&cur) > 3000 {
                    return true;
                }
            }
        }
    }
    true
}

// ------------------------------------------------------------------------------------------ C08
pub fn c08(ctx: &mut Ctx) {
    history_independence(ctx);
    let sz = sizes(ctx, 1);
    let mut uni = universe(ctx, &sz, true);
    // large random terms: the invariant is cheap where an oracle comparison would not be
    let nbig = if ctx.thorough { 1500 } else { 150 };
    for _ in 0..nbig {
        let b = 100 + ctx.rng.below(300);
        uni.push(random_term(&mut ctx.rng, b, 0, true, 15));
    }
    for t in &uni {
        ctx.count(bucket(size(t)));
        let (fv, ud) = free_vars(t);
        for &o in ORDERS.iter() {
            let steps = if size(t) > 60 { 30 } else { 10 };
            let tr = stepwise(ctx, t, o, steps, 20000);
            for (i, u) in tr.terms.iter().enumerate().skip(1) {
                let (fv2, ud2) = free_vars(u);
                if !fv2.is_subset(&fv) {
                    ctx.fail("reduction produced a free variable the input does not have", &[reduce_op(o, 1, &tr.terms[i - 1])]);
                }
                if ud2 && !ud {
                    ctx.fail("reduction produced UD although the input has none", &[reduce_op(o, 1, &tr.terms[i - 1])]);
                }
                // closedness by the harness's own definition (not by the crate's has_free_variables, which is C18's subject)
                if !ref_has_free(t, 0) && ref_has_free(u, 0) {
                    ctx.fail("closed term became open", &[reduce_op(o, 1, &tr.terms[i - 1])]);
                }
            }
        }
        // UD is inert: reducing t must commute with replacing every UD by a FRESH free variable
        // (never shifted, substituted for, or captured)
        if ud && size(t) <= 60 {
            let fresh = fv.iter().max().copied().unwrap_or(0) + 7;
            let tz = ud_to_free(t, 0, fresh);
            for &o in ORDERS.iter() {
                let l1 = reduce_op(o, 1, t);
                let r1 = ctx.op(&l1);
                let l2 = reduce_op(o, 1, &tz);
                let r2 = ctx.op(&l2);
                if let (Some((c1, u1)), Some((c2, u2))) = (parse_reduce(&r1), parse_reduce(&r2)) {
                    ctx.nontrivial(&l2);
                    if c1 != c2 || ud_to_free(&u1, 0, fresh) != u2 {
                        ctx.fail("UD is not inert: reducing with UD differs from reducing with a fresh free variable in its place (shifted, substituted for or captured)", &[l1, l2]);
                    }
                    ctx.count("ud_parametricity_checks");
                }
            }
        }
        // apply
        if let App(p) = t {
            if let Abs(_) = p.0 {
                if ud && size(t) <= 60 {
                    let fresh = fv.iter().max().copied().unwrap_or(0) + 7;
                    let l1 = format!("apply {} {}", s(&p.0), s(&p.1));
                    let r1 = ctx.op(&l1);
                    let l2 = format!("apply {} {}", s(&ud_to_free(&p.0, 0, fresh)), s(&ud_to_free(&p.1, 0, fresh)));
                    let r2 = ctx.op(&l2);
                    let d = |r: &str| r.strip_prefix("ok ").and_then(|x| { let mut it = x.split_ascii_whitespace(); codec::dec(&mut it) });
                    if let (Some(u1), Some(u2)) = (d(&r1), d(&r2)) {
                        if ud_to_free(&u1, 0, fresh) != u2 {
                            ctx.fail("apply: UD is not inert (differs from a fresh free variable in its place)", &[l1, l2]);
                        }
                    }
                }
                let line = format!("apply {} {}", s(&p.0), s(&p.1));
                let r = ctx.op(&line);
                if let Some(rest) = r.strip_prefix("ok ") {
                    let mut it = rest.split_ascii_whitespace();
                    if let Some(u) = codec::dec(&mut it) {
                        ctx.nontrivial(&line);
                        let (f1, u1) = free_vars(&p.0);
                        let (f2, u2) = free_vars(&p.1);
                        let (fr, ur) = free_vars(&u);
                        let mut un = f1.clone();
                        un.extend(f2.iter().copied());
                        if !fr.is_subset(&un) {
                            ctx.fail("apply produced a free variable neither the abstraction nor the argument has", &[line.clone()]);
                        }
                        if ur && !(u1 || u2) {
                            ctx.fail("apply produced UD", &[line.clone()]);
                        }
                    }
                }
            }
        }
    }
}

/// replace every UD by the free variable number `fresh` (index `fresh + depth` at binder depth `depth`)
fn ud_to_free(t: &Term, d: usize, fresh: usize) -> Term {
    match t {
        Var(0) => Var(fresh + d),
        Var(i) => Var(*i),
        Abs(b) => abs(ud_to_free(b, d + 1, fresh)),
        App(p) => app(ud_to_free(&p.0, d, fresh), ud_to_free(&p.1, d, fresh)),
    }
}

// ------------------------------------------------------------------------------------------ C18
fn ref_has_free(t: &Term, d: usize) -> bool {
    match t {
        Var(i) => *i > d || *i == 0,
        Abs(b) => ref_has_free(b, d + 1),
        App(p) => ref_has_free(&p.0, d) || ref_has_free(&p.1, d),
    }
}
fn ref_closed(t: &Term, d: usize) -> bool {
    match t {
        Var(i) => *i <= d,
        Abs(b) => ref_closed(b, d + 1),
        App(p) => ref_closed(&p.0, d) && ref_closed(&p.1, d),
    }
}
/// supercombinator by the linked definition: closed, λ-prefix around a non-abstraction E, every
/// abstraction in E again a supercombinator
fn ref_supercomb(t: &Term) -> bool {
    fn inner_abs_ok(e: &Term) -> bool {
        match e {
            Var(_) => true,
            Abs(_) => ref_supercomb(e),
            App(p) => inner_abs_ok(&p.0) && inner_abs_ok(&p.1),
        }
    }
    if !ref_closed(t, 0) {
        return false;
    }
    let mut e = t;
    while let Abs(b) = e {
        e = b;
    }
    inner_abs_ok(e)
}
fn ref_max_depth(t: &Term) -> u32 {
    // largest number of abstractions on a root-to-leaf path
    fn go(t: &Term, d: u32, best: &mut u32) {
        match t {
            Var(_) => *best = (*best).max(d),
            Abs(b) => go(b, d + 1, best),
            App(p) => {
                go(&p.0, d, best);
                go(&p.1, d, best)
            }
        }
    }
    let mut b = 0;
    go(t, 0, &mut b);
    b
}

pub fn c18(ctx: &mut Ctx) {
    let sz = if ctx.thorough {
        Sizes { enum_size: 9, enum_free: 2, n_random: 200000, rand_size: 60 }
    } else {
        Sizes { enum_size: 8, enum_free: 2, n_random: 20000, rand_size: 40 }
    };
    let mut uni = universe(ctx, &sz, true);
    // closed UD-free terms of all sizes (only ~6 % of the random universe is closed and UD-free, none of the large ones a
    // supercombinator), supercombinators BUILT by construction with 2–4 levels of inner supercombinators, and for each a
    // near miss in which one inner lambda refers to one binder of an enclosing level
    let nc = if ctx.thorough { 20000 } else { 3000 };
    for i in 0..nc {
        let b = 6 + ctx.rng.below(55);
        uni.push(random_closed(&mut ctx.rng, b, 0));
        if i % 3 == 0 {
            let levels = 2 + ctx.rng.below(3);
            let sc = build_supercombinator(&mut ctx.rng, levels);
            uni.push(spoil_supercombinator(&mut ctx.rng, &sc));
            uni.push(sc);
        }
    }
    // deep terms: 255 … 65 537 binders on one path (a depth kept in fewer bits than the crate's types wraps here), with a leaf
    // bound by the innermost / the outermost binder, a leaf that is free by one, and two paths of different depth
    for n in [255usize, 256, 257, 65535, 65536, 65537] {
        for leaf in [1usize, n, n + 1] {
            let mut t = Var(leaf);
            for _ in 0..n {
                t = abs(t);
            }
            uni.push(t.clone());
            uni.push(abs(app(abs(Var(1)), t)));
        }
        let mut t = app(Var(n), abs(abs(Var(n + 2))));
        for k in 0..n {
            t = abs(t);
            if k == n / 2 {
                t = app(t, abs(Var(1)));
            }
        }
        uni.push(t);
    }
    for t in &uni {
        ctx.count(bucket(size(t)));
        let line = format!("pred {}", s(t));
        let r = ctx.op(&line);
        let ud = free_vars(t).1;
        let hf = ref_has_free(t, 0);
        let md = ref_max_depth(t);
        let toks: Vec<&str> = r.split_ascii_whitespace().collect();
        if toks.len() != 3 {
            continue;
        }
        ctx.nontrivial(&line);
        if toks[0] != (hf as u8).to_string() {
            ctx.fail("has_free_variables differs from its definition", &[line.clone()]);
        }
        if !ud {
            let sc = ref_supercomb(t);
            if sc {
                ctx.count("supercombinators");
            }
            if toks[1] != (sc as u8).to_string() {
                ctx.fail("is_supercombinator differs from the definition of supercombinator", &[line.clone()]);
            }
        }
        if toks[2] != md.to_string() {
            ctx.fail("max_depth differs from the largest number of abstractions on a path", &[line.clone()]);
        }
    }
    // isomorphism = structural equality
    let small = enum_upto(if ctx.thorough { 6 } else { 5 }, 1);
    for a in &small {
        for b in &small {
            let line = format!("iso {} {}", s(a), s(b));
            let r = ctx.op(&line);
            if r != ((a == b) as u8).to_string() {
                ctx.fail("is_isomorphic_to differs from structural equality", &[line.clone()]);
            }
        }
    }
    ctx.add("iso_small_pairs", (small.len() * small.len()) as u64);
    let n = if ctx.thorough { 20000 } else { 3000 };
    for _ in 0..n {
        let b = 2 + ctx.rng.below(40);
        let a = random_term(&mut ctx.rng, b, 0, true, 10);
        let c = match ctx.rng.below(3) {
            0 => a.clone(),
            1 => mutate(&mut ctx.rng, &a),
            _ => random_term(&mut ctx.rng, b, 0, true, 10),
        };
        let line = format!("iso {} {}", s(&a), s(&c));
        let r = ctx.op(&line);
        ctx.nontrivial(&line);
        if r != ((a == c) as u8).to_string() {
            ctx.fail("is_isomorphic_to differs from structural equality", &[line.clone()]);
        }
    }
}

// ------------------------------------------------------------------------------------------ C19
pub fn c19(ctx: &mut Ctx) {
    let sz = if ctx.thorough {
        Sizes { enum_size: 8, enum_free: 2, n_random: 50000, rand_size: 40 }
    } else {
        Sizes { enum_size: 7, enum_free: 2, n_random: 5000, rand_size: 30 }
    };
    let uni = universe(ctx, &sz, true);
    let e = |x: &str| format!("err {}", x);
    for t in &uni {
        ctx.count(bucket(size(t)));
        let line = format!("acc {}", s(t));
        let r = ctx.op(&line);
        ctx.nontrivial(&line);
        // expected, by pattern matching
        let (uv, ua, up, lh, rh) = match t {
            Var(n) => (format!("ok {}", n), e("NotAbs"), e("NotApp"), e("NotApp"), e("NotApp")),
            Abs(b) => (e("NotVar"), format!("ok {}", s(b)), e("NotApp"), e("NotApp"), e("NotApp")),
            App(p) => (
                e("NotVar"),
                e("NotAbs"),
                format!("ok {} , {}", s(&p.0), s(&p.1)),
                format!("ok {}", s(&p.0)),
                format!("ok {}", s(&p.1)),
            ),
        };
        let fam = [uv, ua, up, lh, rh].join(" | ");
        let expect = format!("{} | {} | {} | unchanged 1", fam, fam, fam);
        if r != expect {
            ctx.fail("an accessor returned something other than the parts the term was built from / the matching error", &[line.clone()]);
        }
        // writes through the _mut forms
        let v = random_term(&mut ctx.rng, 3, 0, true, 0);
        let v2 = random_term(&mut ctx.rng, 2, 0, true, 0);
        let n = ctx.rng.below(9);
        let puts = [
            (format!("put unvar {} {}", s(t), n), match t { Var(_) => format!("ok {}", n), _ => e("NotVar") }),
            (format!("put unabs {} {}", s(t), s(&v)), match t { Abs(_) => format!("ok {}", s(&abs(v.clone()))), _ => e("NotAbs") }),
            (format!("put lhs {} {}", s(t), s(&v)), match t { App(p) => format!("ok {}", s(&app(v.clone(), p.1.clone()))), _ => e("NotApp") }),
            (format!("put rhs {} {}", s(t), s(&v)), match t { App(p) => format!("ok {}", s(&app(p.0.clone(), v.clone()))), _ => e("NotApp") }),
            (format!("put unapp {} {} {}", s(t), s(&v), s(&v2)), match t { App(_) => format!("ok {}", s(&app(v.clone(), v2.clone()))), _ => e("NotApp") }),
        ];
        for (pl, ex) in puts.iter() {
            let r = ctx.op(pl);
            if ex.starts_with("ok") {
                ctx.nontrivial(pl);
            }
            if &r != ex {
                ctx.fail("a write through a _mut accessor changed something other than the addressed component (or gave the wrong error)", &[pl.clone()]);
            }
        }
    }
    // string tables of the API: Display of TermError / Order (ParseError is exercised by the C09 runner)
    for (e, msg) in [("NotVar", "the term is not a variable"), ("NotAbs", "the term is not an abstraction"), ("NotApp", "the term is not an application")] {
        let line = format!("errmsg term {}", e);
        let r = ctx.op(&line);
        ctx.nontrivial(&line);
        let want: Vec<String> = msg.chars().map(|c| (c as u32).to_string()).collect();
        if r != format!("{} {}", want.len(), want.join(" ")) {
            // the wording of messages is behaviour no property speaks about (C19 is about the error VARIANT): advisory
            ctx.note("Display of a TermError is not the message the harness expects");
        }
    }
    for o in ORDERS.iter() {
        let line = format!("ordname {}", order_name(*o));
        ctx.op(&line);
        ctx.nontrivial(&line);
    }
    // macros
    let n = if ctx.thorough { 5000 } else { 800 };
    for _ in 0..n {
        let k = 1 + ctx.rng.below(5);
        let ts: Vec<Term> = (0..=k).map(|_| { let b = 1 + ctx.rng.below(5); random_term(&mut ctx.rng, b, 0, true, 5) }).collect();
        let mut line = format!("mapp {}", k);
        for t in &ts {
            line.push(' ');
            line.push_str(&s(t));
        }
        let r = ctx.op(&line);
        ctx.nontrivial(&line);
        let mut ex = ts[0].clone();
        for t in &ts[1..] {
            ex = app(ex, t.clone());
        }
        if r != s(&ex) {
            ctx.fail("app! is not the left-nested application", &[line.clone()]);
        }
        let m = ctx.rng.below(9);
        let line = format!("mabs {} {}", m, s(&ts[0]));
        let r = ctx.op(&line);
        ctx.nontrivial(&line);
        let mut ex = ts[0].clone();
        for _ in 0..m {
            ex = abs(ex);
        }
        if r != s(&ex) {
            ctx.fail("abs! is not the n-fold abstraction", &[line.clone()]);
        }
    }
    // the public constant UD is the variable with index 0 (found untied by the mutation analysis of tools/mutate.py)
    {
        let r = ctx.op("udconst");
        ctx.nontrivial("udconst");
        if r != "0" || UD != Var(0) {
            ctx.fail("the constant UD is not the variable with index 0", &["udconst".to_string()]);
        }
    }
    // abs! with counts around the powers of two a narrower counter would wrap at (seed a19: the count cast to u16)
    for &m in [255usize, 256, 257, 65535, 65536, 65537, 70000].iter() {
        for t in [Var(1), app(Var(0), abs(Var(2)))] {
            let line = format!("mabs {} {}", m, s(&t));
            let r = ctx.op(&line);
            ctx.nontrivial(&line);
            // expected, without building the term: m times the binder word, then the body
            let want = format!("{}{}", "L ".repeat(m), s(&t));
            if r != want {
                ctx.fail("abs! is not the n-fold abstraction (count at or beyond a power of two)", &[line.clone()]);
            }
            ctx.count("abs_macro_large_counts");
        }
    }
}
