//! Execution of protocol operation lines against the real crate (in-process).
//! Every operation prints exactly one canonical result line; the Lean driver prints the
//! same line from the model.  See DESIGN.md §3.2.
use crate::codec::{self, dec, order_of, s};
use lambda_calculus::term::TermError;
use lambda_calculus::*;

fn err_name(e: &TermError) -> &'static str {
    match e {
        TermError::NotVar => "NotVar",
        TermError::NotAbs => "NotAbs",
        TermError::NotApp => "NotApp",
        #[allow(unreachable_patterns)]
        _ => "Other",
    }
}

fn res_term(r: Result<Term, TermError>) -> String {
    match r {
        Ok(t) => format!("ok {}", s(&t)),
        Err(e) => format!("err {}", err_name(&e)),
    }
}
fn res_ref(r: Result<&Term, TermError>) -> String {
    match r {
        Ok(t) => format!("ok {}", s(t)),
        Err(e) => format!("err {}", err_name(&e)),
    }
}

pub fn exec(line: &str) -> String {
    let mut it = line.split_ascii_whitespace();
    let op = match it.next() {
        Some(o) => o,
        None => return "bad-op".into(),
    };
    macro_rules! term {
        () => {
            match dec(&mut it) {
                Some(t) => t,
                None => return "bad-op".into(),
            }
        };
    }
    macro_rules! num {
        () => {
            match it.next().and_then(|x| x.parse::<usize>().ok()) {
                Some(n) => n,
                None => return "bad-op".into(),
            }
        };
    }
    match op {
        "apply" => {
            let mut t = term!();
            let a = term!();
            let before = t.clone();
            let a_before = a.clone();
            match t.apply(&a) {
                Ok(()) => {
                    if a != a_before {
                        return "ok ARG-MODIFIED".into();
                    }
                    format!("ok {}", s(&t))
                }
                Err(e) => {
                    if t != before {
                        format!("err {} CHANGED {}", err_name(&e), s(&t))
                    } else {
                        format!("err {}", err_name(&e))
                    }
                }
            }
        }
        // boundary operations (indices close to usize::MAX): a panic is a legitimate outcome here — the crate refuses to
        // create an index above usize::MAX — and is reported as the line PANIC by the caller's catch_unwind
        "applyb" => {
            let mut t = term!();
            let a = term!();
            match t.apply(&a) {
                Ok(()) => format!("ok {}", s(&t)),
                Err(e) => format!("err {}", err_name(&e)),
            }
        }
        "reduceb" => {
            let o = match it.next().and_then(order_of) {
                Some(o) => o,
                None => return "bad-op".into(),
            };
            let mut t = term!();
            let c = t.reduce(o, 1);
            format!("{} {}", c, s(&t))
        }
        "reduce" => {
            let o = match it.next().and_then(order_of) {
                Some(o) => o,
                None => return "bad-op".into(),
            };
            let l = num!();
            let mut t = term!();
            let c = t.reduce(o, l);
            format!("{} {}", c, s(&t))
        }
        "beta" => {
            let o = match it.next().and_then(order_of) {
                Some(o) => o,
                None => return "bad-op".into(),
            };
            let l = num!();
            let t = term!();
            s(&beta(t, o, l))
        }
        "hist" => {
            let n = num!();
            let mut calls = Vec::new();
            for _ in 0..n {
                let o = match it.next().and_then(order_of) {
                    Some(o) => o,
                    None => return "bad-op".into(),
                };
                let l = num!();
                calls.push((o, l));
            }
            let mut t = term!();
            let mut out = String::new();
            for (o, l) in calls {
                let c = t.reduce(o, l);
                out.push_str(&c.to_string());
                out.push(' ');
            }
            out.push_str(&s(&t));
            out
        }
        "pred" => {
            let t = term!();
            // C18 speaks about is_supercombinator on terms WITHOUT UD only: on a term containing Var(0) the bit is not
            // part of the answer (printed as `-` by both sides), so a different treatment of UD there is not a difference
            fn has_ud(t: &Term) -> bool {
                match t {
                    Var(i) => *i == 0,
                    Abs(b) => has_ud(b),
                    App(p) => has_ud(&p.0) || has_ud(&p.1),
                }
            }
            let sc = if has_ud(&t) { "-".to_string() } else { (t.is_supercombinator() as u8).to_string() };
            format!("{} {} {}", t.has_free_variables() as u8, sc, t.max_depth())
        }
        "iso" => {
            let t = term!();
            let u = term!();
            format!("{}", t.is_isomorphic_to(&u) as u8)
        }
        "acc" => {
            let t = term!();
            let orig = t.clone();
            let mut parts: Vec<String> = Vec::new();
            // consuming
            parts.push(match t.clone().unvar() {
                Ok(n) => format!("ok {}", n),
                Err(e) => format!("err {}", err_name(&e)),
            });
            parts.push(res_term(t.clone().unabs()));
            parts.push(match t.clone().unapp() {
                Ok((l, r)) => format!("ok {} , {}", s(&l), s(&r)),
                Err(e) => format!("err {}", err_name(&e)),
            });
            parts.push(res_term(t.clone().lhs()));
            parts.push(res_term(t.clone().rhs()));
            // _ref
            parts.push(match t.unvar_ref() {
                Ok(n) => format!("ok {}", n),
                Err(e) => format!("err {}", err_name(&e)),
            });
            parts.push(res_ref(t.unabs_ref()));
            parts.push(match t.unapp_ref() {
                Ok((l, r)) => format!("ok {} , {}", s(l), s(r)),
                Err(e) => format!("err {}", err_name(&e)),
            });
            parts.push(res_ref(t.lhs_ref()));
            parts.push(res_ref(t.rhs_ref()));
            // _mut (read only)
            let mut m = t.clone();
            parts.push(match m.unvar_mut() {
                Ok(n) => format!("ok {}", n),
                Err(e) => format!("err {}", err_name(&e)),
            });
            parts.push(match m.unabs_mut() {
                Ok(x) => format!("ok {}", s(x)),
                Err(e) => format!("err {}", err_name(&e)),
            });
            parts.push(match m.unapp_mut() {
                Ok((l, r)) => format!("ok {} , {}", s(l), s(r)),
                Err(e) => format!("err {}", err_name(&e)),
            });
            parts.push(match m.lhs_mut() {
                Ok(x) => format!("ok {}", s(x)),
                Err(e) => format!("err {}", err_name(&e)),
            });
            parts.push(match m.rhs_mut() {
                Ok(x) => format!("ok {}", s(x)),
                Err(e) => format!("err {}", err_name(&e)),
            });
            let unchanged = (t == orig && m == orig) as u8;
            format!("{} | unchanged {}", parts.join(" | "), unchanged)
        }
        "put" => {
            let which = match it.next() {
                Some(w) => w.to_string(),
                None => return "bad-op".into(),
            };
            let mut t = term!();
            let before = t.clone();
            let r: Result<(), TermError> = match which.as_str() {
                "unvar" => {
                    let v = num!();
                    t.unvar_mut().map(|x| *x = v)
                }
                "unabs" => {
                    let v = term!();
                    t.unabs_mut().map(|x| *x = v)
                }
                "lhs" => {
                    let v = term!();
                    t.lhs_mut().map(|x| *x = v)
                }
                "rhs" => {
                    let v = term!();
                    t.rhs_mut().map(|x| *x = v)
                }
                "unapp" => {
                    let v1 = term!();
                    let v2 = term!();
                    t.unapp_mut().map(|(a, b)| {
                        *a = v1;
                        *b = v2;
                    })
                }
                _ => return "bad-op".into(),
            };
            match r {
                Ok(()) => format!("ok {}", s(&t)),
                Err(e) => {
                    if t != before {
                        format!("err {} CHANGED", err_name(&e))
                    } else {
                        format!("err {}", err_name(&e))
                    }
                }
            }
        }
        "mapp" => {
            // app!(t0, t1, .., tk), k in 1..=5 (macro arity is compile-time)
            let k = num!();
            let mut ts = Vec::new();
            for _ in 0..=k {
                ts.push(term!());
            }
            let mut d = ts.into_iter();
            let mut n = || d.next().unwrap();
            let r = match k {
                1 => app!(n(), n()),
                2 => app!(n(), n(), n()),
                3 => app!(n(), n(), n(), n()),
                4 => app!(n(), n(), n(), n(), n()),
                5 => app!(n(), n(), n(), n(), n(), n()),
                _ => return "bad-op".into(),
            };
            s(&r)
        }
        "udconst" => s(&UD),
        "mabs" => {
            let n = num!();
            let t = term!();
            s(&abs!(n, t))
        }
        _ => crate::ops2::exec2(op, &mut it),
    }
}

pub fn _unused() {
    let _ = codec::ORDERS;
}
