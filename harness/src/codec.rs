//! Wire format shared with the Lean driver.
//! Terms travel as prefix words: a number is `Var(n)`, `L t` is `Abs`, `A l r` is `App`.
use lambda_calculus::*;
use lambda_calculus::reduction::Order;

pub fn enc(t: &Term, out: &mut String) {
    // iterative to survive deep terms
    let mut stack: Vec<&Term> = vec![t];
    let mut first = true;
    while let Some(t) = stack.pop() {
        if !first {
            out.push(' ');
        }
        first = false;
        match t {
            Var(n) => out.push_str(&n.to_string()),
            Abs(b) => {
                out.push('L');
                stack.push(b);
            }
            App(b) => {
                out.push('A');
                stack.push(&b.1);
                stack.push(&b.0);
            }
        }
    }
}

pub fn s(t: &Term) -> String {
    let mut o = String::new();
    enc(t, &mut o);
    o
}

/// parse one term from a token stream
pub fn dec<'a, I: Iterator<Item = &'a str>>(it: &mut I) -> Option<Term> {
    // iterative parse with an explicit stack of pending constructors
    enum Fr {
        Abs,
        AppL,
        AppR(Term),
    }
    let mut stack: Vec<Fr> = Vec::new();
    loop {
        let tok = it.next()?;
        let mut cur = match tok {
            "L" => {
                stack.push(Fr::Abs);
                continue;
            }
            "A" => {
                stack.push(Fr::AppL);
                continue;
            }
            n => Var(n.parse().ok()?),
        };
        loop {
            match stack.pop() {
                None => return Some(cur),
                Some(Fr::Abs) => cur = abs(cur),
                Some(Fr::AppL) => {
                    stack.push(Fr::AppR(cur));
                    break;
                }
                Some(Fr::AppR(l)) => cur = app(l, cur),
            }
        }
    }
}

pub fn order_name(o: Order) -> &'static str {
    match o {
        NOR => "NOR",
        CBN => "CBN",
        HSP => "HSP",
        HNO => "HNO",
        APP => "APP",
        CBV => "CBV",
        HAP => "HAP",
        // a new strategy added to the crate is code no property speaks about (keeps the harness compiling)
        #[allow(unreachable_patterns)]
        _ => "OTHER",
    }
}

pub fn order_of(s: &str) -> Option<Order> {
    Some(match s {
        "NOR" => NOR,
        "CBN" => CBN,
        "HSP" => HSP,
        "HNO" => HNO,
        "APP" => APP,
        "CBV" => CBV,
        "HAP" => HAP,
        _ => return None,
    })
}

pub const ORDERS: [Order; 7] = [NOR, CBN, HSP, HNO, APP, CBV, HAP];

pub fn size(t: &Term) -> usize {
    let mut n = 0;
    let mut st = vec![t];
    while let Some(t) = st.pop() {
        n += 1;
        match t {
            Var(_) => {}
            Abs(b) => st.push(b),
            App(b) => {
                st.push(&b.0);
                st.push(&b.1)
            }
        }
    }
    n
}
